"""Reproductions of the genuine defects found on the unchanged tree (DESIGN.md section 6).

Each function returns a string describing the defect when it is PRESENT on the
pyunicorn importable from sys.path, and None when the behaviour is correct.
Run:  python findings/repro.py [ids...]     (PYTHONPATH must reach a built pyunicorn)
They are also imported by the bounded layer as regression cases.
"""
import sys
import warnings
import numpy as np

warnings.filterwarnings("ignore")


def _ts(n=30, seed=1):
    rng = np.random.RandomState(seed)
    return np.cumsum(rng.randn(n))


def f01():
    from pyunicorn.climate import ClimateNetwork
    net = ClimateNetwork.SmallTestNetwork()
    net.degree(); net.betweenness()
    net.set_threshold(0.75)
    fresh = np.asarray(net.adjacency).sum(axis=0)
    got = net.degree()
    if not np.array_equal(got, fresh):
        return f"degree() after set_threshold(0.75) = {got.tolist()} but adjacency gives {fresh.tolist()}"


def f02():
    from pyunicorn.core import Network
    net = Network.SmallTestNetwork()
    A = np.asarray(net.adjacency, dtype=float)
    net.set_link_attribute("w", A * 2.0)
    d1 = net.degree("w").copy()
    p1 = net.path_lengths("w").copy()
    net.set_link_attribute("w", A * 5.0)
    d2 = net.degree("w")
    p2 = net.path_lengths("w")
    if np.allclose(d1, d2) or np.allclose(p1, p2):
        return "degree('w')/path_lengths('w') unchanged after set_link_attribute('w', ...) with new values"


def f03():
    from pyunicorn.timeseries import RecurrenceNetwork
    rn = RecurrenceNetwork(_ts(), threshold=0.5, silence_level=3)
    rn.degree()
    rn.set_fixed_threshold(3.0)
    fresh = np.asarray(rn.adjacency).sum(axis=0)
    got = rn.degree()
    if not np.array_equal(got, fresh):
        return "RecurrenceNetwork.degree() stale after set_fixed_threshold"


def f04():
    from pyunicorn.timeseries import RecurrencePlot
    ts = _ts()
    rp = RecurrencePlot(ts, threshold=0.5, silence_level=3)
    rp.diagline_dist(); rp.vertline_dist()
    rp.set_fixed_recurrence_rate(0.6)
    fresh = RecurrencePlot(ts, recurrence_rate=0.6, silence_level=3)
    if not (np.array_equal(rp.recurrence_matrix(), fresh.recurrence_matrix())):
        return None  # not comparable
    if not np.array_equal(rp.diagline_dist(), fresh.diagline_dist()) or \
            not np.array_equal(rp.vertline_dist(), fresh.vertline_dist()):
        return "diagline_dist()/vertline_dist() stale after set_fixed_recurrence_rate"


def f05():
    from pyunicorn.core import GeoNetwork
    net = GeoNetwork.SmallTestNetwork()
    net.set_node_weight_type("irrigation")
    w = net.node_weights
    if abs(net.total_node_weight - w.sum()) > 1e-9:
        return f"total_node_weight {net.total_node_weight} != sum(node_weights) {w.sum()} after set_node_weight_type"


def f06():
    from pyunicorn.core import ResNetwork
    res = ResNetwork.SmallTestNetwork()
    res.average_effective_resistance()
    d0 = res.diameter_effective_resistance()
    res.update_resistances(res.resistances * 3.0)
    d1 = res.diameter_effective_resistance()
    if abs(d1 - 3.0 * d0) > 1e-6 * max(1, abs(d0)):
        return f"diameter_effective_resistance {d1} after tripling resistances (was {d0})"


def f07():
    from pyunicorn.core import Network
    import igraph
    msgs = []
    try:
        n = Network(edge_list=[], n_nodes=3, silence_level=3)
        assert n.N == 3 and n.n_links == 0
    except Exception as e:  # noqa
        msgs.append(f"Network(edge_list=[], n_nodes=3): {type(e).__name__}")
    try:
        n = Network.FromIGraph(igraph.Graph(3), silence_level=3)
        assert n.N == 3 and n.n_links == 0
    except Exception as e:  # noqa
        msgs.append(f"FromIGraph(Graph(3)): {type(e).__name__}")
    return "; ".join(msgs) or None


def f08():
    from pyunicorn.timeseries import Surrogates
    rng = np.random.RandomState(0)
    s = Surrogates(rng.randn(3, 16), silence_level=3)
    f0 = s.original_data_fft().copy()
    s.correlated_noise_surrogates()
    f1 = s.original_data_fft()
    if not np.array_equal(f0, f1):
        return "cached original_data_fft() changed by correlated_noise_surrogates()"


def f09():
    from pyunicorn.climate import ClimateNetwork
    net = ClimateNetwork.SmallTestNetwork()
    c0 = net.correlation_distance().copy()
    net.inv_correlation_distance()
    c1 = net.correlation_distance()
    if not np.array_equal(c0, c1):
        return "cached correlation_distance() diagonal overwritten by inv_correlation_distance()"


def f10():
    from pyunicorn.climate import ClimateData, MutualInfoClimateNetwork
    data = ClimateData.SmallTestData()
    a0 = data.anomaly().copy()
    MutualInfoClimateNetwork(data, threshold=0.5, winter_only=False, silence_level=3)
    a1 = data.anomaly()
    if not np.allclose(a0, a1):
        return "shared ClimateData.anomaly() normalised in place by MutualInfoClimateNetwork"


def f12():
    from pyunicorn.timeseries import RecurrencePlot
    ang = np.array([0, 2 * np.pi / 3, 4 * np.pi / 3])
    pts = np.vstack([[0, 0], np.c_[np.cos(ang), np.sin(ang)]])
    try:
        rp = RecurrencePlot(pts, metric="euclidean", normalize=False,
                            adaptive_neighborhood_size=2, silence_level=3)
        R = rp.recurrence_matrix()
        if (R.sum(axis=1) - 1 < 2).any():
            return "fewer than requested neighbours"
    except IndexError as e:
        return f"adaptive_neighborhood_size=2 on 4 points raises IndexError: {e}"


def f13():
    from pyunicorn.timeseries import RecurrencePlot
    ts = np.array([0.0, 0.1, np.nan, 0.2, 0.15, 0.3, 0.05])
    for kw in (dict(recurrence_rate=0.5), dict(local_recurrence_rate=0.5)):
        rp = RecurrencePlot(ts, missing_values=True, normalize=False,
                            silence_level=3, **kw)
        R = rp.recurrence_matrix()
        if R[2, :].any() or R[:, 2].any():
            return f"missing-value state marked recurrent with {kw}"


def f14():
    from pyunicorn.timeseries import JointRecurrencePlot
    x = _ts(20, 1); y = _ts(20, 2)
    jrp = JointRecurrencePlot(x, y, threshold=(1.0, 1.0), lag=3, silence_level=3)
    if jrp.N != jrp.recurrence_matrix().shape[0]:
        return f"JointRecurrencePlot.N={jrp.N} but JR is {jrp.recurrence_matrix().shape}"


def f14b():
    from pyunicorn.timeseries import JointRecurrenceNetwork
    x = _ts(20, 1); y = _ts(20, 2)
    try:
        j = JointRecurrenceNetwork(x, y, threshold=(1.0, 1.0), lag=3, silence_level=3)
        A = np.asarray(j.adjacency)
        if A.shape[0] != j.recurrence_matrix().shape[0] or A.diagonal().any():
            return "JointRecurrenceNetwork adjacency inconsistent with JR under lag"
    except Exception as e:
        return f"JointRecurrenceNetwork(lag=3): {type(e).__name__}: {e}"


def f14c():
    from pyunicorn.timeseries import InterSystemRecurrenceNetwork
    x = _ts(20, 1); y = _ts(18, 2)
    try:
        n = InterSystemRecurrenceNetwork(x, y, dim=2, tau=(1, 1), threshold=(1., 1., 1.), silence_level=3)
        if n.N != np.asarray(n.adjacency).shape[0]:
            return f"ISRN N={n.N} vs adjacency {np.asarray(n.adjacency).shape}"
        n.internal_recurrence_rates()
    except Exception as e:
        return f"ISRN with embedding: {type(e).__name__}: {e}"


def f15():
    from pyunicorn.timeseries import RecurrencePlot
    ts = np.array([0, .7, 0, .7, .7, 0])
    out = []
    for sparse in (False, True):
        rp = RecurrencePlot(ts, threshold=0.7, normalize=False,
                            sparse_rqa=sparse, silence_level=3)
        out.append((rp.diagline_dist().tolist(), rp.vertline_dist().tolist()))
    if out[0] != out[1]:
        return f"matrix mode {out[0]} != sequential mode {out[1]}"


def f16():
    from pyunicorn.climate import ClimateNetwork
    from pyunicorn.core import GeoGrid
    rng = np.random.RandomState(3)
    n = 4
    S = rng.rand(n, n); S = (S + S.T) / 2; np.fill_diagonal(S, 0.0)
    grid = GeoGrid(np.arange(1), np.linspace(-30, 30, n), np.linspace(0, 90, n), silence_level=3)
    for ld in (0.0, 0.2, 0.5):
        net = ClimateNetwork(grid, S, link_density=ld, silence_level=3)
        if net.link_density > ld + 1e-12:
            return f"requested density {ld}, realised {net.link_density}"


def f17():
    from pyunicorn.funcnet import CouplingAnalysis
    rng = np.random.RandomState(0)
    ca = CouplingAnalysis(rng.randn(40, 3), silence_level=3)
    try:
        ca.information_transfer(tau_max=2, estimator="gauss", lag_mode="all")
    except IndexError as e:
        return f"information_transfer(lag_mode='all') raises IndexError: {e}"


def f20():
    from pyunicorn.core import InteractingNetworks
    net = InteractingNetworks.SmallTestNetwork()
    L = [4, 0, 3]
    A = np.asarray(net.adjacency)
    want = A[L, :][:, L]
    got = net.internal_adjacency(L)
    if not np.array_equal(want, got):
        return f"internal_adjacency({L}) != A[L][:,L]"


def f21():
    from pyunicorn.core import Network
    d = 1300
    N = d + 1
    A = np.zeros((N, N), dtype=np.int8)
    A[0, 1:] = A[1:, 0] = 1
    A[1, 2] = A[2, 1] = 1; A[2, 3] = A[3, 2] = 1; A[1, 3] = A[3, 1] = 1
    net = Network(adjacency=A, silence_level=3)
    c = net.local_cliquishness(4)[0]
    if c < 0:
        return f"local_cliquishness(4) of a degree-{d} hub = {c} (negative: int32 overflow)"


def f22():
    from pyunicorn.climate import ClimateData
    data = ClimateData.SmallTestData()
    data.anomalies = True
    data.set_window({"time_min": 0., "time_max": 4., "lat_min": 0, "lon_min": 0,
                     "lat_max": 0, "lon_max": 0})
    if data.anomaly().shape != data.observable().shape:
        return f"anomaly() shape {data.anomaly().shape} != observable() shape {data.observable().shape}"


def f23():
    from pyunicorn.timeseries import RecurrencePlot
    rp = RecurrencePlot(_ts(25), threshold=0.5, silence_level=3)
    try:
        rp.twins(min_dist=2)
    except Exception as e:
        return f"RecurrencePlot.twins(): {type(e).__name__}: {e}"
    try:
        s = rp.twin_surrogates(n_surrogates=2, min_dist=2)
        assert s.shape[0] == 2
    except Exception as e:
        return f"RecurrencePlot.twin_surrogates(): {type(e).__name__}: {e}"


def f24():
    from pyunicorn.core import Network
    A = np.zeros((6, 6), dtype=np.int8)
    for i, j in [(0, 1), (1, 2), (2, 3), (3, 4), (0, 2), (1, 3)]:
        A[i, j] = A[j, i] = 1
    net = Network(adjacency=A, silence_level=3)
    net.randomly_rewire(3)
    if net.N != 6 or len(net.node_weights) != net.N:
        return f"randomly_rewire: N {6} -> {net.N} (weights {len(net.node_weights)})"


def f26():
    from pyunicorn.core import ResNetwork
    res = ResNetwork.SmallTestNetwork()
    try:
        v = res.vertex_current_flow_betweenness(res.N)
        return f"vertex_current_flow_betweenness(N) returned {v} instead of raising"
    except IndexError:
        return None


def f27():
    from pyunicorn.climate._ext.numerics import spearman_corr
    rng = np.random.RandomState(5)
    m, tmax = 3, 8
    ranks = np.array([np.argsort(np.argsort(rng.rand(tmax))) + 1.0 for _ in range(m)], dtype=np.float32)
    mask = np.ones((m, tmax), dtype=np.int8)
    rho = spearman_corr(m, tmax, mask, ranks)
    ref = np.corrcoef(ranks)
    if not np.allclose(rho, ref, atol=1e-5):
        return "spearman_corr != corrcoef of ranks for m=3,tmax=8 all-true mask (stride m instead of tmax)"


def f28():
    from pyunicorn.timeseries import Surrogates
    rng = np.random.RandomState(0)
    d = rng.randn(3, 20)
    s = Surrogates(d, silence_level=3)
    for name in ("test_pearson_correlation", "test_mutual_information"):
        try:
            getattr(s, name)(d, rng.randn(3, 5))
            return f"{name} accepted surrogates of a different shape (reads outside the array)"
        except ValueError:
            pass
    return None


def f31():
    from pyunicorn.timeseries import RecurrencePlot
    emb = np.random.RandomState(0).randn(10, 2)
    for metric in ("manhattan", "euclidean", "supremum"):
        try:
            RecurrencePlot.bootstrap_distance_matrix(emb, metric, 5)
        except Exception as e:
            return f"bootstrap_distance_matrix({metric}): {type(e).__name__}: {e}"


ALL = {k: v for k, v in sorted(globals().items()) if k.startswith("f") and k[1:3].isdigit()}

if __name__ == "__main__":
    ids = sys.argv[1:] or list(ALL)
    bad = 0
    for k in ids:
        try:
            r = ALL[k]()
        except Exception as e:  # harness problem
            r = f"REPRO-ERROR {type(e).__name__}: {e}"
        print(k, "DEFECT: " + r if r else "ok")
        bad += bool(r)
    sys.exit(1 if bad else 0)
