#!/usr/bin/env python
"""Bounded stand-in for property C18: resistive-network quantities obey circuit laws.

Real code under check: pyunicorn.core.resistive_network.ResNetwork (and the compiled
current-flow kernels it calls).  Oracle: specs/resistive.py (Kirchhoff's laws on the grounded
Laplacian: exact rational arithmetic for real networks with <= 5 nodes, float64 LU solve for
larger / complex ones; series/parallel reductions for the circuits).  See SCOPE / RULE below.
"""
import os
for _v in ("OPENBLAS_NUM_THREADS", "OMP_NUM_THREADS", "MKL_NUM_THREADS"):
    os.environ.setdefault(_v, "1")      # tiny matrices; worker processes provide the parallelism

import multiprocessing as mp    # noqa: E402
import sys                      # noqa: E402
import json                     # noqa: E402
from fractions import Fraction  # noqa: E402

import numpy as np              # noqa: E402

from bounded.common import parse_args, Report, jsonable, quiet, all_undirected_graphs  # noqa: E402
from specs import resistive as S                                                       # noqa: E402

PROP = "C18"

RTOL64 = 1e-9            # float64 paths (pinv / dense algebra), relative to the scale of the quantity
U32 = 2.0 ** -24         # float32 unit round-off (kernels receive float32 copies of admittance and R)

SCOPE = (
    "ResNetwork on (a) every connected labelled simple graph with 2..5 nodes (771 graphs; thorough: "
    "also all 26704 connected labelled graphs on 6 nodes), (b) series chains (2..8 nodes), parallel "
    "bundles (2..5 branches of 1..3 resistors, with/without a direct link) and ladders (1..6 rungs) "
    "with relabelled nodes, (c) seeded random connected graphs with 6..14 (thorough: ..30) nodes, "
    "(d) a chain of 26 unit resistors and 3 (thorough: 24) random connected graphs with 26..30 "
    "(..40) nodes. "
    "Resistances: seeded multiples of 1/8 in [0.25, 10] times an overall scale from {1, 1e-6, 1e-3, "
    "1e3, 1e6, 1e9} (the rational oracle converts the very float64 numbers handed to the library); "
    "complex impedances re, im multiples of 1/8 (times the scale), re>0. Every network "
    "is observed after construction and after each call of a history of 1..3 update_resistances "
    "calls (new values / positive or complex multiple of the previous values / unit int8 "
    "adjacency as resistances / real<->complex switch / list input / the caller editing IN PLACE the "
    "array object it passed before (which the library holds by reference) and passing the same "
    "object again; scale factors incl. 1e-6..1e9), with average, diameter or "
    "nothing evaluated before the update and diameter or average evaluated first afterwards. "
    "Tolerances: float64 quantities 1e-9 relative to the largest magnitude of the quantity "
    "(pseudo-inverse entries for R and effective resistances); current-flow betweenness (float32 "
    "kernel inputs): |err_i| <= 5*2^-24*ad_i*max|R| (vertex), 8*2^-24*G_ij*max|R| + 2^-23*|value| "
    "(edge), i.e. the first-order bound for rounding admittance and R to float32. Complex networks: "
    "all identities that are algebraic (oracle equality, symmetry, zero self distance, scaling, "
    "series/parallel, Foster, admittive degree, clustering, average); metric inequalities, "
    "diameter, path bound and the float32 betweenness kernels are "
    "checked for real networks only (the kernels reject complex input); average-neighbour admittive "
    "degree of complex networks has its own check (average_neighbors_admittive_degree/definition-"
    "complex: the defining sum in complex arithmetic)."
)
RULE = (
    "One case = one network state (scenario id # number of updates so far); every clause "
    "evaluated on a state counts as one evaluation. A state is distinct non-trivial if the network "
    "has >= 3 nodes and either contains a cycle (currents split, effective resistance differs "
    "from a path sum) or is one of the series/parallel/ladder circuits. Scenarios are generated "
    "deterministically from --seed; graphs of (a) are enumerated exhaustively."
)


# ------------------------------------------------------------------------------ recording

class Rec:
    """Picklable stand-in for Report used inside worker processes."""

    def __init__(self):
        self.evaluations = 0
        self.keys = set()
        self.fails = []
        self.by_check = {}
        self.samples = []
        self.skips = []

    def case(self, key=None, nontrivial=True, sample=None):
        self.evaluations += 1
        if nontrivial and key is not None:
            self.keys.add(key)
        if sample is not None and len(self.samples) < 2:
            self.samples.append(jsonable(sample))

    def fail(self, check, witness, detail):
        c = self.by_check.get(check, 0)
        self.by_check[check] = c + 1
        if c < 3:
            self.fails.append((check, jsonable(witness), str(detail)[:600]))
        else:
            self.fails.append((check, None, ""))

    def skip(self, text):
        if text not in self.skips:
            self.skips.append(text)


def merge(rep, rec):
    rep.evaluations += rec.evaluations
    rep.nontrivial |= rec.keys
    for s in rec.samples:
        if len(rep.samples) < 8:
            rep.samples.append(s)
    for check, wit, det in rec.fails:
        if wit is None:
            rep.nfail += 1
            rep.by_check[check] = rep.by_check.get(check, 0) + 1
        else:
            rep.fail(check, wit, det)
    for s in rec.skips:
        rep.skip(s)


# ------------------------------------------------------------------------------ scenario helpers

def res_matrix(step, A):
    """NumPy resistance matrix of a step (float or complex), zero off the links."""
    re = np.array(step["re"], dtype=float)
    if step.get("im") is not None:
        return re + 1j * np.array(step["im"], dtype=float)
    return re


def lib_input(step, A):
    R = res_matrix(step, A)
    if step.get("offlink") is not None:
        # a network built with an explicit adjacency: the matrix handed over also has values on pairs that are NOT links
        # (a full table of pair resistances); the circuit is the one of the adjacency, those entries carry no admittance
        Aa = np.array(A)
        R = R.copy()
        R[(Aa == 0) & ~np.eye(len(Aa), dtype=bool)] = step["offlink"]
    how = step.get("as", "array")
    if how == "int8":
        return np.array(R.real, dtype=np.int8)
    if how == "list":
        return R.tolist()
    return R


def draw_res(rng, A, cplx=False, rscale=1.0):
    """Seeded resistances k/8 (k = 2..80) times the overall scale `rscale` (1e-6 .. 1e9)."""
    n = len(A)
    re = np.zeros((n, n))
    im = np.zeros((n, n)) if cplx else None
    for i in range(n):
        for j in range(i + 1, n):
            if A[i][j]:
                re[i, j] = re[j, i] = rng.randint(2, 81) / 8.0 * rscale
                if cplx:
                    im[i, j] = im[j, i] = rng.randint(-40, 41) / 8.0 * rscale
    return {"re": re.tolist(), "im": None if im is None else im.tolist()}


def next_step(rng, A, prev, kind, rscale=1.0):
    Aa = np.array(A)
    if kind == "new":
        return draw_res(rng, A, cplx=False, rscale=rscale)
    if kind == "complex":
        return draw_res(rng, A, cplx=True, rscale=rscale)
    if kind == "list":
        st = draw_res(rng, A, cplx=False, rscale=rscale)
        st["as"] = "list"
        return st
    if kind == "inplace":
        # the caller edits, in place, the very array object it passed before (constructor or last
        # update) -- which the library may hold by reference -- and passes that object again
        st = draw_res(rng, A, cplx=prev.get("im") is not None, rscale=rscale)
        st["as"] = "inplace"
        return st
    if kind == "unit":
        return {"re": (Aa != 0).astype(float).tolist(), "im": None, "as": "int8"}
    if kind == "scale":
        P = res_matrix(prev, A)
        if np.iscomplexobj(P):
            c = complex(rng.randint(1, 25) / 8.0, rng.randint(-16, 17) / 8.0)
            Q = P * c
            # keep the network passive (positive real parts) so that it stays non-degenerate
            if (Q.real[Aa != 0] <= 0).any():
                c = complex(rng.randint(1, 25) / 8.0, 0.0)
                Q = P * c
            return {"re": Q.real.tolist(), "im": Q.imag.tolist(), "scale": [c.real, c.imag]}
        small = [0.125, 0.5, 2.0, 3.0, 10.0, 0.375]
        c = (small if rscale != 1.0 else small + [1e-6, 1e-3, 1e3, 1e6, 1e9, 1e6])[rng.randint(0, 6 if rscale != 1.0 else 12)]
        return {"re": (P * c).tolist(), "im": None, "scale": [c, 0.0]}
    raise ValueError(kind)


KINDS = ["scale", "new", "unit", "complex", "list", "inplace"]
PRIMES = ["average", "diameter", "none"]
RSCALES = [1.0, 1e6, 1.0, 1e-6, 1e9, 1.0, 1e3, 1e-3]


def make_scenario(rng, sid, A, variant, nsteps=1, cplx0=False, law=None):
    A = [[int(x != 0) for x in row] for row in np.asarray(A).tolist()]
    rscale = RSCALES[(variant // 3) % len(RSCALES)]
    steps = [draw_res(rng, A, cplx=cplx0, rscale=rscale)]
    primes = []
    orders = ["avg-first" if variant % 2 == 0 else "diam-first"]
    for k in range(nsteps):
        kind = KINDS[(variant + 5 * k) % len(KINDS)]
        steps.append(next_step(rng, A, steps[-1], kind, rscale))
        primes.append(PRIMES[(variant // 2 + k) % 3])
        orders.append("diam-first" if (variant + k) % 3 != 2 else "avg-first")
    if variant % 4 == 1:
        # explicit adjacency (odd variants): every plain array of this scenario also carries values off the links
        for st in steps:
            if st.get("as") is None and st.get("scale") is None:
                st["offlink"] = 7.5 * rscale
    return {"id": sid, "adjacency": A, "ctor": "edge_list" if variant % 8 == 6 else ("adjacency" if variant % 2 else "implicit"),
            "steps": steps, "primes": primes, "orders": orders, "law": law}


# ------------------------------------------------------------------------------ the contract

def _maxabs(x):
    x = np.asarray(x)
    return float(np.abs(x).max()) if x.size else 0.0


def oracle_for(A, Rm):
    """Definition-level values for network (A, Rm)."""
    n = len(A)
    cplx = np.iscomplexobj(Rm)
    if not cplx and n <= 5:
        Rf = [[Fraction(float(Rm[i][j])) for j in range(n)] for i in range(n)]
        G = S.conductance(Rf, A)
        X = S.grounded_inverse(G)
        f = lambda M: np.array([[float(x) for x in row] for row in M])   # noqa: E731
        v = lambda M: np.array([float(x) for x in M])                    # noqa: E731
        return {"G": f(G), "L": f(S.laplacian(G)), "ER": f(S.effective_resistance_matrix(G, X)),
                "P": f(S.pinv_laplacian(G)), "ad": v(S.admittive_degree(G)),
                "anad": v(S.average_neighbors_admittive_degree(G, A)),
                "ac": v(S.local_admittive_clustering(G, A)),
                "vcfb": v(S.vertex_current_flow_betweenness(G, X)),
                "ecfb": f(S.edge_current_flow_betweenness(G, X)), "exact": True}
    o = S.np_quantities(Rm, A)
    o["exact"] = False
    return o


def law_expectations(law, A, Rm):
    """[(a, b, expected ER, clause name)] from series/parallel reductions only."""
    cplx = np.iscomplexobj(Rm)
    conv = (lambda z: complex(z)) if cplx else (lambda z: Fraction(float(z)))
    r = lambda i, j: conv(Rm[i][j])   # noqa: E731
    out = []
    if law["type"] == "series":
        ch = law["chain"]
        for x in range(len(ch)):
            for y in range(x + 1, len(ch)):
                z = S.series(*[r(ch[k], ch[k + 1]) for k in range(x, y)])
                out.append((ch[x], ch[y], z, "effective_resistance/series-law"))
    elif law["type"] == "parallel":
        zs = [S.series(*[r(b[k], b[k + 1]) for k in range(len(b) - 1)]) for b in law["branches"]]
        s, t = law["terminals"]
        out.append((s, t, S.parallel(*zs), "effective_resistance/parallel-law"))
    elif law["type"] == "ladder":
        top, bot = law["top"], law["bottom"]
        m = len(top)
        z = S.ladder_input_resistance([r(top[k], top[k + 1]) for k in range(m - 1)],
                                      [r(bot[k], bot[k + 1]) for k in range(m - 1)],
                                      [r(top[k], bot[k]) for k in range(m)])
        out.append((top[0], bot[0], z, "effective_resistance/ladder-law"))
    return out


def check_state(rec, net, scen, k, prevER):
    """Evaluate every clause on the live object `net`, whose resistances should now be step k."""
    A = scen["adjacency"]
    n = len(A)
    Aa = np.array(A) != 0
    Rm = res_matrix(scen["steps"][k], A)
    cplx = np.iscomplexobj(Rm)
    links = int(Aa.sum()) // 2
    nontrivial = n >= 3 and (links >= n or scen.get("law") is not None)
    key = "%s#%d" % (scen["id"], k)
    wit = {"scenario": scen, "state": k}
    o = oracle_for(A, Rm)

    def ev(check, ok, detail=""):
        rec.case(key, nontrivial)
        if not ok:
            rec.fail(check, wit, detail() if callable(detail) else detail)

    def near(a, b, scale, rtol=RTOL64):
        a = np.asarray(a)
        b = np.asarray(b)
        if a.shape != b.shape:
            return False
        if not (np.isfinite(a).all()):
            return False
        return bool((np.abs(a - b) <= rtol * max(scale, 1e-300)).all())

    # --- order of the first observations (stale store of all-pairs values)
    order = scen["orders"][k]
    avg = diam = None
    with quiet():
        if order == "diam-first":
            if not cplx:
                diam = net.diameter_effective_resistance()
            avg = net.average_effective_resistance()
        else:
            avg = net.average_effective_resistance()
            if not cplx:
                diam = net.diameter_effective_resistance()

    # --- maintained matrices
    adm = net.get_admittance()
    ev("get_admittance/inverse-resistance-on-links", near(adm, o["G"], _maxabs(o["G"]), 1e-12),
       lambda: "got %r expected %r" % (adm.tolist(), o["G"].tolist()))
    lap = net.admittance_lapacian()
    ev("admittance_lapacian/definition", near(lap, o["L"], _maxabs(o["L"]), 1e-12),
       lambda: "got %r expected %r" % (lap.tolist(), o["L"].tolist()))
    Rp = net.get_R()
    pscale = _maxabs(o["P"])
    # The pseudo-inverse must annihilate the constant (null) mode of the Laplacian.  If the
    # library's R still contains it (entries orders of magnitude above the true pseudo-inverse),
    # every R-based quantity below is polluted; report that root cause once, with the
    # consequences in the detail, instead of one failure per dependent clause.
    if not (np.isfinite(np.asarray(Rp)).all() and _maxabs(Rp) <= 1e3 * pscale):
        def consequences():
            txt = "N=%d: max|get_R()|=%.3g but max|pinv(L)|=%.3g" % (n, _maxabs(Rp), pscale)
            try:
                er = np.array([[net.effective_resistance(a, b) for b in range(n)] for a in range(n)])
                txt += "; effective_resistance max abs error %.3g" % _maxabs(er - o["ER"])
                if not cplx:
                    tri = (er[:, None, :] - (er[:, :, None] + er[None, :, :])).max()
                    txt += ", triangle violation %.3g" % tri
                    vc = [net.vertex_current_flow_betweenness(i) for i in range(min(n, 4))]
                    txt += "; vertex_current_flow_betweenness[:4]=%r expected %r" % (
                        [float(x) for x in vc], o["vcfb"][:4].tolist())
            except Exception as e:     # noqa: BLE001
                txt += "; (%s while collecting consequences)" % type(e).__name__
            return txt + "; dependent clauses not evaluated on this state"
        ev("get_R/null-mode-removed", False, consequences)
        return None
    ev("get_R/null-mode-removed", True)
    ev("get_R/pseudo-inverse-of-laplacian", near(Rp, o["P"], pscale),
       lambda: "max abs dev %g (scale %g)" % (_maxabs(np.asarray(Rp) - o["P"]), pscale))
    ev("flagComplex/follows-input", bool(net.flagComplex) == bool(cplx), "flagComplex=%r" % net.flagComplex)

    # --- effective resistance
    ER = np.zeros((n, n), dtype=complex if cplx else float)
    for a in range(n):
        for b in range(n):
            ER[a, b] = net.effective_resistance(a, b)
    escale = max(_maxabs(o["ER"]), pscale)
    ev("effective_resistance/kirchhoff-oracle", near(ER, o["ER"], escale),
       lambda: "max abs dev %g at %r; got %r expected %r" % (
           _maxabs(ER - o["ER"]), np.unravel_index(np.abs(ER - o["ER"]).argmax(), ER.shape),
           ER.tolist(), o["ER"].tolist()))
    ev("effective_resistance/self-zero", bool((np.diag(ER) == 0).all()), lambda: "diag %r" % np.diag(ER).tolist())
    ev("effective_resistance/symmetric", near(ER, ER.T, escale), lambda: "ER %r" % ER.tolist())
    if not cplx:
        off = ~np.eye(n, dtype=bool)
        ev("effective_resistance/positive-between-distinct-nodes", bool((ER[off] > 0).all()),
           lambda: "min off-diagonal %g" % ER[off].min())
        tri = (ER[:, None, :] - (ER[:, :, None] + ER[None, :, :])).max() if n else 0.0
        # ER[a,c] - (ER[a,b] + ER[b,c]) over all a,b,c
        ev("effective_resistance/triangle-inequality", bool(tri <= RTOL64 * escale),
           lambda: "max violation %g" % tri)
        # path bound
        ok = True
        det = ""
        if n <= 5:
            for a in range(n):
                for b in range(a + 1, n):
                    for p in S.simple_paths(A, a, b):
                        pr = sum(float(Rm[p[q]][p[q + 1]]) for q in range(len(p) - 1))
                        if not ER[a, b] <= pr * (1 + RTOL64) + RTOL64 * escale:
                            ok = False
                            det = "ER(%d,%d)=%r > resistance %r of path %r" % (a, b, ER[a, b], pr, p)
        else:
            d = np.array(S.cheapest_path_resistance(Rm.tolist(), A))
            bad = ER > d * (1 + RTOL64) + RTOL64 * escale
            if bad.any():
                ok = False
                a, b = np.argwhere(bad)[0]
                det = "ER(%d,%d)=%r > cheapest path %r" % (a, b, ER[a, b], d[a, b])
        ev("effective_resistance/path-bound", ok, det)
    # Foster
    fo = sum(ER[i, j] * o["G"][i, j] for i in range(n) for j in range(i + 1, n) if Aa[i, j])
    ev("effective_resistance/foster-theorem", abs(fo - (n - 1)) <= 1e-9 * max(n - 1, 1) * max(1.0, escale * _maxabs(o["G"])),
       lambda: "sum ER*G over links = %r, N-1 = %d" % (fo, n - 1))
    # linear scaling against the previous state of the same object
    sc = scen["steps"][k].get("scale")
    if sc is not None and prevER is not None:
        c = complex(sc[0], sc[1]) if cplx else sc[0]
        ev("effective_resistance/linear-scaling", near(ER, c * prevER, abs(c) * _maxabs(prevER) + escale),
           lambda: "factor %r: max dev %g" % (c, _maxabs(ER - c * prevER)))
    # series / parallel / ladder laws
    if scen.get("law"):
        for (a, b, z, name) in law_expectations(scen["law"], A, Rm):
            zz = complex(z) if cplx else float(z)
            ev(name, abs(ER[a, b] - zz) <= RTOL64 * max(abs(zz), escale) and abs(ER[b, a] - zz) <= RTOL64 * max(abs(zz), escale),
               lambda: "ER(%d,%d)=%r, reduction gives %r" % (a, b, ER[a, b], zz))

    # --- aggregates of the effective resistance
    iu = np.triu_indices(n, 1)
    avg_o = 2.0 * o["ER"][iu].sum() / (n * (n - 1))
    ev("average_effective_resistance/definition", near(avg, avg_o, escale),
       lambda: "got %r expected %r (order %s)" % (avg, avg_o, order))
    if not cplx:
        diam_o = o["ER"].max()
        ev("diameter_effective_resistance/definition", near(diam, diam_o, escale),
           lambda: "got %r expected %r (order %s)" % (diam, diam_o, order))
        with quiet():
            d2 = net.diameter_effective_resistance()
        ev("diameter_effective_resistance/repeatable", near(d2, diam_o, escale), lambda: "second call %r expected %r" % (d2, diam_o))
    ercc = np.array([net.effective_resistance_closeness_centrality(a) for a in range(n)])
    ercc_o = (n - 1) / o["ER"].sum(axis=1)
    ev("effective_resistance_closeness_centrality/definition",
       near(ercc, ercc_o, _maxabs(ercc_o), 1e-9 * max(1.0, escale / max(np.abs(o["ER"].sum(axis=1)).min(), 1e-300))),
       lambda: "got %r expected %r" % (ercc.tolist(), ercc_o.tolist()))

    # --- admittive degree / clustering
    ad = net.admittive_degree()
    ev("admittive_degree/definition", near(ad, o["ad"], _maxabs(o["ad"]), 1e-12),
       lambda: "got %r expected %r" % (np.asarray(ad).tolist(), o["ad"].tolist()))
    ac = net.local_admittive_clustering()
    acs = max(_maxabs(o["ac"]), 1e-3 * _maxabs(o["G"]) ** 2)      # ac scales like admittance squared
    ev("local_admittive_clustering/definition", near(ac, o["ac"], acs, 1e-10),
       lambda: "got %r expected %r" % (np.asarray(ac).tolist(), o["ac"].tolist()))
    gac = net.global_admittive_clustering()
    ev("global_admittive_clustering/definition", near(gac, o["ac"].mean(), acs, 1e-10),
       lambda: "got %r expected %r" % (gac, o["ac"].mean()))
    if not cplx:
        an = net.average_neighbors_admittive_degree()
        ev("average_neighbors_admittive_degree/definition", near(an, o["anad"], _maxabs(o["anad"]), 1e-12),
           lambda: "got %r expected %r" % (np.asarray(an).tolist(), o["anad"].tolist()))
    else:
        # complex impedances: the method has its own branch for them; the defining sum
        # sum_j A_ij ad_j / ad_i is algebraic and evaluated in complex arithmetic
        an = np.asarray(net.average_neighbors_admittive_degree())
        ev("average_neighbors_admittive_degree/definition-complex",
           near(an, o["anad"], _maxabs(o["anad"]), 1e-12),
           lambda: "got %r expected sum_j A_ij ad_j / ad_i = %r (ratio got/expected %r)" % (
               an.tolist(), o["anad"].tolist(), (an / o["anad"]).tolist()))

    # --- current-flow betweenness (float32 kernel inputs)
    if not cplx:
        maxR = pscale
        vc = np.array([net.vertex_current_flow_betweenness(i) for i in range(n)], dtype=float)
        tolv = 5 * U32 * o["ad"] * maxR + 1e-12
        okv = np.isfinite(vc).all() and bool((np.abs(vc - o["vcfb"]) <= tolv).all())
        ev("vertex_current_flow_betweenness/defining-sum", okv,
           lambda: "got %r expected %r tol %r" % (vc.tolist(), o["vcfb"].tolist(), tolv.tolist()))
        ec = np.asarray(net.edge_current_flow_betweenness(), dtype=float)
        tole = 8 * U32 * o["G"] * maxR + 2 * U32 * np.abs(o["ecfb"]) + 1e-12
        oke = ec.shape == (n, n) and np.isfinite(ec).all() and bool((np.abs(ec - o["ecfb"]) <= tole).all())
        ev("edge_current_flow_betweenness/defining-sum", oke,
           lambda: "got %r expected %r" % (ec.tolist(), o["ecfb"].tolist()))
    else:
        try:
            net.vertex_current_flow_betweenness(0)
            rec.skip("complex vertex_current_flow_betweenness returned a value; not compared (no definition for complex currents)")
        except TypeError:
            rec.skip("current-flow betweenness kernels reject complex impedances (TypeError from the float32 cast): not supported, not checked")
    return ER


def run_scenario(scen, rec=None):
    from pyunicorn.core.resistive_network import ResNetwork
    rec = Rec() if rec is None else rec
    A = scen["adjacency"]
    try:
        passed = lib_input(scen["steps"][0], A)
        with quiet():
            if scen.get("ctor") == "edge_list":
                # the documented `edge_list` keyword, every link named once (i < j): the circuit is the same network
                el = np.array([(i, j) for i in range(len(A)) for j in range(i + 1, len(A)) if A[i][j]], dtype=int).reshape(-1, 2)
                net = ResNetwork(passed, edge_list=el, silence_level=3)
            elif scen.get("ctor") == "adjacency":
                net = ResNetwork(passed, adjacency=np.array(A, dtype=np.int8), silence_level=3)
            else:
                net = ResNetwork(passed, silence_level=3)
        ev_n = getattr(net, "N", None)
        rec.case(None)
        if ev_n != len(A) or not (np.asarray(net.adjacency) == np.array(A)).all():
            rec.fail("ResNetwork/adjacency-from-resistances", {"scenario": scen, "state": 0},
                     "N=%r adjacency=%r" % (ev_n, np.asarray(net.adjacency).tolist()))
            return rec
        prev = check_state(rec, net, scen, 0, None)
        for k in range(1, len(scen["steps"])):
            prime = scen["primes"][k - 1]
            st = scen["steps"][k]
            new = lib_input(st, A)
            if st.get("as") == "inplace":
                want = res_matrix(st, A)
                for held in (passed, getattr(net, "resistances", None)):
                    if isinstance(held, np.ndarray) and held.shape == want.shape and held.flags.writeable \
                            and held.dtype == want.dtype:
                        held[...] = want        # in-place edit of the array the caller already handed over
                        new = held
                        break
            with quiet():
                if prime == "average":
                    net.average_effective_resistance()
                elif prime == "diameter" and not net.flagComplex:
                    net.diameter_effective_resistance()
                net.update_resistances(new)
            passed = new
            prev = check_state(rec, net, scen, k, prev)
    except Exception as e:   # the library raised on an in-scope input
        import traceback
        rec.case(None)
        rec.fail("ResNetwork/no-exception", {"scenario": scen},
                 "%s: %s | %s" % (type(e).__name__, e, traceback.format_exc()[-300:]))
    return rec


def run_chunk(scens):
    rec = Rec()
    for s in scens:
        run_scenario(s, rec)
        if len(rec.samples) < 1:
            rec.samples.append(jsonable({"id": s["id"], "n": len(s["adjacency"]),
                                         "links": int(np.array(s["adjacency"]).sum()) // 2,
                                         "states": len(s["steps"]),
                                         "complex": [st.get("im") is not None for st in s["steps"]]}))
    return rec


# ------------------------------------------------------------------------------ scope generation

def connected_graphs(n):
    for A in all_undirected_graphs(n):
        if S.is_connected(A):
            yield A


def relabel(rng, n):
    return [int(x) for x in rng.permutation(n)]


def adjacency_from_links(n, links):
    A = np.zeros((n, n), dtype=np.int8)
    for i, j in links:
        A[i, j] = A[j, i] = 1
    return A


def circuit_scenarios(rng, tier):
    out = []
    reps = 1 if tier == "quick" else 4
    v = 0
    for rep_i in range(reps):
        # series chains
        for n in range(2, 9):
            for cplx in (False, True):
                p = relabel(rng, n)
                A = adjacency_from_links(n, [(p[k], p[k + 1]) for k in range(n - 1)])
                out.append(make_scenario(rng, "series-n%d-%s-%d" % (n, "c" if cplx else "r", rep_i), A, v,
                                         nsteps=1 + v % 2, cplx0=cplx, law={"type": "series", "chain": p}))
                v += 1
        # parallel bundles: terminals s,t; branch b has 1..3 resistors; at most one direct link
        for nb in range(2, 6):
            for cplx in (False, True):
                lens = [int(rng.randint(2, 4)) for _ in range(nb)]
                if rng.randint(0, 2):
                    lens[0] = 1
                n = 2 + sum(l - 1 for l in lens)
                p = relabel(rng, n)
                s, t = p[0], p[1]
                nxt = 2
                branches = []
                links = []
                for l in lens:
                    mids = p[nxt:nxt + l - 1]
                    nxt += l - 1
                    b = [s] + mids + [t]
                    branches.append(b)
                    links += [(b[q], b[q + 1]) for q in range(len(b) - 1)]
                A = adjacency_from_links(n, links)
                out.append(make_scenario(rng, "parallel-b%d-%s-%d" % (nb, "c" if cplx else "r", rep_i), A, v,
                                         nsteps=1 + v % 2, cplx0=cplx,
                                         law={"type": "parallel", "terminals": [s, t], "branches": branches}))
                v += 1
        # ladders
        for m in range(1, 7):
            for cplx in (False, True):
                n = 2 * m
                p = relabel(rng, n)
                top, bot = p[:m], p[m:]
                links = [(top[k], bot[k]) for k in range(m)]
                links += [(top[k], top[k + 1]) for k in range(m - 1)] + [(bot[k], bot[k + 1]) for k in range(m - 1)]
                A = adjacency_from_links(n, links)
                out.append(make_scenario(rng, "ladder-m%d-%s-%d" % (m, "c" if cplx else "r", rep_i), A, v,
                                         nsteps=1 + v % 2, cplx0=cplx,
                                         law={"type": "ladder", "top": top, "bottom": bot}))
                v += 1
    return out


def random_connected(rng, n, p):
    A = np.zeros((n, n), dtype=np.int8)
    perm = rng.permutation(n)
    for k in range(1, n):     # random spanning tree
        j = perm[rng.randint(0, k)]
        A[perm[k], j] = A[j, perm[k]] = 1
    extra = np.triu(rng.random_sample((n, n)) < p, 1)
    A = ((A + extra + extra.T) > 0).astype(np.int8)
    np.fill_diagonal(A, 0)
    return A


def build_scenarios(tier, seed):
    rng = np.random.RandomState(seed)
    scens = []
    draws = 2 if tier == "quick" else 4
    v = seed  # rotates the kinds of update / priming across graphs (and seeds)
    for n in range(2, 6):
        for gi, A in enumerate(connected_graphs(n)):
            for d in range(draws):
                scens.append(make_scenario(rng, "g%d-%d-d%d" % (n, gi, d), A, v,
                                           nsteps=3 if (n <= 4 or (gi + d) % 16 == 0) else 1,
                                           cplx0=(v % 4 == 3)))
                v += 1
    scens += circuit_scenarios(rng, tier)
    nrand = 12 if tier == "quick" else 60
    nmax = 14 if tier == "quick" else 30
    for r in range(nrand):
        n = int(rng.randint(6, nmax + 1))
        A = random_connected(rng, n, rng.uniform(0.05, 0.5))
        scens.append(make_scenario(rng, "rand%d-n%d" % (r, n), A, v, nsteps=2, cplx0=(r % 4 == 3)))
        v += 1
    # networks beyond LAPACK's small-matrix SVD regime (N >= 26): a chain of 26 unit resistors and
    # random graphs
    p26 = adjacency_from_links(26, [(i, i + 1) for i in range(25)])
    sc = make_scenario(rng, "chain26-unit", p26, 0, nsteps=1, law={"type": "series", "chain": list(range(26))})
    sc["steps"][0] = {"re": p26.astype(float).tolist(), "im": None}
    sc["steps"][1] = next_step(rng, sc["adjacency"], sc["steps"][0], "scale")
    scens.append(sc)
    for r in range(3 if tier == "quick" else 24):
        n = int(rng.randint(26, 31 if tier == "quick" else 41))
        A = random_connected(rng, n, rng.uniform(0.05, 0.3))
        scens.append(make_scenario(rng, "large%d-n%d" % (r, n), A, v, nsteps=1, cplx0=(r % 6 == 5)))
        v += 1
    if tier == "thorough":
        for gi, A in enumerate(connected_graphs(6)):
            scens.append(make_scenario(rng, "g6-%d" % gi, A, v, nsteps=1 if gi % 3 == 0 else 0, cplx0=(v % 8 == 7)))
            v += 1
    return scens


# ------------------------------------------------------------------------------ main

def main():
    args = parse_args()
    rep = Report(PROP, args, SCOPE, RULE)
    try:
        import pyunicorn.core.resistive_network  # noqa: F401
    except Exception as e:      # harness cannot run
        print("cannot import pyunicorn: %r" % (e,), file=sys.stderr)
        sys.exit(3)

    if args.replay:
        with open(args.replay) as f:
            w = json.load(f)
        w = w.get("witness", w)
        rec = run_scenario(w["scenario"])
        merge(rep, rec)
        rep.finish()
        return 0

    scens = build_scenarios(args.tier, args.seed)
    nproc = min(8, max(1, mp.cpu_count()))
    chunk = 40
    chunks = [scens[i:i + chunk] for i in range(0, len(scens), chunk)]
    if nproc > 1 and len(chunks) > 1:
        with mp.Pool(nproc) as pool:
            for rec in pool.imap(run_chunk, chunks):
                merge(rep, rec)
    else:
        for c in chunks:
            merge(rep, run_chunk(c))
    rep.finish()
    return 0


if __name__ == "__main__":
    sys.exit(main())
