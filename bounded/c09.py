"""Bounded stand-in for C09 - similarity networks link exactly the pairs above the threshold.

Real code under check: pyunicorn.climate.ClimateNetwork (constructor with threshold / link_density,
non_local, directed; set_threshold, set_link_density, set_non_local; threshold(), adjacency, n_links,
link_density, similarity_measure()), CoupledClimateNetwork and the data-derived subclasses
(Tsonis, Spearman, PartialCorrelation, MutualInfo, Havlin, Hilbert, CoupledTsonis, Rainfall, EventSeries).
Oracle: specs/similarity_network.py (strict mask off the diagonal, tanh distance weight from an
independently computed great-circle distance, quantile characterisation of the density threshold).

A *case* is a JSON-able dict
  explicit:  {kind:"explicit", cls, lats, lons, S, directed, non_local, init:{threshold|link_density: x},
              ops:[["thr",t]|["ld",r]|["nl",b]...], n1 (coupled only)}
  data:      {kind:"data", cls, data:{small:true}|{times,lats,lons,X,cycle}, data2, non_local, init, ops, ...}
evaluated by `run_case`: build, check the complete state, apply every op and check the complete state
again (and monotonicity / damping against all earlier states of the same object).
"""
import hashlib
import itertools
import json
import os
import sys
import tempfile
import traceback

import numpy as np

from bounded.common import parse_args, Report, quiet
from specs import similarity_network as spec

try:
    from pyunicorn.core import GeoGrid
    from pyunicorn.climate import (ClimateNetwork, CoupledClimateNetwork, ClimateData, TsonisClimateNetwork,
                                   SpearmanClimateNetwork, PartialCorrelationClimateNetwork,
                                   MutualInfoClimateNetwork, HavlinClimateNetwork, HilbertClimateNetwork,
                                   CoupledTsonisClimateNetwork, RainfallClimateNetwork,
                                   EventSeriesClimateNetwork)
except Exception:
    traceback.print_exc()
    sys.exit(3)

DATA_CLASSES = {c.__name__: c for c in (TsonisClimateNetwork, SpearmanClimateNetwork,
                                         PartialCorrelationClimateNetwork, MutualInfoClimateNetwork,
                                         HavlinClimateNetwork, HilbertClimateNetwork, CoupledTsonisClimateNetwork,
                                         RainfallClimateNetwork, EventSeriesClimateNetwork)}
WINTER_CLASSES = ("TsonisClimateNetwork", "SpearmanClimateNetwork", "PartialCorrelationClimateNetwork",
                  "MutualInfoClimateNetwork")

_GEOM = {}


def geometry(lats, lons):
    key = (tuple(lats), tuple(lons))
    if key not in _GEOM:
        if len(_GEOM) > 64:
            _GEOM.clear()
        _GEOM[key] = spec.weight_bounds(lats, lons)
    return _GEOM[key]


class Model:
    def __init__(self, absS, lats, lons, directed, nl):
        self.absS, self.lats, self.lons, self.directed, self.nl = absS, lats, lons, directed, nl
        self.thr, self.rho = None, None
        self.sver = 0                     # version of the similarity (data-level setters replace it)


def check_state(rep, case, net, m, step, hist):
    wit = dict(case, failed_step=step)

    def fail(check, detail):
        rep.fail(check, wit, "step %s: %s" % (step, detail))

    N = m.absS.shape[0]
    A = np.asarray(net.adjacency)
    if A.shape != (N, N):
        fail("adjacency/shape", "expected %s got %s" % ((N, N), A.shape))
        return None
    A = (A != 0).astype(int)
    off = ~np.eye(N, dtype=bool)
    M = N * (N - 1)

    # -- reported parameters
    thr_rep = net.threshold()
    if m.rho is not None:
        # threshold chosen by the library: must be the rho-quantile of the off-diagonal similarities
        thr = float(thr_rep)
        isval, n_gt, n_ge, n_eq, M_ = spec.quantile_report(m.absS, thr, m.rho)
        slack = 1e-9 * M
        if not isval or not (n_gt <= m.rho * M + slack and n_ge >= m.rho * M - slack):
            fail("link_density/threshold-is-quantile",
                 "rho=%s M=%d thr=%r: is a similarity value: %s, #>thr=%d, #>=thr=%d" % (m.rho, M, thr, isval, n_gt, n_ge))
        m.thr = thr
    else:
        if float(thr_rep) != float(m.thr):
            fail("threshold/reported", "expected %r got %r" % (m.thr, thr_rep))
    thr = float(m.thr)
    if bool(net.non_local()) != bool(m.nl):
        fail("consistency/non_local-flag", "expected %s got %s" % (m.nl, net.non_local()))
    if bool(net.directed) != bool(m.directed):
        fail("consistency/directed-flag", "constructed with directed=%s, object reports %s" % (m.directed, net.directed))
    sim = np.asarray(net.similarity_measure())
    if sim.shape != (N, N) or not np.array_equal(sim.astype(np.float64), m.absS):
        fail("consistency/similarity-preserved", "similarity_measure() is not the single-precision |S| of the input")

    # -- adjacency against the definition
    plain1, plain0 = spec.decide(m.absS, thr)
    if not m.nl:
        if (A[plain1] != 1).any() or (A[plain0] != 0).any():
            bad = np.argwhere((plain1 & (A != 1)) | (plain0 & (A != 0)))[:4].tolist()
            fail("adjacency/strict-mask", "thr=%r wrong entries (i,j): %s; |S| there: %s; A there: %s" % (
                thr, bad, [m.absS[i, j] for i, j in bad], [int(A[i, j]) for i, j in bad]))
    else:
        wlo, whi, _d = geometry(m.lats, m.lons)
        lo, hi = m.absS * wlo * (1 - 1e-6), m.absS * whi * (1 + 1e-6)
        must1, must0 = spec.decide((lo + hi) / 2, thr, (hi - lo) / 2)
        if (A[must1] != 1).any() or (A[must0] != 0).any():
            bad = np.argwhere((must1 & (A != 1)) | (must0 & (A != 0)))[:4].tolist()
            fail("non_local/formula-independent-distance", "thr=%r wrong (i,j): %s damped in [%s, %s] A=%s" % (
                thr, bad, [lo[i, j] for i, j in bad], [hi[i, j] for i, j in bad], [int(A[i, j]) for i, j in bad]))
        D = np.asarray(net.grid.angular_distance(), dtype=np.float64)
        damped = m.absS * spec.weight(D)
        l1, l0 = spec.decide(damped, thr, 1e-5 * m.absS + 1e-9)
        if (A[l1] != 1).any() or (A[l0] != 0).any():
            bad = np.argwhere((l1 & (A != 1)) | (l0 & (A != 0)))[:4].tolist()
            fail("non_local/formula-library-distance", "thr=%r wrong (i,j): %s damped %s A=%s" % (
                thr, bad, [damped[i, j] for i, j in bad], [int(A[i, j]) for i, j in bad]))
        if (A[plain0] != 0).any():
            fail("non_local/damped-le-undamped", "a pair not above the threshold undamped is linked when damped")
    if np.array_equal(m.absS, m.absS.T) and not np.array_equal(A, A.T):
        fail("symmetry/inherited", "symmetric similarity but asymmetric adjacency")

    # -- mutual consistency of the reported quantities
    nnz = int(A.sum())
    sym_ok = True
    if not m.directed and not net.directed and not np.array_equal(A, A.T):
        sym_ok = False
        fail("consistency/undirected-adjacency-symmetric",
             "network is undirected but adjacency is asymmetric at %s" % np.argwhere(A != A.T)[:3].tolist())
    if sym_ok and bool(net.directed) == bool(m.directed):
        want_links = nnz if m.directed else nnz // 2
        if int(net.n_links) != want_links:
            fail("consistency/n_links", "adjacency has %d links, n_links=%s" % (want_links, net.n_links))
        try:
            ec = net.graph.ecount()
        except Exception:
            ec = want_links
        if ec != want_links:
            fail("consistency/graph-edges", "adjacency has %d links, graph has %d" % (want_links, ec))
    if abs(float(net.link_density) - nnz / M) > 1e-12:
        fail("consistency/link_density", "adjacency density %r, link_density=%r" % (nnz / M, net.link_density))
    od, idg = np.asarray(net.outdegree()).ravel(), np.asarray(net.indegree()).ravel()
    if not (np.array_equal(od, A.sum(axis=1)) and np.array_equal(idg, A.sum(axis=0))):
        fail("consistency/degree", "out/in-degree %s/%s vs adjacency sums %s/%s" % (
            od.tolist(), idg.tolist(), A.sum(axis=1).tolist(), A.sum(axis=0).tolist()))

    # -- density bound
    if m.rho is not None:
        if float(net.link_density) > m.rho + 1e-12:
            fail("link_density/realised-le-requested", "requested %r realised %r (thr %r)" % (m.rho, net.link_density, thr))
        if not m.nl:
            ties = spec.quantile_report(m.absS, thr, m.rho)[3]
            if m.rho * M - nnz > ties + 1e-9 * M:
                fail("link_density/deficit-le-ties", "requested %r*%d, got %d links, only %d pairs tied at thr=%r" % (
                    m.rho, M, nnz, ties, thr))

    # -- against earlier states of the same object (same similarity)
    for (thr0, nl0, A0, sid) in hist:
        if sid != m.sver:
            continue
        if nl0 == m.nl:
            if thr0 <= thr and (A > A0).any():
                fail("monotone/threshold", "thr %r -> %r (non_local=%s) added links" % (thr0, thr, m.nl))
            if thr <= thr0 and (A0 > A).any():
                fail("monotone/threshold", "thr %r -> %r (non_local=%s) added links" % (thr, thr0, m.nl))
        elif thr0 == thr:
            damp, plain = (A, A0) if m.nl else (A0, A)
            if (damp > plain).any():
                fail("non_local/damped-le-undamped", "thr %r: non-local network has a link the local one lacks" % thr)
    hist.append((thr, m.nl, A, m.sver))
    linked = int(A[off].sum())
    return 0 < linked < M


# ---------------------------------------------------------------------------- building objects

def make_data(d):
    if d.get("small"):
        with quiet():
            cd = ClimateData.SmallTestData()
        X = np.asarray(cd.observable(), dtype=float)
        return cd, X, 5
    grid = GeoGrid(np.array(d["times"], float), np.array(d["lats"], float), np.array(d["lons"], float), 3)
    X = np.array(d["X"], dtype=float)
    if d.get("abs"):
        X = np.abs(X)                                        # rainfall-like, non-negative
    return ClimateData(X.copy(), grid, time_cycle=int(d["cycle"]), silence_level=3), X, int(d["cycle"])


def selected_anomaly(X, cycle, winter):
    an = spec.anomalies(X, cycle)
    if not winter:
        return an
    T = X.shape[0] // cycle * cycle
    rows = [t for t in range(T) if t % cycle in (0, 1, 11)]
    return an[rows, :]


def similarity_oracle(case, Xs, cycle, winter):
    """|similarity| from the definition for the correlation-type classes, with tolerance; None if n/a."""
    cls = case["cls"]
    Y = np.concatenate([selected_anomaly(X, cycle, winter) for X in Xs], axis=1)
    if Y.shape[0] < 3:
        return None
    if cls in ("TsonisClimateNetwork", "CoupledTsonisClimateNetwork"):
        return np.abs(spec.pearson(Y)), 1e-5
    if cls == "SpearmanClimateNetwork":
        srt = np.sort(Y, axis=0)
        if Y.shape[0] > 1 and np.min(np.diff(srt, axis=0)) < 1e-9:
            return None                                      # (near-)ties: ordinal ranks are not defined
        return np.abs(spec.pearson(spec.ordinal_ranks(Y))), 1e-5
    if cls == "PartialCorrelationClimateNetwork":
        C = spec.pearson(Y)
        if not np.all(np.isfinite(C)) or np.linalg.cond(C) > 1e3:
            return None
        return np.abs(spec.partial_correlation(Y)), 1e-4
    return None


def build(case):
    """-> (net, model, refresh) ; refresh(winter) re-reads the similarity after data-level setters."""
    nl = bool(case["non_local"])
    kw = {k: v for k, v in case["init"].items()}
    if case["kind"] == "explicit":
        lats, lons = case["lats"], case["lons"]
        S = np.array(case["S"], dtype=float)
        # the same matrix in another memory layout / as a strided view (chosen by the case content: deterministic)
        lay = case.get("layout") or ("C", "F", "C", "view", "C")[int(np.abs(S).sum() * 8 + S.shape[0]) % 5]
        if lay == "F":
            S = np.asfortranarray(S)
        elif lay == "view":
            big = np.zeros((S.shape[0], 2 * S.shape[1]))
            big[:, ::2] = S
            S = big[:, ::2]
        times = np.arange(3.)
        if case["cls"] == "ClimateNetwork":
            grid = GeoGrid(times, np.array(lats, float), np.array(lons, float), 3)
            net = ClimateNetwork(grid, S, non_local=nl, directed=bool(case["directed"]), silence_level=3, **kw)
        else:
            n1 = int(case["n1"])
            g1 = GeoGrid(times, np.array(lats[:n1], float), np.array(lons[:n1], float), 3)
            g2 = GeoGrid(times, np.array(lats[n1:], float), np.array(lons[n1:], float), 3)
            net = CoupledClimateNetwork(g1, g2, S, non_local=nl, directed=bool(case["directed"]),
                                        silence_level=3, **kw)
        m = Model(spec.stored_abs(S), lats, lons, bool(case["directed"]), nl)
        return net, m, None
    cls = DATA_CLASSES[case["cls"]]
    cd, X, cycle = make_data(case["data"])
    Xs = [X]
    extra = {}
    directed = False
    if case["cls"] in WINTER_CLASSES:
        extra["winter_only"] = bool(case.get("winter_only", False))
    if case["cls"] == "HavlinClimateNetwork":
        extra["max_delay"] = int(case["max_delay"])
    if case["cls"] == "HilbertClimateNetwork":
        extra["directed"] = directed = bool(case.get("directed", False))
    if case["cls"] == "EventSeriesClimateNetwork":
        sym = case.get("symmetrization", "directed")
        directed = sym == "directed"
        assert kw == {"threshold": 0}, "EventSeriesClimateNetwork is always constructed with threshold 0"
        net = cls(cd, method="ES", taumax=3.0, threshold_method="quantile", threshold_values=0.7,
                  threshold_types="above", symmetrization=sym, non_local=nl, silence_level=3)
        lats, lons = list(cd.grid.lat_sequence()), list(cd.grid.lon_sequence())
    elif case["cls"] == "CoupledTsonisClimateNetwork":
        cd2, X2, _c2 = make_data(case["data2"])
        Xs.append(X2)
        if case.get("selected_months") is not None:
            extra["selected_months"] = case["selected_months"]
        net = cls(cd, cd2, non_local=nl, silence_level=3, **extra, **kw)
        lats = list(cd.grid.lat_sequence()) + list(cd2.grid.lat_sequence())
        lons = list(cd.grid.lon_sequence()) + list(cd2.grid.lon_sequence())
    else:
        net = cls(cd, non_local=nl, silence_level=3, **extra, **kw)
        lats, lons = list(cd.grid.lat_sequence()), list(cd.grid.lon_sequence())
    lats, lons = [float(v) for v in lats], [float(v) for v in lons]
    m = Model(spec.stored_abs(net.similarity_measure()), lats, lons, directed, nl)

    def refresh(rep, step):
        m.absS = spec.stored_abs(net.similarity_measure())
        m.sver += 1
        winter = bool(net.winter_only()) if case["cls"] in WINTER_CLASSES else (
            case.get("selected_months") == [0, 1, 11])
        orc = similarity_oracle(case, Xs, cycle, winter)
        if orc is not None:
            want, tol = orc
            if want.shape != m.absS.shape or not np.allclose(m.absS, want, rtol=0, atol=tol, equal_nan=True):
                rep.fail("subclass/similarity-oracle", dict(case, failed_step=step),
                         "step %s: |similarity| deviates from the definition by %s (tol %g)" % (
                             step, np.nanmax(np.abs(m.absS - want)) if want.shape == m.absS.shape else "shape", tol))
    return net, m, refresh


def case_key(case):
    h = hashlib.md5(json.dumps(case, sort_keys=True, default=str).encode()).digest()
    return int.from_bytes(h[:8], "big")


def run_case(rep, case, sample=False):
    nontrivial = False
    step = 0
    try:
        with quiet():
            try:
                net, m, refresh = build(case)
            except Exception as e:
                rep.fail("%s.__init__/raises" % case["cls"], case, "%s: %s" % (type(e).__name__, str(e)[:300]))
                rep.case(case_key(case), nontrivial=False)
                return
            if "threshold" in case["init"]:
                m.thr = case["init"]["threshold"]
            else:
                m.rho = float(case["init"]["link_density"])
            hist = []
            if refresh:
                refresh(rep, 0)
            if case["cls"] == "HilbertClimateNetwork" and m.directed:
                # documented extension: the phase mask removes links; only "link => above threshold" is claimed
                A = (np.asarray(net.adjacency) != 0)
                thr = float(net.threshold())
                if (A & spec.decide(m.absS, thr)[1]).any():
                    rep.fail("adjacency/link-implies-above-threshold", case, "directed Hilbert network links a pair not above thr")
                rep.case(case_key(case), nontrivial=bool(A.any()))
                if not any(op[0] == "set_directed" for op in case["ops"]):
                    return
            else:
                nontrivial |= bool(check_state(rep, case, net, m, 0, hist))
            skip_until_toggle = case["cls"] == "HilbertClimateNetwork" and m.directed
            for step, op in enumerate(case["ops"], 1):
                kind, val = op
                if skip_until_toggle and kind != "set_directed":
                    continue        # (directed Hilbert networks: the threshold / density clauses are claimed for the undirected variant)
                skip_until_toggle = False
                if kind == "thr":
                    net.set_threshold(val)
                    m.thr, m.rho = val, None
                elif kind == "thr@q":
                    offd = np.sort(m.absS[~np.eye(m.absS.shape[0], dtype=bool)])
                    val = float(offd[min(int(val * len(offd)), len(offd) - 1)])      # equals an entry: strictness
                    net.set_threshold(val)
                    m.thr, m.rho = val, None
                elif kind == "ld":
                    net.set_link_density(val)
                    m.rho = float(val)
                elif kind == "nl":
                    net.set_non_local(bool(val))
                    m.nl, m.rho = bool(val), None
                elif kind == "winter":
                    if case["cls"] == "MutualInfoClimateNetwork":
                        net.set_winter_only(bool(val), dump=False)
                    else:
                        net.set_winter_only(bool(val))
                    m.rho = None
                    refresh(rep, step)
                elif kind == "max_delay":
                    net.set_max_delay(int(val))
                    m.rho = None
                    refresh(rep, step)
                elif kind == "set_directed":
                    # Hilbert networks: switch between the directed (phase-filtered) and the undirected variant of a live
                    # network; the object must say which one it is, and be that one
                    thr_before = float(net.threshold())
                    net.set_directed(bool(val))
                    m.directed, m.rho, m.thr = bool(val), None, thr_before        # the threshold in force is kept
                    if bool(net.directed) != bool(val):
                        rep.fail("set_directed/object-reports-requested-direction", dict(case, failed_step=step),
                                 "directed=%r after set_directed(%r)" % (net.directed, val))
                        break
                    if val:
                        A = (np.asarray(net.adjacency) != 0)
                        if (A & spec.decide(m.absS, float(net.threshold()))[1]).any():
                            rep.fail("adjacency/link-implies-above-threshold", case, "directed Hilbert network links a pair not above thr")
                        if int(A.sum()) != int(net.n_links) or int(net.graph.ecount()) != int(A.sum()):
                            rep.fail("consistency/graph-edges", dict(case, failed_step=step),
                                     "directed: adjacency has %d links, n_links %d, graph %d" % (A.sum(), net.n_links, net.graph.ecount()))
                        continue
                else:
                    raise ValueError("unknown op %r" % (op,))
                nontrivial |= bool(check_state(rep, case, net, m, step, hist))
    except Exception as e:
        rep.fail("step/raises", dict(case, failed_step=step), traceback.format_exc()[-500:])
    rep.case(case_key(case), nontrivial=nontrivial,
             sample=case if sample else None)


# ------------------------------------------------------------------------------- generators

V5 = [-1.0, -0.5, 0.0, 0.5, 1.0]
GRIDS = [([0., 1., 2., 40.], [0., 1., 3., 100.]),           # two close pairs (< d_min), one far node
         ([89., 89.5, -30., -30.], [0., 180., 179., -179.])]  # across the pole / the antimeridian
DIAGS = [[1., 1., 1., 1.], [0., 0., 0., 0.], [-1., 0.5, 0., 1.]]
THRS = [-0.5, 0.0, 0.25, 0.5, 0.75, 1.0]
RHOS = [0.0, 0.1, 0.25, 1.0 / 3, 0.5, 2.0 / 3, 0.75, 0.9, 1.0]
INITS = [{"threshold": t} for t in THRS] + [{"link_density": r} for r in RHOS]
OPS8 = [["thr", 0.0], ["thr", 0.5], ["thr", 0.75], ["ld", 0.0], ["ld", 0.4], ["ld", 1.0], ["nl", True], ["nl", False]]


def sym4(k):
    S = np.zeros((4, 4))
    kk = k
    for (i, j) in itertools.combinations(range(4), 2):
        S[i, j] = S[j, i] = V5[kk % 5]
        kk //= 5
    np.fill_diagonal(S, DIAGS[k % 3])
    return S


def gen_sym4(tier, seed, lo, hi):
    """all 5^6 symmetric 4x4 matrices over V5 (diagonal and grid rotate with the index)"""
    for k in range(lo, hi):
        S = sym4(k).tolist()
        lats, lons = GRIDS[(k // 3) % 2]
        base = dict(kind="explicit", cls="ClimateNetwork", lats=lats, lons=lons, S=S)
        if tier == "quick":
            r = k + seed
            yield dict(base, directed=bool((r // 7) % 4 == 0), non_local=bool((r // 15) % 2), init=INITS[r % 15],
                       ops=[OPS8[(r // 30 + r) % 8]])
        else:
            for a, init in enumerate(INITS):
                for nl in (False, True):
                    r = k + a + seed
                    yield dict(base, directed=bool(r % 5 == 0), non_local=nl, init=init, ops=[OPS8[r % 8]])


def gen_asym3(tier, seed, lo, hi):
    """all 5^6 asymmetric 3x3 matrices over V5, directed"""
    pairs = [(i, j) for i in range(3) for j in range(3) if i != j]
    for k in range(lo, hi):
        if tier == "quick" and (k + seed) % 2:
            continue                                          # quick: every second matrix (parity by seed)
        S = np.diag(DIAGS[k % 3][:3])
        kk = k
        for (i, j) in pairs:
            S[i, j] = V5[kk % 5]
            kk //= 5
        lats, lons = GRIDS[(k // 3) % 2]
        r = k + seed
        yield dict(kind="explicit", cls="ClimateNetwork", lats=lats[:3], lons=lons[:3], S=S.tolist(), directed=True,
                   non_local=bool((r // 15) % 2), init=INITS[r % 15], ops=[OPS8[(r // 30) % 8]])


def asym4(k):
    pairs = [(i, j) for i in range(4) for j in range(4) if i != j]
    S = np.diag(DIAGS[k % 3])
    kk = k
    for n, (i, j) in enumerate(pairs):
        v = (0.0, 0.5, 1.0)[kk % 3]
        S[i, j] = -v if (n + k) % 3 == 0 else v
        kk //= 3
    return S


def gen_asym4(tier, seed, lo, hi):
    """asymmetric 4x4 matrices over |values| {0, .5, 1} with mixed signs, directed: all 3^12 (thorough) or a
    seeded sample (quick: indices lo..hi are sample numbers)"""
    rng = np.random.RandomState(seed + 77)
    idx = range(lo, hi) if tier == "thorough" else rng.randint(0, 3 ** 12, size=hi)[lo:hi]
    for k in idx:
        k = int(k)
        lats, lons = GRIDS[(k // 3) % 2]
        r = k + seed
        yield dict(kind="explicit", cls="ClimateNetwork", lats=lats, lons=lons, S=asym4(k).tolist(), directed=True,
                   non_local=bool((r // 15) % 2), init=INITS[r % 15], ops=[OPS8[(r // 30) % 8]] if r % 4 == 0 else [])


def chain_matrices(seed, n):
    rng = np.random.RandomState(seed + 11)
    out = [(sym4(3 * 5 ** 5 + 1234), False), (sym4(7777), False), (np.full((4, 4), 0.5), False),
           (np.zeros((4, 4)), False), (asym4(123456), True), (asym4(400000), True), (-sym4(15000), True)]
    while len(out) < n:
        N = int(rng.randint(3, 7))
        S = rng.randint(-4, 5, size=(N, N)) / 4.0
        directed = bool(rng.rand() < 0.4)
        if not directed:
            S = np.triu(S) + np.triu(S, 1).T
        out.append((S, directed))
    return out[:n]


def gen_chains(tier, seed, lo, hi):
    """every setter sequence of length <= 3 over OPS8, from two initial configurations, on matrix #lo..hi"""
    mats = chain_matrices(seed, hi)
    rng = np.random.RandomState(seed + 5)
    for mi in range(lo, hi):
        S, directed = mats[mi]
        N = S.shape[0]
        if N == 4:
            lats, lons = GRIDS[mi % 2]
        else:
            lats = (rng.randint(-16, 17, size=N) * 0.5).tolist()
            lons = (rng.randint(0, 33, size=N) * 0.5).tolist()
        base = dict(kind="explicit", cls="ClimateNetwork", lats=lats, lons=lons, S=S.tolist(), directed=directed)
        for init, nl in (({"threshold": 0.5}, False), ({"link_density": 0.5}, True)):
            for L in (1, 2, 3):
                for ops in itertools.product(OPS8, repeat=L):
                    yield dict(base, non_local=nl, init=init, ops=[list(o) for o in ops])


def gen_random(tier, seed, lo, hi):
    """seeded random larger matrices: continuous / quantised (ties) / few-valued, symmetric undirected or
    asymmetric directed, irregular grids with clustered nodes; threshold sweeps in both non_local modes,
    thresholds equal to entries, non-representable thresholds, densities k/M"""
    for n in range(lo, hi):
        rng = np.random.RandomState((seed * 1000003 + n * 7919 + 13) % (2 ** 31))
        N = int(rng.randint(5, 13 if tier == "quick" or n % 10 else 41))
        mode = n % 4
        if mode == 0:
            S = rng.uniform(-1, 1, size=(N, N))
        elif mode == 1:
            S = rng.randint(-8, 9, size=(N, N)) / 8.0
        elif mode == 2:
            S = rng.choice([-1.0, -0.3, 0.0, 0.3, 0.7], size=(N, N))
        else:
            S = rng.uniform(0, 5, size=(N, N))
        S = S.astype(np.float32).astype(float)
        directed = bool(rng.rand() < 0.4)
        if not directed:
            S = np.triu(S) + np.triu(S, 1).T
        # clustered irregular grid: cluster centres + small offsets (many pairs closer than d_min)
        cen = rng.randint(0, 4, size=N)
        clat, clon = rng.uniform(-85, 85, size=4), rng.uniform(0, 360, size=4)
        lats = np.clip(np.round(clat[cen] + rng.uniform(-4, 4, size=N), 2), -90, 90).tolist()
        lons = np.round(clon[cen] + rng.uniform(-4, 4, size=N), 2).tolist()
        if rng.rand() < 0.3:
            lats[1], lons[1] = lats[0], lons[0]
        absv = np.abs(S[~np.eye(N, dtype=bool)])
        M = N * (N - 1)
        sweep = sorted(set([float(v) for v in rng.choice(absv, size=3)] + [0.0, 0.3, float(np.median(absv)), 0.7]))
        kind = n % 3
        if kind == 0:
            ops = [["nl", True]] + [["thr", t] for t in sweep] + [["nl", False]] + [["thr", t] for t in sweep]
            init = {"threshold": -0.1}
        elif kind == 1:
            ks = rng.randint(0, M + 1, size=4)
            ops = [["ld", float(k) / M] for k in ks] + [["nl", True], ["ld", float(rng.rand())]]
            init = {"link_density": float(rng.rand())}
        else:
            pool = [["thr", sweep[1]], ["thr", sweep[-1]], ["ld", float(rng.rand())], ["nl", True], ["nl", False],
                    ["thr@q", float(rng.rand())], ["ld", float(rng.randint(0, M + 1)) / M]]
            ops = [pool[i] for i in rng.randint(0, len(pool), size=3)]
            init = INITS[rng.randint(len(INITS))]
        cls, n1 = "ClimateNetwork", None
        if n % 7 == 3:
            cls, n1 = "CoupledClimateNetwork", int(rng.randint(1, N))
        case = dict(kind="explicit", cls=cls, lats=lats, lons=lons, S=S.tolist(), directed=directed,
                    non_local=bool(rng.rand() < 0.4), init=init, ops=ops)
        if n1:
            case["n1"] = n1
        yield case


def synth_data(rng, T, N, cycle=12):
    t = np.arange(T)
    base = rng.randn(T, 2)
    X = (base @ rng.randn(2, N)) + 0.7 * rng.randn(T, N) + np.sin(2 * np.pi * t / cycle)[:, None] * rng.randn(N)
    lats = np.round(rng.uniform(-60, 60, size=N), 1)
    lons = np.round(rng.uniform(0, 359, size=N), 1)
    if N > 3:
        lats[1], lons[1] = lats[0] + 1.0, lons[0] + 1.0            # a close pair
    return dict(times=t.astype(float).tolist(), lats=lats.tolist(), lons=lons.tolist(), X=np.round(X, 6).tolist(),
                cycle=cycle)


def gen_data(tier, seed, lo, hi):
    rng = np.random.RandomState(seed + 3)
    datasets = [({"small": True}, False)]
    for T, N in ((41, 5), (50, 7)) if tier == "quick" else ((41, 5), (50, 7), (37, 4), (64, 9), (29, 6), (48, 8)):
        datasets.append((synth_data(rng, T, N), True))
    chains = [[], [["ld", 0.3], ["nl", True]], [["thr@q", 0.6], ["nl", True], ["ld", 0.75]],
              [["nl", True], ["thr@q", 0.3], ["nl", False]]]
    for d, monthly in datasets:
        for name in DATA_CLASSES:
            if name in ("RainfallClimateNetwork", "EventSeriesClimateNetwork"):
                if d.get("small"):
                    continue                                  # need non-negative / eventful data: synthetic only
                d_use = dict(d, abs=True)
            else:
                d_use = d
            inits = [{"link_density": 0.4}, {"link_density": 0.0}, {"link_density": 1.0},
                     {"threshold": 3.5 if name == "HavlinClimateNetwork" else 0.5}]
            for init in inits:
                for nl in (False, True):
                    for ci, ops in enumerate(chains):
                        if tier == "quick" and (ci + nl + len(str(init))) % 2:
                            continue
                        case = dict(kind="data", cls=name, data=d_use, non_local=nl, init=init,
                                    ops=[list(o) for o in ops])
                        if name == "EventSeriesClimateNetwork":
                            if "link_density" in init:
                                continue                      # constructor has no threshold / density argument
                            case["init"] = {"threshold": 0}
                            case["symmetrization"] = ("directed", "symmetric", "mean", "max")[ci]
                        if name in WINTER_CLASSES:
                            case["winter_only"] = bool(monthly and ci % 2 == 0)
                            if monthly:
                                case["ops"] = case["ops"] + [["winter", not case["winter_only"]], ["ld", 0.5]]
                        if name == "HavlinClimateNetwork":
                            case["max_delay"] = 3 if d.get("small") else 4
                            case["ops"] = case["ops"] + [["max_delay", 2], ["ld", 0.5]]
                        if name == "HilbertClimateNetwork":
                            case["directed"] = bool(ci == 3)
                            case["ops"] = case["ops"] + [["set_directed", not case["directed"]], ["set_directed", case["directed"]],
                                                         ["set_directed", not case["directed"]]]
                        if name == "CoupledTsonisClimateNetwork":
                            if d.get("small"):
                                case["data2"] = {"small": True}
                            else:
                                r2 = np.random.RandomState(seed + 99 + ci)
                                case["data2"] = synth_data(r2, len(d["times"]), 3)
                                case["selected_months"] = [0, 1, 11] if ci % 2 else None
                        yield case


GENS = {"sym4": gen_sym4, "asym3": gen_asym3, "asym4": gen_asym4, "chains": gen_chains, "random": gen_random,
        "data": gen_data}


def plan(tier):
    """[(generator, total index range, chunk size)]"""
    if tier == "quick":
        return [("data", 1, 1), ("chains", 6, 1), ("random", 400, 50), ("sym4", 5 ** 6, 1000), ("asym3", 5 ** 6, 2000),
                ("asym4", 4000, 1000)]
    return [("data", 1, 1), ("chains", 48, 1), ("random", 6000, 250), ("sym4", 5 ** 6, 125), ("asym3", 5 ** 6, 1000),
            ("asym4", 3 ** 12, 6561)]


class Args:
    pass


def run_chunk(job):
    name, tier, seed, lo, hi = job
    a = Args()
    a.tier, a.seed, a.out, a.replay = tier, seed, None, None
    rep = Report("C09", a, "", "")
    os.chdir(WORKDIR)
    first = True
    for case in GENS[name](tier, seed, lo, hi):
        run_case(rep, case, sample=first and lo == 0)
        first = False
    return dict(ev=rep.evaluations, nt=list(rep.nontrivial), samples=rep.samples[:2], failures=rep.failures,
                by_check=rep.by_check, nfail=rep.nfail, skipped=rep.skipped)


def merge(rep, r):
    rep.evaluations += r["ev"]
    rep.nontrivial.update(r["nt"])
    for s in r["samples"]:
        if len(rep.samples) < 8:
            rep.samples.append(s)
    for f in r["failures"]:
        c = sum(1 for g in rep.failures if g["check"] == f["check"])
        if c < 3 and len(rep.failures) < rep.MAX_FAIL:
            rep.failures.append(f)
    for k, v in r["by_check"].items():
        rep.by_check[k] = rep.by_check.get(k, 0) + v
    rep.nfail += r["nfail"]
    for s in r["skipped"]:
        rep.skip(s)


WORKDIR = None


def main():
    try:
        _main()
    finally:
        if WORKDIR:
            import shutil
            os.chdir("/")
            shutil.rmtree(WORKDIR, ignore_errors=True)


def _main():
    global WORKDIR
    args = parse_args()
    if args.out:
        args.out = os.path.abspath(args.out)
    if args.replay:
        args.replay = os.path.abspath(args.replay)
    # MutualInfoClimateNetwork looks for a cache file in the current directory: use an empty one
    WORKDIR = tempfile.mkdtemp(prefix="c09_")
    os.chdir(WORKDIR)
    scope = ("ClimateNetwork from explicit similarity matrices on small GeoGrids: all 5^6 symmetric 4x4 matrices over "
             "{-1,-1/2,0,1/2,1} (3 diagonals, 2 grids incl. pole/antimeridian; thresholds {-1/2,0,1/4,1/2,3/4,1}, "
             "densities {0,.1,.25,1/3,.5,2/3,.75,.9,1}, non_local on/off; thorough: every combination, quick: rotating), "
             "all 5^6 asymmetric 3x3 matrices (directed; quick: every second), asymmetric 4x4 over |v| in {0,1/2,1} with mixed signs "
             "(directed; all 3^12 in thorough, 4000 sampled in quick), every setter sequence of length <=3 over "
             "{set_threshold 0,.5,.75; set_link_density 0,.4,1; set_non_local T,F} from two initial configurations on "
             "6 (quick) / 48 (thorough) matrices with ties, negative and asymmetric entries, seeded random matrices "
             "N<=12 (some <=40 in thorough) on clustered irregular grids with threshold sweeps, thresholds equal to "
             "entries and densities k/M, CoupledClimateNetwork, and Tsonis/Spearman/PartialCorrelation/MutualInfo/"
             "Havlin/Hilbert/CoupledTsonis/Rainfall/EventSeries networks on ClimateData.SmallTestData() and synthetic "
             "monthly data (Rainfall/EventSeries on non-negative synthetic data only) "
             "(threshold and link_density construction, setter chains, set_winter_only / set_max_delay).  "
             "Undirected networks are only built from symmetric explicit matrices.  Comparisons are exact for "
             "thresholds representable in single precision (otherwise pairs within the threshold's single-precision "
             "rounding error are undecided); non_local: independent float64 great-circle distance with cos known "
             "to 4e-6 (float32 kernel) -> pairs whose damped similarity interval contains the threshold are "
             "undecided; against the library's own distance matrix the band is 1e-5*|S|; similarity oracles 1e-5 "
             "(Pearson/Spearman, float32 storage), 1e-4 (partial correlation, cond < 1e3).")
    rule = ("One evaluation = one case (network + setter list), all clauses checked after construction and after every "
            "setter, plus monotonicity/damping against all earlier states of the object.  Distinct by full case "
            "content; non-trivial if at some step the network has at least one link and at least one unlinked pair "
            "(the threshold discriminates).")
    rep = Report("C09", args, scope, rule)
    if args.replay:
        with open(args.replay) as f:
            wit = json.load(f)["witness"]
        wit.pop("failed_step", None)
        run_case(rep, wit, sample=True)
        rep.finish()
        return
    jobs = []
    only = os.environ.get("C09_ONLY")                       # development aid: restrict to one generator
    for name, total, chunk in plan(args.tier):
        if only and name != only:
            continue
        for lo in range(0, total, chunk):
            jobs.append((name, args.tier, args.seed, lo, min(total, lo + chunk)))
    import multiprocessing as mp
    nproc = min(8, os.cpu_count() or 1)
    # exhaustive families last and interleaved, so that a wall-clock cut-off hits them evenly
    head = [j for j in jobs if j[0] in ("data", "chains", "random")]
    tail = [j for j in jobs if j[0] not in ("data", "chains", "random")]
    tail.sort(key=lambda j: (j[3] / float(j[4] - j[3]), j[0]))
    limit = 55 if args.tier == "quick" else 570
    done = 0
    with mp.get_context("fork").Pool(nproc) as pool:
        for r in pool.imap_unordered(run_chunk, head + tail):
            merge(rep, r)
            done += 1
            if rep.elapsed() > limit and done < len(jobs):
                rep.skip("wall-clock budget (%d s) reached: %d of %d work chunks not evaluated" % (
                    limit, len(jobs) - done, len(jobs)))
                pool.terminate()
                break
    rep.finish()


if __name__ == "__main__":
    main()
