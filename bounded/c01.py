"""C01 - results always reflect the object's current state (cache coherence).

Bounded stand-in: for every class that derives from `Cached` (see specs/stateful_registry.py)
build a small instance, enumerate histories of public mutators, call *every* public query
(discovered by introspection; all `@Cached.method` wrappers plus the uncached measures that
read them, plus the summary attributes N, n_links, link_density, total_node_weight,
mean_node_weight; argument patterns chosen by parameter name incl. link-attribute key "w" and
typical_weight=2.0) before and after every mutator, and after the last mutator compare every
query result

  fresh-twin      with a fresh object constructed from the harness' model of the *current
                  primary inputs* (never touched by a mutator, so it cannot hold a stale value),
  cache-cleared   with the same object re-queried after `Cached.cache_clear()`.

Oracle = the property text ("equals what a newly constructed object given the same current
inputs reports"); no measure is re-implemented and the cache is never inspected.

check names:  "<Class>.<last mutator>/fresh-twin", "<Class>.<last mutator>/cache-cleared",
              "<Class>.__init__/fresh-twin" (empty history), "<Class>.<mutator>/mutator-raises",
              and the quarantined one-step probes listed in the registry under their own names
              (they are also spelled out at the end of the report's `scope`).

History families (specs/stateful_histories.py) for Surrogates and RecurrencePlot: the alphabet
consists of concrete calls, so a call is repeated with equal arguments, with other arguments and
interleaved with other state changes (Surrogates: normalize_original_data, embedding assignment,
twin_surrogates(dim, delay, threshold, min_dist) x3, twins(threshold, min_dist) x2,
original_distribution [+ test_threshold_significance in thorough]; RecurrencePlot in three
variants (two-level / supremum, periodic / euclidean / dim 2, walk / manhattan / dim 3):
set_fixed_threshold x2, set_fixed_recurrence_rate x2, set_fixed_local_recurrence_rate, embedding
assignment x2 [+ threshold_std, adaptive neighbourhood size in thorough]).  A step that returns a
value is compared with the same call on a fresh object built from the model of the inputs before
the step; after every step (mode "every") or only after the last one (mode "final": nothing but
the steps themselves fills the caches) every derived quantity (Surrogates: original_data,
embedding, twins x3, recurrence_plot of the embedding x2, original_data_fft, the four seeded
surrogate generators; RecurrencePlot: embedding and every discovered public query incl. R,
recurrence_rate, determinism, diagline_dist, twins, twin_surrogates) is compared with a fresh
object built from the current model (NumPy row normalisation / delay embedding; the model never
reads the object under test).  No cache_clear() in these histories.  Data have mean / spread far
from (0, 1); two-level and periodic series so that twins exist.
check names:  "<Class>.<method of the last executed step>/history-twin",
              "<Class>.<method>/history-step-raises", "<Class>.__init__/history-twin"

Details: the population sweeps (before / between mutators) call all cached queries and all
queries cheaper than 1.5 ms in a fixed order; the final sweep calls every query in an order
that depends on the history, so that state kept outside the cache cannot be refreshed by a
"lucky" predecessor; fresh-twin results are memoised per model state.  VERIF_SPECS=<names>
restricts the classes (development aid).
"""
import itertools
import json
import multiprocessing as mp
import os

for _v in ("OMP_NUM_THREADS", "OPENBLAS_NUM_THREADS", "MKL_NUM_THREADS"):
    os.environ.setdefault(_v, "1")
import shutil
import sys
import tempfile
import time
import traceback
import zlib

import numpy as np

sys.path.insert(0, os.path.dirname(os.path.dirname(os.path.abspath(__file__))))
from bounded.common import parse_args, Report, jsonable           # noqa: E402
from specs import stateful as S                                      # noqa: E402
from specs import stateful_registry as REG                           # noqa: E402
from specs import stateful_histories as HIST                         # noqa: E402

WORKERS = 8
SLOW_MS = 1.5       # uncached queries slower than this are evaluated in the final sweeps only

#: specs whose alphabet is enumerated to the full depth of the tier; the others (variants and
#: the data-derived ClimateNetwork subclasses, which share all Network/ClimateNetwork code with
#: the primary ones) are enumerated one level less and sampled at the deeper levels
PRIMARY = {"Network/undirected", "GeoNetwork", "ClimateNetwork", "TsonisClimateNetwork", "ResNetwork",
           "RecurrencePlot", "RecurrenceNetwork", "JointRecurrencePlot", "JointRecurrenceNetwork",
           "CrossRecurrencePlot", "ClimateData", "Data", "Surrogates", "Grid", "GeoGrid", "EventSeries",
           "InterSystemRecurrenceNetwork", "VisibilityGraph", "SpatialNetwork",
           "InteractingNetworks/undirected", "Network/directed"}


#: cheap specs (tens of fast queries): enumerated one level deeper than the tier default
LIGHT = {"RecurrencePlot", "RecurrencePlot/euclidean-embedded", "RecurrencePlot/missing-values",
         "RecurrencePlot/sparse-rqa",
         "CrossRecurrencePlot", "JointRecurrencePlot", "JointRecurrencePlot/lag", "ClimateData", "Data",
         "Surrogates", "Grid", "GeoGrid", "EventSeries"}
#: in the thorough tier these are enumerated exhaustively to length 4 as well (alphabet <= 6)
DEEP = {"Network/undirected", "Network/directed", "JointRecurrenceNetwork", "ResNetwork",
        "InterSystemRecurrenceNetwork"}


def plan(spec, tier, seed):
    """-> list of histories (tuples of mutator names)"""
    names = [m.name for m in spec.mutators]
    primary = spec.name in PRIMARY
    if spec.name in LIGHT:
        full, samples = (3, {}) if tier == "quick" else (4, {5: 40})
    elif tier == "quick":
        full, samples = (2, {3: 18}) if primary else (1, {2: 30, 3: 8})
    elif spec.name in DEEP and len(names) <= 6:
        full, samples = 4, {}
    else:
        full, samples = (3, {4: 200}) if primary else (2, {3: 200, 4: 60})
    hist = [()]
    for L in range(1, full + 1):
        hist += list(itertools.product(names, repeat=L))
    rng = np.random.RandomState(seed * 7919 + sum(map(ord, spec.name)))
    if names and full < 3:
        # A, B, A: a mutator is repeated after another one ran in between (what a hand-made "unchanged since my last
        # call" shortcut inside a mutator gets wrong); all ordered pairs for small alphabets, a seeded sample otherwise
        aba = [(a, b, a) for a in names for b in names if a != b]
        cap = 30 if tier == "quick" else 200
        if len(aba) > cap:
            idx = sorted(rng.choice(len(aba), size=cap, replace=False).tolist())
            aba = [aba[i] for i in idx]
        hist += aba
    if names:
        for L, n in samples.items():
            total = len(names) ** L
            if total <= n:
                hist += list(itertools.product(names, repeat=L))
            else:
                seen = set()
                while len(seen) < n:
                    seen.add(tuple(names[i] for i in rng.randint(len(names), size=L)))
                hist += sorted(seen)
    return hist


# --------------------------------------------------------------------------- per-spec engine

class Engine:
    def __init__(self, spec):
        self.spec = spec
        self.mut = {m.name: m for m in spec.mutators}
        self.twin_memo = {}
        self.dropped = []
        self.prepare()

    def prepare(self):
        spec = self.spec
        run = spec.start()
        qs, skipped = S.discover(run.obj, spec.ctx(run), exclude=tuple(spec.exclude) + tuple(spec.exclude_c01))
        qs += list(spec.extra_queries)
        self.skipped_methods = skipped
        #  determinism probe: same query on three fresh objects, in different call orders
        r1, tms = [], []
        for q in qs:
            S.call(run.obj, q)
            t = time.perf_counter()
            r1.append(S.call(run.obj, q))
            tms.append((time.perf_counter() - t) * 1e3)
        run2 = spec.start()
        r2 = {q.label: S.call(run2.obj, q) for q in reversed(qs)}
        tw = spec.twin(spec.start())
        r3 = {q.label: S.call(tw, q) for q in qs}
        keep, pop = [], []
        for q, a, t in zip(qs, r1, tms):
            if S.deep_diff(a, r2[q.label]) or S.deep_diff(a, r3[q.label]):
                self.dropped.append(q.label)
                continue
            keep.append(q)
            if q.cached or q.kind == "attr" or t < SLOW_MS:
                pop.append(q)
        self.qs, self.pop = keep, pop

    def sweep(self, obj, qs):
        return [S.call(obj, q) for q in qs]

    def twin_results(self, run):
        key = run.state_key()
        if key not in self.twin_memo:
            t = self.spec.twin(run)
            self.twin_memo[key] = self.sweep(t, self.qs)
            if len(self.twin_memo) > 400:
                self.twin_memo.pop(next(iter(self.twin_memo)))
        return self.twin_memo[key]

    def run_history(self, hist, out, quarantine=None):
        """Run one history; append failures / counts to out."""
        spec = self.spec
        run = spec.start()
        try:
            run.obj.cache_clear()
        except Exception:                                           # noqa
            pass
        counts, params = {}, []
        before = self.sweep(run.obj, self.pop)
        steps = list(hist)
        for i, name in enumerate(steps):
            mut = quarantine if (quarantine is not None and i == len(steps) - 1) else self.mut[name]
            k = counts.get(name, 0)
            counts[name] = k + 1
            try:
                params.append(mut.fn(run, k))
            except Exception as e:                                  # noqa
                out["fail"].append((self.check(hist, "mutator-raises", quarantine),
                                    self.witness(hist, params, None, quarantine),
                                    f"{name} raised {type(e).__name__}: {e}"))
                return
            if i < len(steps) - 1:
                before = self.sweep(run.obj, self.pop)
        #  the final sweep runs in a history-dependent pseudo-random order: state shared between
        #  queries outside the cache (e.g. stored effective resistances) must not be refreshed
        #  by a fixed "lucky" predecessor
        order = np.random.RandomState(zlib.crc32(">".join(hist).encode()) ^ (spec.seed * 2654435761 % 2 ** 32)).permutation(len(self.qs))
        got = [None] * len(self.qs)
        for j in order:
            got[j] = S.call(run.obj, self.qs[j])
        pop_idx = {q.label: j for j, q in enumerate(self.qs)}
        nontrivial = (not steps) or any(
            S.deep_diff(b, got[pop_idx[q.label]]) for q, b in zip(self.pop, before))
        try:
            ref = self.twin_results(run)
        except Exception as e:                                      # noqa
            out["skip"].append(f"{spec.name}: twin construction failed for {list(hist)}: "
                               f"{type(e).__name__}: {e}")
            return
        nbad = 0
        for q, a, b in zip(self.qs, got, ref):
            out["eval"] += 1
            m = S.deep_diff(a, b)
            if m:
                nbad += 1
                if nbad <= 3:
                    out["fail"].append((self.check(hist, "fresh-twin", quarantine),
                                        self.witness(hist, params, q, quarantine),
                                        f"{q.label}: object {a.brief()} | fresh twin {b.brief()} | {m}"))
                else:
                    out["fail"].append((self.check(hist, "fresh-twin", quarantine), None, ""))
        try:
            run.obj.cache_clear()
        except Exception:                                           # noqa
            pass
        #  (the slow uncached measures are recomputed on every call anyway; the cached ones and
        #  everything cheap is re-evaluated on the emptied cache)
        again = self.sweep(run.obj, self.pop)
        nbad = 0
        for q, a, b in zip(self.pop, [got[pop_idx[q.label]] for q in self.pop], again):
            out["eval"] += 1
            m = S.deep_diff(a, b)
            if m:
                nbad += 1
                if nbad <= 3:
                    out["fail"].append((self.check(hist, "cache-cleared", quarantine),
                                        self.witness(hist, params, q, quarantine),
                                        f"{q.label}: cached {a.brief()} | after cache_clear() {b.brief()} | {m}"))
                else:
                    out["fail"].append((self.check(hist, "cache-cleared", quarantine), None, ""))
        out["cases"].append((f"{spec.name}:{'>'.join(hist)}", bool(nontrivial)))
        if len(out["samples"]) < 2 and steps:
            out["samples"].append({"spec": spec.name, "history": list(hist), "queries": len(self.qs),
                                   "changed_by_last_mutator": bool(nontrivial)})

    def check(self, hist, clause, quarantine):
        if quarantine is not None:
            return quarantine.check if clause == "fresh-twin" else \
                quarantine.check.rsplit("/", 1)[0] + "/" + clause
        last = hist[-1] if hist else "__init__"
        return f"{self.spec.clsname}.{last}/{clause}"

    def witness(self, hist, params, q, quarantine=None):
        return {"spec": self.spec.name, "seed": self.spec.seed, "history": list(hist),
                "quarantine": None if quarantine is None else quarantine.check,
                "query": None if q is None else q.label,
                "params": [jsonable({k: (v if not isinstance(v, np.ndarray) or v.size <= 64 else f"array{v.shape}")
                                     for k, v in (p or {}).items()}) for p in params]}


_ENGINES = {}


def engine_for(name, seed):
    key = (name, seed)
    if key not in _ENGINES:
        _ENGINES[key] = Engine(REG.spec_by_name(name, seed))
    return _ENGINES[key]


def work_family(task):
    """histories of one Surrogates / RecurrencePlot family (specs/stateful_histories.py)"""
    _, name, seed, tier, runs = task
    out = {"eval": 0, "fail": [], "skip": [], "cases": [], "samples": [], "name": name, "t": 0.0}
    t0 = time.process_time()
    try:
        with S.Silence():
            key = ("family", name, seed, tier)
            if key not in _ENGINES:
                _ENGINES[key] = HIST.family_by_name(name, seed, tier)
            fam = _ENGINES[key]
            for hist, mode in runs:
                fam.run_history(tuple(hist), mode, out)
    except Exception as e:                                          # noqa
        out["skip"].append(f"{name}: HARNESS ERROR {type(e).__name__}: {e} :: "
                           + traceback.format_exc()[-600:])
    out["t"] = time.process_time() - t0
    return out


def family_tasks(tier, seed):
    only = [x for x in os.environ.get("VERIF_SPECS", "").split(",") if x]
    tasks = []
    for c in HIST.FAMILIES:
        if only and not any(c.name == o or c.name.startswith(o) for o in only):
            continue
        with S.Silence():
            fam = c(seed, tier)
        runs = [((), "every")]
        for h in fam.plan():
            if h:
                runs += [(h, "every"), (h, "final")] if len(h) > 1 else [(h, "every")]
        nchunk = max(1, min(16, len(runs) // 150))
        for k in range(nchunk):
            tasks.append(("family", c.name, seed, tier, runs[k::nchunk]))
    return tasks


def work_copies(task):
    """Two objects, one made from the other by copy(): a public state change of either one never changes what the other
    reports (each keeps answering for ITS current inputs) - link attributes, node weights and adjacency of the original
    are changed after the copy was taken and queried, then the other way round."""
    _, seed = task
    out = {"eval": 0, "fail": [], "skip": [], "cases": [], "samples": [], "name": "copy-independence", "t": 0.0}
    t0 = time.process_time()
    try:
        import numpy as np
        from pyunicorn.core import Network
        with S.Silence():
            rng = np.random.RandomState(4242 + seed)
            for directed in (False, True):
                for rep_ in range(3):
                    n = 6 + rep_
                    A = (rng.random_sample((n, n)) < 0.45).astype(int)
                    np.fill_diagonal(A, 0)
                    if not directed:
                        A = np.triu(A, 1); A = A + A.T                      # noqa: E702
                    if not A.any():
                        continue
                    W1 = rng.uniform(0.5, 3.0, (n, n)); W2 = rng.uniform(0.5, 3.0, (n, n))     # noqa: E702
                    if not directed:
                        W1 = np.triu(W1, 1) + np.triu(W1, 1).T; W2 = np.triu(W2, 1) + np.triu(W2, 1).T      # noqa: E702
                    w1, w2 = rng.uniform(0.5, 2.0, n), rng.uniform(0.5, 2.0, n)
                    wit = {"directed": directed, "A": A.tolist(), "seed": seed}

                    def fresh(Wm, wv):
                        t = Network(adjacency=A.copy(), directed=directed, node_weights=wv.copy(), silence_level=SL_)
                        t.set_link_attribute("w", Wm.copy())
                        return t

                    def obs(x):
                        return [np.asarray(x.link_attribute("w"), dtype=float), np.asarray(x.degree("w"), dtype=float),
                                np.asarray(x.path_lengths("w"), dtype=float), np.asarray(x.nsi_degree(), dtype=float),
                                float(x.total_node_weight), int(x.n_links)]

                    def same(a, b):
                        return all(np.allclose(u, v, rtol=1e-9, atol=1e-12, equal_nan=True) for u, v in zip(a, b))
                    net = fresh(W1, w1)
                    cp = net.copy()
                    if "w" not in (cp.graph.es.attributes() if hasattr(cp.graph.es, "attributes") else []):
                        cp.set_link_attribute("w", W1.copy())       # (copy() documents adjacency / weights; give it the attribute)
                    for first, second, label in ((net, cp, "original-changed"), (cp, net, "copy-changed")):
                        ref_second = obs(second)
                        first.set_link_attribute("w", W2.copy())
                        first.node_weights = w2.copy()
                        out["eval"] += 1
                        if not same(obs(second), ref_second):
                            out["fail"].append(("Network.copy/independent-after-" + label, wit,
                                                "a link-attribute / node-weight change of one object changed what the other reports"))
                        if not same(obs(first), obs(fresh(W2, w2))):
                            out["fail"].append(("Network.copy/changed-object-follows-" + label, wit,
                                                "the changed object does not report what a new network with its inputs reports"))
                        first.set_link_attribute("w", W1.copy())
                        first.node_weights = w1.copy()
                    out["cases"].append(("copy:%s:%d" % (directed, n), True))
    except Exception as e:                                          # noqa
        out["skip"].append(f"copy-independence: HARNESS ERROR {type(e).__name__}: {e} :: " + traceback.format_exc()[-600:])
    out["t"] = time.process_time() - t0
    return out


SL_ = 3


def work(task):
    if task[0] == "family":
        return work_family(task)
    if task[0] == "copies":
        return work_copies(task)
    name, seed, hists, quarantine_idx = task
    out = {"eval": 0, "fail": [], "skip": [], "cases": [], "samples": [], "name": name, "t": 0.0}
    t0 = time.process_time()
    try:
        with S.Silence():
            eng = engine_for(name, seed)
            if quarantine_idx is not None:
                for qi in quarantine_idx:
                    qm = eng.spec.quarantine[qi]
                    eng.run_history((qm.name,), out, quarantine=qm)
            for h in hists:
                eng.run_history(tuple(h), out)
        if eng.dropped:
            out["skip"].append(f"{name}: not compared (differs between fresh objects / call orders, "
                               f"i.e. not a deterministic function of the state): {sorted(set(eng.dropped))}")
        if eng.skipped_methods:
            out["skip"].append(f"{name}: methods without an argument pattern: {eng.skipped_methods}")
    except Exception as e:                                          # noqa
        out["skip"].append(f"{name}: HARNESS ERROR {type(e).__name__}: {e} :: "
                           + traceback.format_exc()[-600:])
    out["t"] = time.process_time() - t0
    return out


def main():
    args = parse_args()
    if args.out:
        args.out = os.path.abspath(args.out)
    replay = None
    if args.replay:
        with open(args.replay) as f:
            replay = json.load(f)
        replay = replay.get("witness", replay)
    scope = ("classes: Network (un/directed), InteractingNetworks, SpatialNetwork, GeoNetwork, ResNetwork, "
             "VisibilityGraph, ClimateNetwork, Tsonis/Spearman/PartialCorrelation/MutualInfo/Havlin/Hilbert/"
             "Rainfall/CoupledTsonis/EventSeries climate networks, ClimateData, Data, Grid, GeoGrid, "
             "RecurrencePlot (+euclidean/embedded, +missing values in thorough), Cross/JointRecurrencePlot, "
             "Recurrence/JointRecurrence/InterSystemRecurrence networks, Surrogates, EventSeries; 5-14 nodes "
             "/ samples.  Mutator alphabets per class in specs/stateful_registry.py (adjacency setter, "
             "set_edge_list, node_weights setter, set/del_link_attribute, randomly_rewire, "
             "set_node_weight_type, update_resistances, set_threshold/set_link_density/set_non_local/"
             "set_winter_only/set_max_delay, set_window/set_global_window, set_fixed_threshold/_std/"
             "recurrence_rate/local_recurrence_rate/adaptive_neighborhood_size, embedding / x_embedded / "
             "y_embedded setters, normalize_original_data).  Histories: quick = all of length <=2 "
             "(<=1 for variant / data-derived climate classes) + seeded samples of length 3 (and 2); thorough "
             "= all of length <=3 (<=2 for those classes) + seeded samples of length 4 (and 3).  All public "
             "queries (100-260 labelled call patterns for network classes) are evaluated before and after "
             "every mutator.  Tolerance: exact for integers, rtol 1e-9 (float64) / 1e-5 (float32 results).  "
             "History families with concrete calls (equal and different arguments repeated; value-returning "
             "steps compared with the same call on a fresh object; all derived quantities compared after every "
             "step and, in a second run, only after the last step): Surrogates (3 series x 48 samples: two-level, "
             "periodic, noisy; offsets 16 / 7 / -5, spreads 4 / 2.1 / 1.8; alphabet of 9 calls, 10 in thorough) "
             "and RecurrencePlot in 3 variants (24 samples; alphabet of 7 calls, 9 in thorough): quick = all "
             "histories of length <=3 + 60 of length 4, thorough = all of length <=4 + 300 / 100 of length 5 / 6.")
    rule = ("case = (class, history); after the last mutator every query is compared with a fresh twin "
            "built from the current primary inputs and with the object after cache_clear(); evaluations "
            "counts query comparisons; a case is non-trivial when the last mutator changed at least one "
            "query result of the object (so a stale value would be visible); RNG is re-seeded before "
            "every query call, queries that differ between two fresh objects are listed in `skipped`; "
            "history families: case = (family, history, mode), non-trivial when the last step changed the "
            "model of the primary inputs or returned a value")
    probes = []
    for c in REG.ALL_SPECS:
        if c.harness not in (None, "C01"):
            continue
        for m in c(args.seed).quarantine:
            probes.append(f"{m.check} [{c.name}: {m.why}]")
    scope += ("  One-step probes kept out of the alphabets because they break coherence on their own "
              "(each under its own check name): " + "; ".join(probes))
    rep = Report("C01", args, scope, rule)
    workdir = tempfile.mkdtemp(prefix="c01_")
    os.chdir(workdir)
    try:
        tasks = []
        if replay is not None and "family" in replay:
            tasks.append(("family", replay["family"], replay.get("seed", args.seed),
                          replay.get("tier", args.tier), [(replay["history"], replay.get("mode", "every"))]))
        elif replay is not None:
            spec = REG.spec_by_name(replay["spec"], replay.get("seed", args.seed))
            qidx = None
            hist = [replay["history"]]
            if replay.get("quarantine"):
                base = replay["quarantine"].rsplit("/", 1)[0]
                qidx = [i for i, m in enumerate(spec.quarantine) if m.check.rsplit("/", 1)[0] == base]
                hist = []
            tasks.append((replay["spec"], replay.get("seed", args.seed), hist, qidx))
        else:
            for spec in REG.specs_for(args.tier, args.seed, "C01"):
                hists = plan(spec, args.tier, args.seed)
                nchunk = max(1, min(12, len(hists) // 40))
                for c in range(nchunk):
                    part = hists[c::nchunk]
                    qidx = list(range(len(spec.quarantine))) if (c == 0 and spec.quarantine) else None
                    tasks.append((spec.name, args.seed, part, qidx))
            tasks += family_tasks(args.tier, args.seed)
            tasks.append(("copies", args.seed))
            tasks.sort(key=lambda t: -(len(t[4]) // 3 if t[0] == "family" else 1 if t[0] == "copies" else len(t[2])))
        if len(tasks) == 1:
            results = [work(tasks[0])]
        else:
            with mp.get_context("fork").Pool(WORKERS) as pool:
                results = pool.map(work, tasks, chunksize=1)
        for out in results:
            rep.evaluations += out["eval"]
            for key, nt in out["cases"]:
                if nt:
                    rep.nontrivial.add(key)
            for smp in out["samples"]:
                if len(rep.samples) < 8:
                    rep.samples.append(smp)
            for check, wit, detail in out["fail"]:
                if wit is None:
                    rep.nfail += 1
                    rep.by_check[check] = rep.by_check.get(check, 0) + 1
                else:
                    rep.fail(check, wit, detail)
            for s in out["skip"]:
                rep.skip(s)
        if os.environ.get("C01_TIMING"):
            agg = {}
            for out in results:
                agg[out["name"]] = agg.get(out["name"], 0) + out["t"]
            sys.stderr.write(json.dumps({k: round(v, 1) for k, v in sorted(agg.items(), key=lambda kv: -kv[1])},
                                        indent=0) + "\n")
    finally:
        os.chdir("/")
        shutil.rmtree(workdir, ignore_errors=True)
    rep.finish()
    return 0


if __name__ == "__main__":
    try:
        sys.exit(main())
    except SystemExit:
        raise
    except Exception:                                               # noqa
        traceback.print_exc()
        sys.exit(3)
