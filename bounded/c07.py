"""Bounded stand-in for C07: recurrence matrices are exactly the thresholded distance matrices.

Run:  cd /verif && PYTHONPATH=/verif .venv/bin/python bounded/c07.py --tier quick --seed 0 --out /tmp/c07.json

Oracle: specs/recurrence_spec.py - state vectors by the embedding definition, distances by the
metric definition in float64, strict `<` thresholding, missing states never recurrent, joint /
inter-system matrices by their index formulas.  All inputs handed to the library are exactly
representable in float32 (the library stores series as float32), so the oracle's states are the
library's states and no precision semantics is demanded.

Rate-based variants are held to what the docstrings state:
  recurrence_rate        R = [D < q] with q the floor(rate*(n-1))-th smallest of the n distances
                         (diagonal included; index taken exactly or in double arithmetic), hence
                         achieved rate <= requested rate;
  local_recurrence_rate  row i thresholded at the same quantile of row i; "all state vectors have
                         the same number of recurrences" is asserted whenever no row has tied
                         distances (with ties no thresholding can achieve it);
  adaptive               symmetric R, every state has >= min(k, N-1) recurrences other than itself.
With missing states (NaN samples) the rate-based variants are required to (a) never mark a missing
state (missing_values=True), (b) be a thresholding of the remaining pairs and (c) select the stated
quantile position floor(rate*(len-1)) of the distances, where - the docstrings do not say which
sequence is meant once some pairs have no distance - every reading is admitted: the distances of the
complete pairs only, all entries with the missing pairs last, or the entries of the object's own
distance_matrix() (NaN last or dropped); see rate_admissible().  Without missing_values=True, and for
the classes that have no such option (cross, joint, inter-system), NaN samples get no special
treatment by the documentation: only the pairs of complete states are judged, plus 'a pair whose
distance the object itself reports as NaN is never recurrent' (NaN is below no threshold).

normalize=True ("normalize the time series to zero mean and unit standard deviation", per
component): the library's stored series must be (x - mean)/std per column within 1e-5 (float32
arithmetic; population or sample std are both accepted, a constant column only has to stay
constant), its embedding the delay embedding of that series; the thresholding clauses are then
evaluated exactly on the states the object holds (so no precision semantics is demanded).  For the
joint classes the documented per-series tuple of flags is held to its meaning: a series whose flag
is False keeps its values.
User-assigned embedding (`obj.embedding = Y`, Y e.g. from RecurrencePlot.legendre_coordinates): a
following set_* call must give the thresholding of the distances of the rows of Y, with N = len(Y)
and no stale cached distance matrix.  The values of legendre_coordinates themselves (derivative
estimates) are outside the property text and are not judged.
"""
import itertools
import json
import math
import sys

import numpy as np

from bounded.common import parse_args, Report
from bounded.c08 import rqa_clauses, run_all, n_workers
from specs import recurrence_spec as S

PROP = "C07"
ALPH = (0.0, 3.0, 4.0)          # differences 0,1,3,4; euclidean ties 3-4-5; all exact in float32
F32 = lambda v: float(np.float32(v))                      # noqa: E731
ALPH_W = (0.0, F32(0.7), F32(0.1))
GUARD = 1e-12                   # inexact (random) data: cells with |d-thr| <= GUARD*max(1,|thr|) are free
GUARD_STD = 1e-5                # threshold_std: the library takes the std of the float32 series

SINGLE_NODE = ("recurrence networks with fewer than two nodes: core Network.__init__ divides by N*(N-1) "
               "(ZeroDivisionError for any one-node Network) - a limitation of the core class, not judged here")

SETTER = {"threshold": "set_fixed_threshold", "threshold_std": "set_fixed_threshold_std",
          "recurrence_rate": "set_fixed_recurrence_rate",
          "local_recurrence_rate": "set_fixed_local_recurrence_rate",
          "adaptive_neighborhood_size": "set_adaptive_neighborhood_size"}

SCOPE = (
    "RecurrencePlot, RecurrenceNetwork, CrossRecurrencePlot, JointRecurrencePlot, "
    "JointRecurrenceNetwork, InterSystemRecurrenceNetwork built through constructor and through "
    "the set_* methods of a live object.  Exhaustive: every scalar series of length 1..5 over "
    "{0,3,4} x embeddings (none,(1,1),(2,1),(2,2),(3,1),(3,2)) x 3 metrics x [every distinct "
    "distance as threshold (strictness) + one above the maximum, threshold_std .5/1/2, "
    "recurrence_rate and local_recurrence_rate 0/.25/.3/.5/1, adaptive sizes 1,2,N-1,N+1]; "
    "2-d series of length 1..3 (thorough: 4) over {0,3,4}^2; series over {0,3,4,NaN} of length "
    "1..5 with missing_values=True; {0,f32(.7),f32(.1)} series with thresholds .7/.1/.6; cross "
    "plots for all x,y of length 1..3 (thorough: 4), unequal lengths included; joint plots for "
    "all pairs of length 1..3 (+ seeded samples of length 4,5) with every lag in -(N-1)..N-1, "
    "mixed metrics and unequal embeddings; inter-system networks on a seeded sample of all "
    "pairs of length 1..4; recurrence networks (all series of length 1..4, thorough 5) and joint "
    "recurrence networks.  Random (quick 24 / thorough 150 per class group): seeded float32 "
    "series of length 6..40, dimension 1..3, embeddings, lags of both signs.  Network classes "
    "are only built with >= 2 nodes.  "
    "Equalities are exact for the exhaustive part; for random data cells within 1e-12 "
    "(relative) of the threshold are not judged, for threshold_std within 1e-5 (float32 std).  "
    "Every RQA method is called on each RecurrencePlot-derived object and compared with the "
    "direct count on its recurrence_matrix() (see C08); for CrossRecurrencePlot the documented "
    "NotImplementedError of the line distributions is required.  "
    "normalize=True (checks '<Class>@normalize/...' and '<Class>/normalize/...'): all six classes; "
    "scalar series of length 1..4 (thorough 5) over {0,3,4} x embeddings none/(2,1)/(3,1)/(2,2) x "
    "metrics, 2-d series of length 1..2 (3), cross plots for pairs of length 1..3, joint plots / "
    "networks for all pairs of length 1..3 with every lag and the flags True, (True,True) and - "
    "length <= 2 - (False,False), (True,False), (False,True), inter-system networks on seeded pairs, "
    "plus seeded float32 series of length 6..40 (1..3 components, offsets and scales != 0,1); the "
    "stored series must be (x-mean)/std per component within 1e-5 (population or sample std; "
    "constant components only stay constant), thresholding is then judged exactly on the stored "
    "states; RecurrencePlot.normalize_time_series also directly on float64 (1e-9) / float32 (1e-5) "
    "arrays.  User-assigned embeddings (checks '<Class>@assigned-embedding/...'): RecurrencePlot / "
    "RecurrenceNetwork objects built from a 4-point series, cached distance matrices and RQA "
    "evaluated, then obj.embedding = Y and every set_* variant: Y = all arrays over {0,3,4} with "
    "1..5 rows x 1 column and 1..3 rows x 2 columns (quick: a quarter of the >= 5-entry ones), and "
    "Y = RecurrencePlot.legendre_coordinates(x, dim 1..4, p / tau_w given / estimated, regular and "
    "irregular t) of seeded series of length 8..40 (the values of legendre_coordinates are not "
    "judged).  Rejections (checks '<Class>/rejects/...'): 6 (thorough 30) seeded integer series of "
    "length 3..8: every class without any threshold / rate argument, joint plots / networks of series "
    "of different lengths (either one shorter) or with |lag| > length, inter-system networks of a 1-d and a 2-d series must "
    "raise instead of constructing an object.  Sampling helpers (checks bootstrap_distance_matrix/... "
    "and threshold_from_recurrence_rate_fast/...): 12 (60) seeded float32 series of length 4..43 (1-3 "
    "components or embedded) x metric: every one of M in {1,7,200} bootstrap samples is the distance of "
    "two of the given states under the stated metric (1e-12 relative); the fast rate threshold for "
    "rate in {0,0.3,0.77,1} with rr_precision in {0.5,1,2} and for rate 0.5 with the default precision "
    "is an entry of the distance matrix (the random numbers are not referred to).  "
    "set_adaptive_neighborhood_size(k, order=...) (checks RecurrencePlot/adaptive_neighborhood_size[order]/"
    "...): every processing order (all permutations for 2..4 states, 3 random + the reversed order for "
    "10 (40) seeded series of 5..34 points, given as int32 / int64 array) yields a binary "
    "symmetric matrix with at least min(k, N-1) neighbours per state.  "
    "Missing samples x metric x threshold-selection variant (checks '<Class>/<variant>/missing/...', "
    "'<Class>/<variant>/missing-never-recurrent'): a tie-free integer series of 8 points with NaN at the "
    "start / inside / at the end / several (7 patterns) x embeddings none,(2,1),(3,2) (thorough +(2,3)) x "
    "3 metrics x missing_values False/True, a 2-d series of 6 points with one component or a whole sample "
    "missing (5 patterns), all series over {0,3,4,NaN} of length 2..4 (thorough 5) without missing_values, "
    "12 (80) seeded float32 series of 10..30 points with 1..4 NaN; RecurrencePlot and RecurrenceNetwork with "
    "threshold (attained and intermediate values), threshold_std, recurrence_rate 0/.2/.5/.8/1, "
    "local_recurrence_rate 0/.3/.6/1, adaptive sizes 1,2,#complete-1, each through the constructor and "
    "through set_* of a live object; CrossRecurrencePlot (unequal lengths, NaN in x / y / both), "
    "JointRecurrencePlot / JointRecurrenceNetwork (lags -2,0,1, mixed metrics, unequal embeddings) and "
    "InterSystemRecurrenceNetwork (constructor and set_* of a live network) with threshold and "
    "recurrence_rate, plus 9 (60) seeded float32 pairs.  Clauses: with missing_values=True no state with a "
    "NaN component is recurrent with anything (all variants, adaptive included); complete pairs are "
    "thresholded strictly at the given threshold; rate variants: complete pairs = [D < q] for q at position "
    "floor(rate*(len-1)) of (A) the distances of the complete pairs, (B) all entries with the missing pairs "
    "last, (C)/(D) the entries of the object's own distance_matrix() with NaN last / dropped - any of them; "
    "if the position of (B)/(C) lies among the missing pairs also the largest distance or +inf (then judged "
    "only with missing_values=True: checks '.../missing/(row-)quantile-position-among-missing-pairs'); local "
    "rate with missing_values=True: all complete states have the same number of recurrences when no row of "
    "complete distances is tied; adaptive with missing_values=True: every complete state has >= min(k, "
    "#complete-1) neighbours; a cell whose distance the object's own distance_matrix() reports as NaN is "
    "never recurrent (all classes, with or without missing_values; adaptive excepted).  NOT judged (the "
    "property text and docstrings give no semantics): rows / columns of states with NaN when "
    "missing_values=True is not given or not available (the supremum kernel skips NaN components and so "
    "reports finite 'distances' for them, the diagonal is never computed), threshold_std on series with NaN "
    "beyond 'R is a thresholding of the complete pairs', neighbour counts of the adaptive variant without "
    "missing_values=True."
)
RULE = (
    "one evaluation = one contract clause group on one constructed object (sizes, embedding, "
    "distance matrix, the variant's thresholding clause, network adjacency, RQA applicability).  "
    "A case is keyed by (class, series, embedding, metric, lag, missing flag, variant); "
    "non-trivial = the resulting matrix has order >= 2 and contains both recurrent and "
    "non-recurrent off-diagonal pairs."
)


def _imports():
    from pyunicorn.timeseries import (RecurrencePlot, CrossRecurrencePlot, JointRecurrencePlot,
                                      InterSystemRecurrenceNetwork, RecurrenceNetwork,
                                      JointRecurrenceNetwork)
    return {c.__name__: c for c in (RecurrencePlot, CrossRecurrencePlot, JointRecurrencePlot,
                                    InterSystemRecurrenceNetwork, RecurrenceNetwork,
                                    JointRecurrenceNetwork)}


# ------------------------------------------------------------------ oracle helpers

def states_of(x, dim, tau):
    x = np.array(x, dtype=np.float64)
    return S.embed(x, dim, tau) if dim else S.as_states(x)


def thr_with_free(D, thr, tol):
    """(R, free): R = [D < thr]; free marks cells too close to the threshold to be judged."""
    R = S.threshold_matrix(D, thr)
    if tol and not math.isnan(thr):
        free = (np.abs(D - thr) <= tol * max(1.0, abs(thr))).astype(np.int8)
    else:
        free = np.zeros(D.shape, dtype=np.int8)
    return R, free


def mat_equal(got, want, free=None):
    got = np.asarray(got)
    if got.shape != want.shape:
        return False
    diff = got.astype(np.int64) != want.astype(np.int64)
    if free is not None:
        diff &= (free == 0)
    return not diff.any()


def pstd(x):
    v = [float(t) for t in np.asarray(x, dtype=float).ravel()]
    m = math.fsum(v) / len(v)
    return math.sqrt(math.fsum((t - m) ** 2 for t in v) / len(v))


def rate_candidates(D, rate):
    flat = sorted(float(v) for v in np.asarray(D, dtype=float).ravel())
    return [flat[k] for k in S.quantile_indices(rate, len(flat))]


def is_binary(R):
    R = np.asarray(R)
    return R.dtype.kind in "iub" and bool(((R == 0) | (R == 1)).all())


def nontrivial(R):
    R = np.asarray(R)
    if R.ndim != 2 or min(R.shape) < 2:
        return False
    if R.shape[0] == R.shape[1]:
        off = R[~np.eye(R.shape[0], dtype=bool)]
    else:
        off = R.ravel()
    return bool(off.any() and not off.all())


def consistent_thresholding(R, D, ok_pairs):
    """Among the judged pairs R must be *a* thresholding of D: max over recurrent < min over non-recurrent."""
    rec = [D[i, j] for (i, j) in ok_pairs if R[i, j]]
    non = [D[i, j] for (i, j) in ok_pairs if not R[i, j]]
    return (not rec) or (not non) or max(rec) < min(non)


# ------------------------------------------------------------------ missing samples: admissible rate quantiles

INF = float("inf")
BEYOND = ("recurrence_rate / local_recurrence_rate on data with NaN where position floor(rate*(n-1)) of the n "
          "matrix entries lies beyond the distances of the complete pairs, for objects without "
          "missing_values=True (no documented semantics): not judged")


def pair_mask(missa, missb):
    """1 where the row state or the column state holds a missing value."""
    return np.array([[1 if (a or b) else 0 for b in missb] for a in missa],
                    dtype=np.int8).reshape(len(missa), len(missb))


def finite_at(Dl, mask):
    """The finite values the library's own distance matrix holds at the masked (missing) pairs; they
    are no distances (the supremum kernel skips NaN components, the diagonal is never computed)."""
    Dl = np.asarray(Dl, dtype=float)
    return [float(v) for v in Dl[np.asarray(mask) == 1].ravel() if math.isfinite(v)]


def rate_admissible(fin, extra, n, rate):
    """Thresholds a fixed-rate construction may select when some of the n entries belong to pairs with
    a missing state.  `fin`: ascending distances of the complete pairs.  The property fixes 'the stated
    quantile of the distances' = position floor(rate*(len-1)); with missing pairs the docstrings do not
    say which sequence is meant, so every reading is admitted:
      (A) the distances that exist (complete pairs only);
      (B) all n entries, pairs without a distance placed last;
      (C) all n entries as the object's own distance_matrix() holds them (`extra` = its finite values
          at missing pairs), NaN last;
      (D) the finite entries of the object's own distance_matrix().
    Returns (thresholds, beyond): beyond = the position of (C) falls among the NaN entries; then (as
    for (B) beyond the finite part) the largest distance and +inf are admitted as well."""
    nf = len(fin)
    cands = set()
    beyond = beyond_b = False
    for k in (S.quantile_indices(rate, nf) if nf else ()):
        cands.add(fin[k])
    hyb = sorted(list(fin) + list(extra))
    for k in (S.quantile_indices(rate, len(hyb)) if hyb else ()):
        cands.add(hyb[k])
    for k in S.quantile_indices(rate, n):
        if k < nf:
            cands.add(fin[k])
        else:
            beyond_b = True
        if k < len(hyb):
            cands.add(hyb[k])
        else:
            beyond = True
    if (beyond or beyond_b) and nf:
        cands.update((fin[-1], INF))
    return sorted(cands), beyond


def nan_distance_recurrent(R, Dl):
    """Cells marked recurrent although the object's own distance matrix holds NaN there (NaN is below
    no threshold, whatever the treatment of missing values); diagonal cells excluded for square R."""
    R, Dl = np.asarray(R), np.asarray(Dl, dtype=float)
    if R.shape != Dl.shape:
        return []
    return [(int(i), int(j)) for i, j in zip(*np.nonzero(np.isnan(Dl) & (R != 0)))]


def matches_some_threshold(R, D, cands, tol, free0):
    """R == [D < q] off the cells marked in free0 for some q of cands."""
    for q in cands:
        want, free = thr_with_free(D, q, 0.0 if math.isinf(q) else tol)
        if mat_equal(R, want, np.maximum(free, free0)):
            return True
    return False


# ------------------------------------------------------------------ normalisation / assigned embeddings

NTOL = 1e-5      # float32 arithmetic of normalize_time_series


def norm_reference(x2):
    """x2 (n, d) float64 -> ([cand_ddof0, cand_ddof1], constant-column flags); definition
    (x - mean) / std per column with exactly rounded sums."""
    n, d = x2.shape
    cands = [np.zeros((n, d)), np.zeros((n, d))]
    const = []
    for c in range(d):
        col = [float(v) for v in x2[:, c]]
        m = math.fsum(col) / n
        dev = [v - m for v in col]
        ss = math.fsum(v * v for v in dev)
        const.append(all(v == col[0] for v in col))
        for ddof in (0, 1):
            if const[-1] or n - ddof <= 0:
                cands[ddof][:, c] = 0.0
            else:
                sd = math.sqrt(ss / (n - ddof))
                cands[ddof][:, c] = [v / sd for v in dev]
    return cands, const


def normalized_series_ok(x2, lib, tol=None):
    """Oracle series for the library's normalised series `lib`, or None.  Constant columns (unit
    std unattainable) only have to stay constant and are taken over from the library."""
    tol = NTOL if tol is None else tol
    lib = np.asarray(lib, dtype=np.float64)
    if lib.shape != x2.shape or not np.isfinite(lib).all():
        return None
    cands, const = norm_reference(x2)
    out = np.empty_like(x2)
    for c in range(x2.shape[1]):
        if const[c]:
            if lib.shape[0] and float(lib[:, c].max() - lib[:, c].min()) > tol:
                return None
            out[:, c] = lib[:, c]
            continue
        for cand in cands:
            if np.all(np.abs(lib[:, c] - cand[:, c]) <= tol * np.maximum(1.0, np.abs(cand[:, c]))):
                out[:, c] = cand[:, c]
                break
        else:
            return None
    return out


def states_close(E, want):
    E = np.asarray(E, dtype=np.float64)
    return E.shape == want.shape and bool(np.all(np.abs(E - want) <= NTOL * np.maximum(1.0, np.abs(want))))


def oracle_embed(series2, dim, tau):
    return S.embed(series2[:, 0], dim, tau) if dim else series2


def resolve_normalized(rep, cname, wit, x, lib_series, lib_states, dim, tau, flag=True, prune=None):
    """The states a normalize=... construction must hold, checked against the definition; returns
    the library's states as float64 (the thresholding clauses are then exact) or None."""
    x2 = np.asarray(x, dtype=np.float64).reshape(len(x), -1)
    lib_series = np.asarray(lib_series, dtype=np.float64)
    if flag:
        ref = normalized_series_ok(x2, lib_series)
        if ref is None:
            rep.fail(f"{cname}/normalize/zero-mean-unit-std-per-component", wit,
                     f"series {x2.tolist()} stored as {lib_series.tolist()}; want "
                     f"{norm_reference(x2)[0][0].tolist()} (population std; sample std also accepted)")
            return None
    else:
        ref = x2
        if lib_series.shape != x2.shape or not np.array_equal(lib_series, x2):
            rep.fail(f"{cname}/normalize/per-series-flag", wit,
                     f"flag False: series {x2.tolist()} stored as {lib_series.tolist()}")
            return None
    want = oracle_embed(ref, dim, tau)
    if prune is not None:
        want = want[:prune]
    if not states_close(lib_states, want):
        rep.fail(f"{cname}/normalize/embedding-of-normalized-series", wit,
                 f"got {np.asarray(lib_states).tolist()} want {want.tolist()}")
        return None
    return np.array(lib_states, dtype=np.float64)


def assigned_embedding(C, x, spec):
    """The array a user assigns to obj.embedding: explicit rows or legendre_coordinates(x)."""
    if "Y" in spec:
        return np.array(spec["Y"], dtype=np.float64).reshape(len(spec["Y"]), -1)
    from bounded.common import quiet
    t = None if spec.get("t") is None else np.array(spec["t"], dtype=np.float64)
    with quiet():
        Y = C["RecurrencePlot"].legendre_coordinates(np.array(x, dtype=np.float64), dim=spec["dim"],
                                                     t=t, p=spec.get("p"), tau_w=spec.get("tau_w", "est"))
    return np.array(Y, dtype=np.float64)


# ------------------------------------------------------------------ variant lists

def pick_thresholds(D, cap=7):
    vals = sorted({float(v) for v in np.asarray(D).ravel() if not math.isnan(v)})
    if len(vals) > cap:
        idx = sorted({0, 1, 2, len(vals) // 2, len(vals) - 2, len(vals) - 1})
        vals = [vals[i] for i in idx]
    top = (vals[-1] if vals else 0.0) + 1.0
    return vals + [top]


RATES = (0.0, 0.25, 0.3, 0.5, 1.0)


def mid_thresholds(D, cap=5):
    """Thresholds strictly between distinct distances (gap > 1e-3), the smallest distance itself is
    left out; plus one above the maximum.  Used where the states are only known to ~1e-5."""
    vals = sorted({round(float(v), 6) for v in np.asarray(D).ravel() if not math.isnan(v)})
    mids = [(a + b) / 2.0 for a, b in zip(vals, vals[1:]) if b - a > 1e-3]
    if len(mids) > cap:
        idx = sorted({0, 1, len(mids) // 2, len(mids) - 2, len(mids) - 1})
        mids = [mids[i] for i in idx]
    return mids + [(vals[-1] if vals else 0.0) + 1.0]


def rp_variants(D, N, scalar, anymiss, rich=True, thresholds=None):
    out = [["threshold", t] for t in (pick_thresholds(D) if thresholds is None else thresholds)]
    if scalar and not anymiss:
        out += [["threshold_std", v] for v in ((0.5, 1.0, 2.0) if rich else (1.0,))]
    out += [["recurrence_rate", r] for r in (RATES if rich else (0.3, 1.0))]
    out += [["local_recurrence_rate", r] for r in (RATES if rich else (0.5,))]
    if not anymiss:
        out += [["adaptive_neighborhood_size", k] for k in sorted({1, 2, max(N - 1, 1), N + 1})]
    res = []
    for v in out:
        res.append(v + ["ctor"])
    nthr = sum(1 for v in out if v[0] == "threshold")
    # the live object first receives the all-recurrent matrix (largest threshold), then the rest
    for v in [out[nthr - 1]] + list(reversed(out[:nthr - 1] + out[nthr:])):
        res.append(v + ["setter"])
    return res


def few_thresholds(D):
    """Second smallest and median distance (strictness at an attained value), a value between two
    distances, one above the maximum - of the finite distances."""
    vals = sorted({float(v) for v in np.asarray(D, dtype=float).ravel() if math.isfinite(v)})
    if not vals:
        return [1.0]
    out = [vals[min(1, len(vals) - 1)], vals[len(vals) // 2]]
    if len(vals) >= 3:
        out.append((vals[-2] + vals[-1]) / 2.0)
    out.append(vals[-1] + 1.0)
    return sorted(set(out))


def missing_variants(D, ncomplete, scalar, rich=True):
    """Every threshold-selection variant of RecurrencePlot / RecurrenceNetwork for a series with
    missing samples, through the constructor and through set_* of a live object."""
    out = [["threshold", t] for t in few_thresholds(D)]
    if scalar:
        out += [["threshold_std", 1.0]]
    out += [["recurrence_rate", r] for r in ((0.0, 0.2, 0.5, 0.8, 1.0) if rich else (0.2, 0.6, 1.0))]
    out += [["local_recurrence_rate", r] for r in ((0.0, 0.3, 0.6, 1.0) if rich else (0.3, 0.8))]
    out += [["adaptive_neighborhood_size", k]
            for k in (sorted({1, 2, max(ncomplete - 1, 1)}) if rich else sorted({1, min(3, max(ncomplete - 1, 1))}))]
    nthr = sum(1 for v in out if v[0] == "threshold")
    return [v + ["ctor"] for v in out] + \
           [v + ["setter"] for v in [out[nthr - 1]] + list(reversed(out[:nthr - 1] + out[nthr:]))]


# ------------------------------------------------------------------ RecurrencePlot / RecurrenceNetwork

def run_rp(rep, C, w):
    cname = w["cls"]
    cls = C[cname]
    x = np.array(w["x"], dtype=np.float64)
    dim, tau = w.get("dim"), w.get("tau")
    metric = w["metric"]
    mv = bool(w.get("missing_values", False))
    exact = bool(w.get("exact", True))
    tol = 0.0 if exact else GUARD
    kw = dict(metric=metric, silence_level=3, missing_values=mv)
    if dim:
        kw.update(dim=dim, tau=tau)
    states = states_of(x, dim, tau)
    std_series = x
    assign = w.get("assign")
    if cname == "RecurrenceNetwork" and len(states) - (sum(S.is_missing(states)) if mv else 0) < 2:
        rep.skip(SINGLE_NODE)
        return
    if w.get("normalize"):
        # states = what the object holds, after checking them against the definition of normalize
        kw["normalize"] = True
        rep.case()
        try:
            probe = cls(x, **kw, threshold=0.123)
        except Exception as e:                                   # noqa: BLE001
            rep.fail(f"{cname}/normalize/constructible", w, f"{type(e).__name__}: {e}")
            return
        states = resolve_normalized(rep, cname, w, x, probe.time_series, probe.embedding, dim, tau)
        if states is None:
            return
        std_series = np.asarray(probe.time_series, dtype=np.float64)
    if assign:
        states = assigned_embedding(C, x, assign)
        if states.ndim != 2 or not len(states) or not np.isfinite(states).all():
            rep.skip("legendre_coordinates returned a non-finite or empty array: case not used")
            return
        if cname == "RecurrenceNetwork" and len(states) < 2:
            rep.skip(SINGLE_NODE)
            return
    lab = cname + ("@assigned-embedding" if assign else "@normalize" if w.get("normalize") else "")
    N = len(states)
    miss = S.is_missing(states)
    anymiss = any(miss)
    scalar = x.ndim == 1
    D = S.distance_matrix(states, states, metric)
    okpairs = [(i, j) for i in range(N) for j in range(N) if not (miss[i] or miss[j])]
    missmask = pair_mask(miss, miss)
    comp = [i for i in range(N) if not miss[i]]
    rqa_every = int(w.get("rqa_every", 1))
    shared = None
    prev = None
    first = True
    variants = w.get("variants")
    if variants is None:         # assigned embedding: thresholds chosen from its own distances
        variants = [v for v in rp_variants(D, N, False, anymiss, rich=True,
                                           thresholds=pick_thresholds(D) if exact else mid_thresholds(D))
                    if v[2] == "setter"]
    for vi, (kind, value, via) in enumerate(variants):
        wit = dict(w, variants=([prev] if (via == "setter" and prev) else []) + [[kind, value, via]])
        P = f"{lab}/{kind}"
        try:
            if via == "ctor":
                obj = cls(x, **kw, **{kind: value})
            else:
                if shared is None:
                    shared = cls(x, **kw, threshold=0.123)
                    shared.diagline_dist(); shared.vertline_dist(); shared.recurrence_rate()  # noqa: E702
                    if assign:
                        for m in S.METRICS:          # cached distances of the old embedding
                            shared.distance_matrix(m)
                        shared.embedding = np.array(states)
                getattr(shared, SETTER[kind])(value)
                obj = shared
                prev = [kind, value, via]
        except Exception as e:                                   # noqa: BLE001
            rep.fail(f"{P}/constructible", wit, f"{type(e).__name__}: {e}")
            rep.case()
            continue
        R = obj.recurrence_matrix()
        # -- sizes / representation
        rep.case()
        if R is None or np.asarray(R).shape != (N, N):
            rep.fail(f"{lab}/matrix-order", wit, f"R shape {None if R is None else R.shape}, states {N}")
            continue
        if not is_binary(R):
            rep.fail(f"{lab}/matrix-binary", wit, f"dtype {R.dtype}, values {np.unique(R).tolist()}")
            continue
        if first:
            first = False
            rep.case()
            E = np.asarray(obj.embedding)
            if E.shape != states.shape or not np.array_equal(E, states, equal_nan=True):
                rep.fail(f"{lab}/embedding", wit, f"got {E.tolist()} want {states.tolist()}")
            for m in S.METRICS if w.get("all_metrics", True) else (metric,):
                Dl = np.asarray(obj.distance_matrix(m))
                Dm = D if m == metric else S.distance_matrix(states, states, m)
                bad = Dl.shape != (N, N)
                if not bad:
                    for (i, j) in okpairs:
                        a, b = Dl[i, j], Dm[i, j]
                        if (a != b) if exact else (abs(a - b) > 1e-12 * max(1.0, abs(b))):
                            bad = True
                            break
                if bad:
                    rep.fail(f"{lab}/distance_matrix", dict(wit, distance_metric=m),
                             f"{m}: got {Dl.tolist()} want {Dm.tolist()}")
        # -- the variant's clause
        rep.case()
        missrec = []
        if mv and anymiss:
            missrec = bad = [i for i in range(N) if miss[i] and (R[i, :].any() or R[:, i].any())]
            if bad:
                rep.fail(f"{P}/missing-never-recurrent", wit, f"missing states {bad} recurrent: {R.tolist()}")
        if anymiss and kind != "adaptive_neighborhood_size":
            bad = nan_distance_recurrent(R, obj.distance_matrix(metric))
            if bad:
                rep.fail(f"{P}/missing/nan-distance-never-recurrent", wit, f"cells {bad[:6]} recurrent: {R.tolist()}")
        if kind == "threshold":
            want, free = thr_with_free(D, value, tol)
            if anymiss and not mv:
                # no missing_values=True: cells of a state with NaN are not judged
                if not mat_equal(R, want, np.maximum(free, missmask)):
                    rep.fail(f"{P}/missing/strict-below-threshold", wit,
                             f"complete pairs: got {R.tolist()} want {want.tolist()}")
            elif not mat_equal(R, want, free):
                rep.fail(f"{P}/strict-below-threshold", wit, f"got {R.tolist()} want {want.tolist()}")
        elif kind == "threshold_std" and anymiss:
            # the standard deviation of a series with NaN samples is not defined by the docstrings
            if not consistent_thresholding(R, D, okpairs):
                rep.fail(f"{P}/missing/is-a-thresholding", wit, f"got {R.tolist()} D {D.tolist()}")
        elif kind == "threshold_std":
            thr = value * pstd(std_series)
            want, free = thr_with_free(D, thr, GUARD_STD)
            if not mat_equal(R, want, free):
                rep.fail(f"{P}/strict-below-std-threshold", wit, f"thr {thr}: got {R.tolist()} want {want.tolist()}")
        elif kind == "recurrence_rate":
            if anymiss:
                if not consistent_thresholding(R, D, okpairs):
                    rep.fail(f"{P}/is-a-thresholding", wit, f"got {R.tolist()} D {D.tolist()}")
                if comp:
                    Dl = np.asarray(obj.distance_matrix(metric), dtype=float)
                    fin = sorted(float(D[i, j]) for (i, j) in okpairs)
                    cands, beyond = rate_admissible(fin, finite_at(Dl, missmask), N * N, value)
                    if beyond and not mv:
                        rep.skip(BEYOND)
                    elif not matches_some_threshold(R, D, cands, tol, missmask):
                        rep.fail(f"{P}/missing/" + ("quantile-position-among-missing-pairs" if beyond else "stated-quantile"),
                                 wit, f"complete pairs: got {R.tolist()}; admissible [D<q], q in {cands}; D {D.tolist()}")
            else:
                cands = rate_candidates(D, value)
                if not any(mat_equal(R, *thr_with_free(D, q, tol)) for q in cands):
                    rep.fail(f"{P}/stated-quantile", wit,
                             f"got {R.tolist()} want [D<{cands}] = {S.threshold_matrix(D, cands[0]).tolist()}")
                if N and R.sum() / float(N * N) > value + 1e-15:
                    rep.fail(f"{P}/rate-not-exceeded", wit, f"achieved {R.sum()/(N*N)} requested {value}")
        elif kind == "local_recurrence_rate":
            tiefree = True
            Dl = np.asarray(obj.distance_matrix(metric), dtype=float) if (anymiss and comp) else None
            rowbad = None
            for i in range(N):
                if miss[i]:
                    continue
                row = D[i:i + 1, :]
                if anymiss:
                    pairs = [(0, j) for j in range(N) if not miss[j]]
                    if not consistent_thresholding(R[i:i + 1, :], row, pairs):
                        rep.fail(f"{P}/row-is-a-thresholding", wit, f"row {i}: got {R[i].tolist()} D {row.tolist()}")
                        break
                    fin = sorted(float(D[i, j]) for j in comp)
                    if len(set(fin)) < len(fin):
                        tiefree = False
                    cands, beyond = rate_admissible(fin, finite_at(Dl[i:i + 1, :], missmask[i:i + 1, :]), N, value)
                    if beyond and not mv:
                        rep.skip(BEYOND)
                    elif rowbad is None and not matches_some_threshold(R[i:i + 1, :], row, cands, tol, missmask[i:i + 1, :]):
                        rowbad = (f"{P}/missing/" + ("row-quantile-position-among-missing-pairs" if beyond else "row-quantile"),
                                  f"row {i}, complete columns: got {R[i].tolist()}; admissible [D<q], q in {cands}; D {row.tolist()}")
                    continue
                cands = rate_candidates(row, value)
                if not any(mat_equal(R[i:i + 1, :], *thr_with_free(row, q, tol)) for q in cands):
                    rep.fail(f"{P}/row-quantile", wit, f"row {i}: got {R[i].tolist()} want [D<{cands}] D {row.tolist()}")
                    break
                if len(set(row.ravel().tolist())) < N:
                    tiefree = False
            if rowbad:
                rep.fail(rowbad[0], wit, rowbad[1])
            if tiefree and not anymiss and N:
                sums = R.sum(axis=1).tolist()
                if len(set(sums)) > 1:
                    rep.fail(f"{P}/same-number-of-recurrences", wit, f"row sums {sums}")
            if tiefree and anymiss and mv and len(comp) > 1:
                sums = [int(sum(int(R[i, j]) for j in comp)) for i in comp]
                if len(set(sums)) > 1:
                    rep.fail(f"{P}/missing/same-number-of-recurrences", wit,
                             f"recurrences of the complete states {comp}: {sums}; R {R.tolist()}")
        elif kind == "adaptive_neighborhood_size":
            if not (np.asarray(R) == np.asarray(R).T).all():
                rep.fail(f"{P}/symmetric", wit, f"got {R.tolist()}")
            nb = (R.sum(axis=1) - np.diag(R)).tolist()
            if anymiss and not mv:
                pass        # NaN samples without missing_values=True: the states are ordinary ones to the
                #             algorithm, their 'distances' depend on the kernel; neighbour counts not judged
            elif anymiss:
                # a complete state has at most len(comp)-1 admissible neighbours; judged once no
                # missing state is marked recurrent (clause above)
                need = min(int(value), len(comp) - 1)
                if not missrec and any(nb[i] < need for i in comp):
                    rep.fail(f"{P}/missing/at-least-k-neighbours", wit,
                             f"neighbours {nb} (complete states {comp}) < {need}: {R.tolist()}")
            else:
                need = min(int(value), N - 1)
                if any(v < need for v in nb):
                    rep.fail(f"{P}/at-least-k-neighbours", wit, f"neighbours {nb} < {need}: {R.tolist()}")
        key = (cname, repr(w["x"]), dim, tau, metric, mv, kind, value,
               bool(w.get("normalize")), repr(assign) if assign else None)
        rep.case(repr(key), nontrivial=nontrivial(R),
                 sample={"cls": cname, "x": w["x"], "dim": dim, "tau": tau, "metric": metric,
                         kind: value, "R": np.asarray(R).tolist()})
        # -- network view
        isnet = cname == "RecurrenceNetwork"
        if isnet:
            rep.case()
            A = np.asarray(obj.adjacency)
            want = S.without_diagonal(R)
            if mv and anymiss and via == "ctor":
                keep = [i for i in range(N) if not miss[i]]
                want = want[np.ix_(keep, keep)]
            if A.shape != want.shape or (A != want).any():
                tag = "missing/" if (mv and anymiss) else ""
                rep.fail(f"{lab}/{tag}{via}/adjacency-is-R-without-diagonal", wit, f"adjacency {A.tolist()} R {R.tolist()}")
            wantdir = kind == "local_recurrence_rate"
            if bool(obj.directed) != wantdir:
                rep.fail(f"{lab}/{via}/directed-flag", wit, f"directed={obj.directed} for {kind}")
            if int(obj.N) != np.asarray(obj.adjacency).shape[0]:
                rep.fail(f"{lab}/{via}/N-equals-adjacency-order", wit, f"N={obj.N}")
        # -- every quantification method applicable and consistent with the matrix held
        if vi % rqa_every == 0:
            rep.case()
            if isnet and mv and anymiss and int(obj.N) != N:
                rep.fail(f"{lab}/missing/rqa-size-consistent-with-R", wit,
                         f"N={obj.N} but recurrence_matrix() is {N}x{N}; recurrence_rate()={obj.recurrence_rate()} "
                         f"R.mean()={np.asarray(R).mean()}")
            else:
                for clause, ok, detail in rqa_clauses(obj, R, miss if mv else None,
                                                      lmins=[2] if vi else sorted({1, 2, max(N, 1)}),
                                                      resample=(vi == 0)):
                    if not ok:
                        rep.fail(f"{lab}/rqa/{clause}", wit, detail)


# ------------------------------------------------------------------ CrossRecurrencePlot

CRP_NOTIMPL = ["diagline_dist", "vertline_dist", "white_vertline_dist", "max_diaglength",
               "determinism", "average_diaglength", "diag_entropy", "max_vertlength", "laminarity",
               "average_vertlength", "trapping_time", "vert_entropy", "max_white_vertlength",
               "average_white_vertlength", "mean_recurrence_time", "white_vert_entropy",
               "rqa_summary"]


def check_crp_object(rep, obj, wit, P, Dxy, kind, value, tol, Nx, Ny, lab="CrossRecurrencePlot", missmask=None,
                     metric=None):
    """missmask (series with NaN samples; the class has no missing_values option): cells of a state
    with a missing value are not judged, the rate quantile is any of rate_admissible()."""
    CR = obj.recurrence_matrix()
    if CR is None or np.asarray(CR).shape != (Nx, Ny) or int(obj.N) != Nx or int(obj.M) != Ny:
        rep.fail(f"{lab}/sizes", wit, f"CR {None if CR is None else CR.shape} N={obj.N} M={obj.M} want {(Nx, Ny)}")
        return None
    if not is_binary(CR):
        rep.fail(f"{lab}/matrix-binary", wit, f"{CR.dtype}")
        return None
    if missmask is not None:
        bad = nan_distance_recurrent(CR, obj.distance_matrix(metric))
        if bad:
            rep.fail(f"{P}/missing/nan-distance-never-recurrent", wit, f"cells {bad[:6]} recurrent: {CR.tolist()}")
    if kind == "threshold":
        want, free = thr_with_free(Dxy, value, tol)
        if missmask is not None:
            if not mat_equal(CR, want, np.maximum(free, missmask)):
                rep.fail(f"{P}/missing/strict-below-threshold", wit,
                         f"complete pairs: got {CR.tolist()} want {want.tolist()}")
        elif not mat_equal(CR, want, free):
            rep.fail(f"{P}/strict-below-threshold", wit, f"got {CR.tolist()} want {want.tolist()}")
    elif missmask is not None:
        fin = sorted(float(v) for v in Dxy[missmask == 0].ravel())
        if fin:
            cands, beyond = rate_admissible(fin, finite_at(obj.distance_matrix(metric), missmask), Nx * Ny, value)
            if beyond:
                rep.skip(BEYOND)
            elif not matches_some_threshold(CR, Dxy, cands, tol, missmask):
                rep.fail(f"{P}/missing/stated-quantile", wit,
                         f"complete pairs: got {CR.tolist()}; admissible [D<q], q in {cands}; D {Dxy.tolist()}")
    else:
        cands = rate_candidates(Dxy, value)
        if not any(mat_equal(CR, *thr_with_free(Dxy, q, tol)) for q in cands):
            rep.fail(f"{P}/stated-quantile", wit, f"got {CR.tolist()} want [D<{cands}] D {Dxy.tolist()}")
        if CR.sum() / float(Nx * Ny) > value + 1e-15:
            rep.fail(f"{P}/rate-not-exceeded", wit, f"achieved {CR.sum()/(Nx*Ny)} requested {value}")
    want_rr = int(CR.sum()) / float(Nx * Ny)
    for name in ("recurrence_rate", "cross_recurrence_rate"):
        v = getattr(obj, name)()
        if abs(v - want_rr) > 1e-12:
            rep.fail(f"{lab}/{name}", wit, f"got {v} want {want_rr}")
    up = sum(int(CR[i, j]) for i in range(Nx) for j in range(Ny) if j > i)
    lo = sum(int(CR[i, j]) for i in range(Nx) for j in range(Ny) if j < i)
    if up + lo:
        b = obj.balance()
        if abs(b - (up - lo) / float(up + lo)) > 1e-12:
            rep.fail(f"{lab}/balance", wit, f"got {b} want {(up-lo)/(up+lo)}")
    return CR


def run_crp(rep, C, w):
    cls = C["CrossRecurrencePlot"]
    x = np.array(w["x"], dtype=np.float64)
    y = np.array(w["y"], dtype=np.float64)
    dim, tau = w.get("dim"), w.get("tau")
    metric = w["metric"]
    tol = 0.0 if w.get("exact", True) else GUARD
    sx, sy = states_of(x, dim, tau), states_of(y, dim, tau)
    kw = dict(metric=metric, silence_level=3)
    if dim:
        kw.update(dim=dim, tau=tau)
    if w.get("normalize"):
        kw["normalize"] = True
        rep.case()
        try:
            probe = cls(x, y, **kw, threshold=0.123)
        except Exception as e:                                   # noqa: BLE001
            rep.fail("CrossRecurrencePlot/normalize/constructible", w, f"{type(e).__name__}: {e}")
            return
        sx = resolve_normalized(rep, "CrossRecurrencePlot", w, x, probe.x, probe.x_embedded, dim, tau)
        sy = resolve_normalized(rep, "CrossRecurrencePlot", w, y, probe.y, probe.y_embedded, dim, tau)
        if sx is None or sy is None:
            return
    lab = "CrossRecurrencePlot" + ("@normalize" if w.get("normalize") else "")
    Nx, Ny = len(sx), len(sy)
    Dxy = S.distance_matrix(sx, sy, metric)
    missx, missy = S.is_missing(sx), S.is_missing(sy)
    missmask = pair_mask(missx, missy) if (any(missx) or any(missy)) else None
    shared = None
    first = True
    for kind, value, via in w["variants"]:
        wit = dict(w, variants=[[kind, value, via]])
        P = f"{lab}/{kind}"
        rep.case()
        try:
            if via == "ctor":
                obj = cls(x, y, **kw, **{kind: value})
            else:
                if shared is None:
                    shared = cls(x, y, **kw, threshold=0.123)
                getattr(shared, SETTER[kind])(value)
                obj = shared
        except Exception as e:                                   # noqa: BLE001
            rep.fail(f"{P}/constructible", wit, f"{type(e).__name__}: {e}")
            continue
        CR = check_crp_object(rep, obj, wit, P, Dxy, kind, value, tol, Nx, Ny, lab, missmask, metric)
        if CR is None:
            continue
        rep.case(repr(("CRP", w["x"], w["y"], dim, tau, metric, kind, value, bool(w.get("normalize")))),
                 nontrivial=nontrivial(CR),
                 sample={"cls": "CrossRecurrencePlot", "x": w["x"], "y": w["y"], kind: value, "CR": CR.tolist()})
        if first:
            first = False
            rep.case()
            for m in S.METRICS:
                Dl = np.asarray(obj.distance_matrix(m))
                Dm = S.distance_matrix(sx, sy, m)
                if missmask is not None and Dl.shape == Dm.shape:      # pairs with a missing state: no distance
                    Dl, Dm = np.where(missmask == 1, 0.0, Dl), np.where(missmask == 1, 0.0, Dm)
                if Dl.shape != Dm.shape or not np.allclose(Dl, Dm, rtol=0 if tol == 0 else 1e-12, atol=0):
                    rep.fail(f"{lab}/distance_matrix", dict(wit, distance_metric=m),
                             f"{m}: got {Dl.tolist()} want {Dm.tolist()}")
            for xe, se, nm in ((obj.x_embedded, sx, "x"), (obj.y_embedded, sy, "y")):
                if not np.array_equal(np.asarray(xe), se, equal_nan=True):
                    rep.fail(f"{lab}/embedding", wit, f"{nm}: got {np.asarray(xe).tolist()} want {se.tolist()}")
            rep.case()
            for name in CRP_NOTIMPL:
                try:
                    getattr(obj, name)()
                    rep.fail("CrossRecurrencePlot/line-statistics-documented-NotImplemented", wit, f"{name}() returned")
                except NotImplementedError:
                    pass
                except Exception as e:                           # noqa: BLE001
                    rep.fail("CrossRecurrencePlot/line-statistics-documented-NotImplemented", wit,
                             f"{name}(): {type(e).__name__}: {e}")


# ------------------------------------------------------------------ JointRecurrencePlot / -Network

def run_jrp(rep, C, w):
    cname = w["cls"]
    cls = C[cname]
    x = np.array(w["x"], dtype=np.float64)
    y = np.array(w["y"], dtype=np.float64)
    dim, tau = w.get("dim"), w.get("tau")
    mx, my = w["metric"]
    lag = int(w["lag"])
    tol = 0.0 if w.get("exact", True) else GUARD
    sx = states_of(x, dim[0] if dim else None, tau[0] if dim else None)
    sy = states_of(y, dim[1] if dim else None, tau[1] if dim else None)
    N0 = min(len(sx), len(sy))
    sx, sy = sx[:N0], sy[:N0]
    N = N0 - abs(lag)
    if cname == "JointRecurrenceNetwork" and N < 2:
        rep.skip(SINGLE_NODE)
        return
    kw = dict(metric=(mx, my), lag=lag, silence_level=3)
    if dim:
        kw.update(dim=tuple(dim), tau=tuple(tau))
    stdx, stdy = x, y
    nflag = w.get("normalize")
    if nflag is not None:
        # documented: "tuple of bool ... Give separately for each time series" (default: one bool)
        kw["normalize"] = tuple(nflag) if isinstance(nflag, (list, tuple)) else bool(nflag)
        fx, fy = (bool(nflag[0]), bool(nflag[1])) if isinstance(nflag, (list, tuple)) else (bool(nflag),) * 2
        rep.case()
        try:
            probe = cls(x, y, **kw, threshold=(0.123, 0.123))
        except Exception as e:                                   # noqa: BLE001
            rep.fail(f"{cname}/normalize/constructible", w, f"{type(e).__name__}: {e}")
            return
        sx = resolve_normalized(rep, cname, w, x, probe.x, probe.x_embedded, dim[0] if dim else None,
                                tau[0] if dim else None, flag=fx, prune=N0)
        sy = resolve_normalized(rep, cname, w, y, probe.y, probe.y_embedded, dim[1] if dim else None,
                                tau[1] if dim else None, flag=fy, prune=N0)
        if sx is None or sy is None:
            return
        stdx, stdy = np.asarray(probe.x, dtype=np.float64), np.asarray(probe.y, dtype=np.float64)
    lab = cname + ("@normalize" if nflag is not None else "")
    Dx, Dy = S.distance_matrix(sx, sx, mx), S.distance_matrix(sy, sy, my)
    # series with NaN samples (the joint classes have no missing_values option): cells that involve a
    # state with a missing value are not judged, rate quantiles are any of rate_admissible()
    missx, missy = S.is_missing(sx), S.is_missing(sy)
    anymiss = any(missx) or any(missy)
    mmx, mmy = pair_mask(missx, missx), pair_mask(missy, missy)
    extras = nanJ = None
    shared = None
    prev = None
    for vi, (kind, value, via) in enumerate(w["variants"]):
        wit = dict(w, variants=([prev] if (via == "setter" and prev) else []) + [[kind, value, via]])
        P = f"{lab}/{kind}"
        rep.case()
        try:
            if via == "ctor":
                obj = cls(x, y, **kw, **{kind: tuple(value)})
            else:
                if shared is None:
                    shared = cls(x, y, **kw, threshold=(0.123, 0.123))
                    shared.diagline_dist(); shared.vertline_dist()                 # noqa: E702
                getattr(shared, SETTER[kind])(tuple(value))
                obj = shared
                prev = [kind, value, via]
        except Exception as e:                                   # noqa: BLE001
            rep.fail(f"{P}/constructible", wit, f"{type(e).__name__}: {e}")
            continue
        JR = obj.recurrence_matrix()
        if JR is None or np.asarray(JR).shape != (N, N) or int(obj.N) != N:
            rep.fail(f"{lab}/sizes", wit, f"JR {None if JR is None else JR.shape} N={obj.N} want {N}")
            continue
        if anymiss:
            if extras is None:       # the distance matrices a plain RecurrencePlot of either state sequence holds
                RPc = C["RecurrencePlot"]
                libD = [np.asarray(RPc(st, metric=m, threshold=1.0, silence_level=3).distance_matrix(m), dtype=float)
                        for st, m in ((sx, mx), (sy, my))]
                extras = [finite_at(libD[0], mmx), finite_at(libD[1], mmy)]
                # joint cells where the x-pair or the (shifted) y-pair has a NaN distance
                nanJ = 1 - S.joint_matrix(1 - np.isnan(libD[0]).astype(np.int8), 1 - np.isnan(libD[1]).astype(np.int8), lag)
            bad = [(int(i), int(j)) for i, j in zip(*np.nonzero((nanJ == 1) & (np.asarray(JR) != 0)))]
            if bad:
                rep.fail(f"{P}/missing/nan-distance-never-recurrent", wit, f"cells {bad[:6]} recurrent: {np.asarray(JR).tolist()}")
        if kind == "threshold":
            alts = [(thr_with_free(Dx, value[0], tol), thr_with_free(Dy, value[1], tol))]
        elif kind == "threshold_std":
            alts = [(thr_with_free(Dx, value[0] * pstd(stdx), GUARD_STD), thr_with_free(Dy, value[1] * pstd(stdy), GUARD_STD))]
        elif anymiss:
            qs = []
            for D_, mm, ex, r in ((Dx, mmx, extras[0], value[0]), (Dy, mmy, extras[1], value[1])):
                cands, beyond = rate_admissible(sorted(float(v) for v in D_[mm == 0].ravel()), ex, D_.size, r)
                qs.append(None if (beyond or not cands) else cands)
            if qs[0] is None or qs[1] is None:
                rep.skip(BEYOND)
                alts = []
            else:
                alts = [(thr_with_free(Dx, qx, 0.0 if math.isinf(qx) else tol),
                         thr_with_free(Dy, qy, 0.0 if math.isinf(qy) else tol)) for qx in qs[0] for qy in qs[1]]
        else:
            alts = [(thr_with_free(Dx, qx, tol), thr_with_free(Dy, qy, tol))
                    for qx in rate_candidates(Dx, value[0]) for qy in rate_candidates(Dy, value[1])]
        good = not alts
        for (Rx, fx), (Ry, fy) in alts:
            if anymiss:
                fx, fy = np.maximum(fx, mmx), np.maximum(fy, mmy)
            J = S.joint_matrix(Rx, Ry, lag)
            Jfree = 1 - S.joint_matrix(1 - fx, 1 - fy, lag)
            if mat_equal(JR, J, Jfree):
                good = True
                break
        if not good:
            (Rx, _), (Ry, _) = alts[0]
            rep.fail(f"{P}/" + ("missing/" if anymiss else "") + "product-of-shifted-thresholded-matrices", wit,
                     f"got {np.asarray(JR).tolist()} want {S.joint_matrix(Rx, Ry, lag).tolist()}"
                     + (" on the cells whose four states are complete" if anymiss else ""))
        rep.case(repr((cname, w["x"], w["y"], dim, tau, mx, my, lag, kind, value, repr(nflag))), nontrivial=nontrivial(JR),
                 sample={"cls": cname, "x": w["x"], "y": w["y"], "lag": lag, kind: value, "JR": np.asarray(JR).tolist()})
        if cname == "JointRecurrenceNetwork":
            rep.case()
            A = np.asarray(obj.adjacency)
            want = S.without_diagonal(JR)
            if A.shape != want.shape or (A != want).any():
                rep.fail(f"{lab}/{via}/adjacency-is-JR-without-diagonal", wit, f"adjacency {A.tolist()} JR {np.asarray(JR).tolist()}")
            if int(obj.N) != A.shape[0]:
                rep.fail(f"{lab}/{via}/N-equals-adjacency-order", wit, f"N={obj.N}")
        if vi % int(w.get("rqa_every", 1)) == 0 and N >= 1:
            rep.case()
            for clause, ok, detail in rqa_clauses(obj, JR, None, lmins=[2] if vi else sorted({1, 2, N}),
                                                  resample=(vi == 0)):
                if not ok:
                    rep.fail(f"{lab}/rqa/{clause}", wit, detail)


# ------------------------------------------------------------------ InterSystemRecurrenceNetwork

def run_isrn(rep, C, w):
    cls = C["InterSystemRecurrenceNetwork"]
    x = np.array(w["x"], dtype=np.float64)
    y = np.array(w["y"], dtype=np.float64)
    dim, tau = w.get("dim"), w.get("tau")
    metric = w["metric"]
    tol = 0.0 if w.get("exact", True) else GUARD
    sx = states_of(x, dim, tau[0] if dim else None)
    sy = states_of(y, dim, tau[1] if dim else None)
    kw = dict(metric=metric, silence_level=3)
    if dim:
        kw.update(dim=dim, tau=tuple(tau))
    if w.get("normalize"):
        kw["normalize"] = True
        rep.case()
        try:
            probe = cls(x, y, **kw, threshold=(0.123, 0.123, 0.123))
        except Exception as e:                                   # noqa: BLE001
            rep.fail("InterSystemRecurrenceNetwork/normalize/constructible", w, f"{type(e).__name__}: {e}")
            return
        sx = resolve_normalized(rep, "InterSystemRecurrenceNetwork", w, x, probe.x, probe.x_embedded,
                                dim, tau[0] if dim else None)
        sy = resolve_normalized(rep, "InterSystemRecurrenceNetwork", w, y, probe.y, probe.y_embedded,
                                dim, tau[1] if dim else None)
        if sx is None or sy is None:
            return
    lab = "InterSystemRecurrenceNetwork" + ("@normalize" if w.get("normalize") else "")
    Nx, Ny = len(sx), len(sy)
    Dx, Dy = S.distance_matrix(sx, sx, metric), S.distance_matrix(sy, sy, metric)
    Dxy = S.distance_matrix(sx, sy, metric)
    # series with NaN samples (no missing_values option): cells of a state with a missing value are
    # not judged, rate quantiles are any of rate_admissible()
    missx, missy = S.is_missing(sx), S.is_missing(sy)
    anymiss = any(missx) or any(missy)
    masks = (pair_mask(missx, missx), pair_mask(missy, missy), pair_mask(missx, missy))
    shared = None
    prev = None
    for vi, (kind, value, via) in enumerate(w["variants"]):
        wit = dict(w, variants=([prev] if (via == "setter" and prev) else []) + [[kind, value, via]])
        P = f"{lab}/{kind}"
        rep.case()
        try:
            if via == "setter":      # set_fixed_threshold / set_fixed_recurrence_rate of a live network
                if shared is None:
                    shared = cls(x, y, **kw, threshold=(0.123, 0.123, 0.123))
                    shared.degree()
                getattr(shared, SETTER[kind])(tuple(value))
                obj = shared
                prev = [kind, value, via]
            else:
                obj = cls(x, y, **kw, **{kind: tuple(value)})
        except Exception as e:                                   # noqa: BLE001
            rep.fail(f"{P}/constructible", wit, f"{type(e).__name__}: {e}")
            continue
        A = np.asarray(obj.adjacency)
        if (int(obj.N_x), int(obj.N_y), int(obj.N)) != (Nx, Ny, Nx + Ny) or A.shape != (Nx + Ny, Nx + Ny):
            rep.fail(f"{lab}/sizes", wit,
                     f"N_x={obj.N_x} N_y={obj.N_y} N={obj.N} adjacency {A.shape}; want {Nx},{Ny},{Nx+Ny}")
            continue
        if kind == "threshold":
            alts = [[thr_with_free(D, t, tol)] for D, t in ((Dx, value[0]), (Dy, value[1]), (Dxy, value[2]))]
        elif anymiss:
            alts = []
            for D, r, mm, sub in ((Dx, value[0], masks[0], obj.rp_x), (Dy, value[1], masks[1], obj.rp_y),
                                  (Dxy, value[2], masks[2], obj.crp_xy)):
                cands, beyond = rate_admissible(sorted(float(v) for v in D[mm == 0].ravel()),
                                                finite_at(sub.distance_matrix(metric), mm), D.size, r)
                if beyond or not cands:
                    rep.skip(BEYOND)
                    alts.append(None)
                else:
                    alts.append([thr_with_free(D, q, 0.0 if math.isinf(q) else tol) for q in cands])
        else:
            alts = [[thr_with_free(D, q, tol) for q in rate_candidates(D, r)]
                    for D, r in ((Dx, value[0]), (Dy, value[1]), (Dxy, value[2]))]
        blocks = []
        for nm, got, alt, mm in (("rp_x", obj.rp_x.recurrence_matrix(), alts[0], masks[0]),
                                 ("rp_y", obj.rp_y.recurrence_matrix(), alts[1], masks[1]),
                                 ("crp_xy", obj.crp_xy.recurrence_matrix(), alts[2], masks[2])):
            if anymiss:
                sub = getattr(obj, nm)
                bad = nan_distance_recurrent(got, sub.distance_matrix(metric))
                if bad:
                    rep.fail(f"{P}/missing/{nm}-nan-distance-never-recurrent", wit,
                             f"cells {bad[:6]} recurrent: {np.asarray(got).tolist()}")
            if alt is not None:
                hit = [Rw for (Rw, fr) in alt if mat_equal(got, Rw, np.maximum(fr, mm) if anymiss else fr)]
                if not hit:
                    rep.fail(f"{P}/" + ("missing/" if anymiss else "") + f"{nm}-thresholded", wit,
                             f"got {np.asarray(got).tolist()} want {alt[0][0].tolist()}"
                             + (" on the pairs of complete states" if anymiss else ""))
            blocks.append(np.asarray(got))
        Rx, Ry, Cxy = blocks
        if Rx.shape == (Nx, Nx) and Ry.shape == (Ny, Ny) and Cxy.shape == (Nx, Ny):
            full = np.zeros((Nx + Ny, Nx + Ny), dtype=np.int64)
            for i in range(Nx + Ny):
                for j in range(Nx + Ny):
                    if i < Nx and j < Nx:
                        full[i, j] = Rx[i, j]
                    elif i >= Nx and j >= Nx:
                        full[i, j] = Ry[i - Nx, j - Nx]
                    elif i < Nx:
                        full[i, j] = Cxy[i, j - Nx]
                    else:
                        full[i, j] = Cxy[j, i - Nx]
            if (A != S.without_diagonal(full)).any():
                rep.fail(f"{lab}/adjacency-is-block-matrix-without-diagonal", wit,
                         f"adjacency {A.tolist()} want {S.without_diagonal(full).tolist()}")
            M = np.asarray(obj.inter_system_recurrence_matrix())
            if M.shape != full.shape or (M != full).any():
                rep.fail(f"{lab}/inter_system_recurrence_matrix", wit, f"got {M.tolist()} want {full.tolist()}")
            irr = obj.internal_recurrence_rates()
            want = (Rx.sum() / float(Nx * Nx), Ry.sum() / float(Ny * Ny))
            if abs(irr[0] - want[0]) > 1e-12 or abs(irr[1] - want[1]) > 1e-12:
                rep.fail(f"{lab}/internal_recurrence_rates", wit, f"got {irr} want {want}")
            crr = obj.cross_recurrence_rate()
            if abs(crr - Cxy.sum() / float(Nx * Ny)) > 1e-12:
                rep.fail(f"{lab}/cross_recurrence_rate", wit, f"got {crr}")
        rep.case(repr(("ISRN", w["x"], w["y"], dim, tau, metric, kind, value, bool(w.get("normalize")))), nontrivial=nontrivial(A),
                 sample={"cls": "InterSystemRecurrenceNetwork", "x": w["x"], "y": w["y"], kind: value, "A": A.tolist()})
        rep.case()
        for nm, sub in (("rp_x", obj.rp_x), ("rp_y", obj.rp_y)):
            Rs = sub.recurrence_matrix()
            for clause, ok, detail in rqa_clauses(sub, Rs, None, lmins=[1, 2], lags=False):
                if not ok:
                    rep.fail(f"{lab}/{nm}/rqa/{clause}", wit, detail)
        for name in ("cross_global_clustering_xy", "cross_global_clustering_yx",
                     "cross_transitivity_xy", "cross_transitivity_yx"):
            try:
                getattr(obj, name)()
            except Exception as e:                               # noqa: BLE001
                rep.fail(f"{lab}/{name}/applicable", wit, f"{type(e).__name__}: {e}")
        try:
            obj.crp_xy.diagline_dist()
            rep.fail(f"{lab}/crp_xy/line-statistics-documented-NotImplemented", wit, "returned")
        except NotImplementedError:
            pass
    # ---- the setters on one live network in alternating order, a later threshold triple repeating components of an
    #      earlier one: every block follows the LAST request (compared with a newly constructed network)
    thr = [v for k_, v, _via in w["variants"] if k_ == "threshold"]
    rat = [v for k_, v, _via in w["variants"] if k_ == "recurrence_rate"]
    if thr and rat:
        rep.case()
        t1 = list(thr[0])
        t2 = [t1[0], t1[1], (thr[-1][2] if thr[-1][2] != t1[2] else t1[2] * 1.5 + 0.1)]
        hist = [["threshold", t1], ["recurrence_rate", list(rat[0])], ["threshold", t2],
                ["recurrence_rate", list(rat[-1])], ["recurrence_rate", [rat[-1][0], rat[0][1], rat[-1][2]]]]
        wit = dict(w, variants=[[k_, v, "setter"] for k_, v in hist])
        try:
            live = cls(x, y, **kw, threshold=tuple(t1))
            for step, (k_, v) in enumerate(hist[1:], 1):
                getattr(live, SETTER[k_])(tuple(v))
                fresh = cls(x, y, **kw, **{k_: tuple(v)})
                for nm in ("rp_x", "rp_y", "crp_xy"):
                    a_, b_ = np.asarray(getattr(live, nm).recurrence_matrix()), np.asarray(getattr(fresh, nm).recurrence_matrix())
                    if a_.shape != b_.shape or (a_ != b_).any():
                        rep.fail(f"{lab}/setter-history/{nm}-follows-last-request", wit,
                                 f"after step {step} ({k_} {v}): {int((a_ != b_).sum()) if a_.shape == b_.shape else 'shape'} cells differ "
                                 "from a newly constructed network")
                if (np.asarray(live.adjacency) != np.asarray(fresh.adjacency)).any():
                    rep.fail(f"{lab}/setter-history/adjacency-follows-last-request", wit, f"after step {step} ({k_} {v})")
        except Exception as e:                                   # noqa: BLE001
            rep.fail(f"{lab}/setter-history/constructible", wit, f"{type(e).__name__}: {e}")


def run_normstatic(rep, C, w):
    """RecurrencePlot.normalize_time_series(array) called directly (in place, 2-D array)."""
    a = np.array(w["a"], dtype=np.float64)
    arr = a.astype(w["dtype"])
    rep.case(repr(("normalize_time_series", w["a"], w["dtype"])),
             nontrivial=bool(a.shape[0] >= 2 and (a != a[0]).any()))
    try:
        C["RecurrencePlot"].normalize_time_series(arr)
    except Exception as e:                                       # noqa: BLE001
        rep.fail("normalize_time_series/applicable", w, f"{type(e).__name__}: {e}")
        return
    if normalized_series_ok(a, arr, 1e-9 if w["dtype"] == "float64" else None) is None:
        rep.fail("normalize_time_series/zero-mean-unit-std-per-component", w,
                 f"got {np.asarray(arr).tolist()} want {norm_reference(a)[0][0].tolist()} (population std; "
                 f"sample std also accepted)")


def run_rejects(rep, C, w):
    """Argument sets for which no matrix of the stated form exists must be rejected with an
    exception, not answered with some matrix: no threshold / rate of any kind; joint plots and
    networks of series of different lengths (the joint matrix is the entrywise product of two
    matrices of one common size); inter-system networks of series of different dimensions (the
    cross block needs distances between x- and y-states)."""
    cname, what = w["target"], w["what"]
    cls = C[cname]
    x = np.array(w["x"], dtype=np.float64)
    y = np.array(w["y"], dtype=np.float64)
    rep.case(repr(("rejects", cname, what, w["x"], w["y"])), nontrivial=True)
    two = cname != "RecurrencePlot" and cname != "RecurrenceNetwork"
    k = {"CrossRecurrencePlot": 1, "InterSystemRecurrenceNetwork": 3}.get(cname, 2 if two else 1)
    thr = 1.5 if k == 1 else (1.5,) * k
    kw = dict(silence_level=3)
    if what != "no-threshold":
        kw["threshold"] = thr
    if "lag" in w:
        kw["lag"] = int(w["lag"])
    try:
        obj = cls(x, y, **kw) if two else cls(x, **kw)
    except Exception:                                            # noqa: BLE001
        return
    R = None
    try:
        R = np.asarray(obj.recurrence_matrix() if hasattr(obj, "recurrence_matrix") else obj.adjacency).tolist()
    except Exception:                                            # noqa: BLE001
        pass
    rep.fail(f"{cname}/rejects/{what}", w, f"constructed an object (matrix {R}) instead of raising")


def run_sampled(rep, C, w):
    """Sampling helpers of RecurrencePlot: bootstrap_distance_matrix(embedding, metric, M) returns M
    distances of pairs of the given states under the metric; threshold_from_recurrence_rate_fast
    (D, rate, rr_precision) returns a quantile of int(rr_precision * D.size) sampled entries of D.
    Without reference to the random numbers: every returned value must be the distance (under the
    stated metric) of some pair of states / some entry of D, for every rate in [0, 1]."""
    RP = C["RecurrencePlot"]
    x = np.array(w["x"], dtype=np.float64)
    st = states_of(x, w.get("dim"), w.get("tau"))
    metric = w["metric"]
    D = S.distance_matrix(st, st, metric)
    vals = np.unique(D)
    scale = max(1.0, float(vals.max()))

    def member(v):
        k = np.searchsorted(vals, v)
        near = [vals[j] for j in (k - 1, k) if 0 <= j < len(vals)]
        return any(abs(v - u) <= 1e-12 * scale for u in near)

    rep.case(repr(("sampled", w["x"], w.get("dim"), w.get("tau"), metric, w["M"])), nontrivial=len(vals) > 2)
    np.random.seed(int(w["rseed"]) % (2 ** 32))
    try:
        got = np.asarray(RP.bootstrap_distance_matrix(np.array(st, dtype=np.float64), metric, w["M"]), dtype=float)
    except Exception as e:                                       # noqa: BLE001
        rep.fail("bootstrap_distance_matrix/applicable", w, f"{type(e).__name__}: {e}")
        got = None
    if got is not None:
        bad = [float(v) for v in got if not member(float(v))]
        if got.shape != (int(w["M"]),) or bad:
            rep.fail("bootstrap_distance_matrix/samples-are-distances", w,
                     f"shape {got.shape}; values that are no {metric} distance of two states: {bad[:5]}; "
                     f"distances present: {vals[:8].tolist()}...")
        elif len(vals) > 2 and w["M"] >= 50 * len(vals) and len(np.unique(np.round(got, 9))) < 2:
            rep.fail("bootstrap_distance_matrix/samples-are-distances", w, "all samples identical")
    for rate, prec in w["rates"]:
        rep.case()
        wit = dict(w, rates=[[rate, prec]])
        try:
            thr = RP.threshold_from_recurrence_rate_fast(D.copy(), rate, *([] if prec is None else [prec]))
        except Exception as e:                                   # noqa: BLE001
            what = "rate-1" if rate == 1.0 else ("default-precision" if prec is None else "general")
            rep.fail(f"threshold_from_recurrence_rate_fast/applicable[{what}]", wit, f"{type(e).__name__}: {e}")
            continue
        if not member(float(thr)):
            rep.fail("threshold_from_recurrence_rate_fast/is-a-sampled-distance", wit,
                     f"returned {thr!r}, not an entry of the distance matrix")


def run_adaptive_order(rep, C, w):
    """set_adaptive_neighborhood_size(k, order=...): the processing order is the caller's choice; for
    every order (a permutation of the states, given as an int32 or an int64 array) the matrix
    is binary, symmetric and gives every state at least min(k, N-1) neighbours other than itself."""
    RP = C["RecurrencePlot"]
    x = np.array(w["x"], dtype=np.float64)
    metric = w["metric"]
    kw = dict(metric=metric, silence_level=3)
    if w.get("dim"):
        kw.update(dim=w["dim"], tau=w["tau"])
    N = len(states_of(x, w.get("dim"), w.get("tau")))
    obj = None
    for oi, order in enumerate(w["orders"]):
        for k in w["sizes"]:
            wit = dict(w, orders=[order], sizes=[k])
            rep.case(repr(("adaptive-order", w["x"], w.get("dim"), w.get("tau"), metric, order, k)), nontrivial=N > 2)
            arg = np.array(order, dtype=(np.int32, np.int64)[oi % 2])     # documented: 1D array of int32
            P = "RecurrencePlot/adaptive_neighborhood_size[order]"
            try:
                if obj is None:
                    obj = RP(x, threshold=0.123, **kw)
                obj.set_adaptive_neighborhood_size(k, order=arg)
                R = np.asarray(obj.recurrence_matrix())
            except Exception as e:                               # noqa: BLE001
                rep.fail(f"{P}/constructible", wit, f"{type(e).__name__}: {e}")
                obj = None
                continue
            if R.shape != (N, N) or not is_binary(R):
                rep.fail(f"{P}/matrix-binary", wit, f"shape {R.shape} values {np.unique(R).tolist()}")
                continue
            if not (R == R.T).all():
                rep.fail(f"{P}/symmetric", wit, f"got {R.tolist()}")
            nb = (R.sum(axis=1) - np.diag(R)).tolist()
            need = min(int(k), N - 1)
            if any(v < need for v in nb):
                rep.fail(f"{P}/at-least-k-neighbours", wit, f"neighbours {nb} < {need}: {R.tolist()}")


RUNNERS = {"adaptive_order": run_adaptive_order, "sampled": run_sampled, "rejects": run_rejects, "normalize_time_series": run_normstatic, "RecurrencePlot": run_rp, "RecurrenceNetwork": run_rp, "CrossRecurrencePlot": run_crp,
           "JointRecurrencePlot": run_jrp, "JointRecurrenceNetwork": run_jrp,
           "InterSystemRecurrenceNetwork": run_isrn}


def run_case(rep, C, w):
    RUNNERS[w["cls"]](rep, C, w)


# ------------------------------------------------------------------ enumeration

EMBS = (None, (1, 1), (2, 1), (2, 2), (3, 1), (3, 2))


def emb_len(n, emb):
    return n if emb is None else n - (emb[0] - 1) * emb[1]


def seqs(alph, lo, hi):
    for n in range(lo, hi + 1):
        for x in itertools.product(alph, repeat=n):
            yield list(x)


def both(vs):
    return [v + ["ctor"] for v in vs] + [v + ["setter"] for v in vs]


def norm_or_raw(x, flag=True):
    """Oracle-normalised (population std) 2-D series, only used to pick thresholds for a case."""
    x2 = np.asarray(x, dtype=np.float64).reshape(len(x), -1)
    return norm_reference(x2)[0][0] if flag else x2


def rp_case(cls, x, emb, metric, mv=False, exact=True, rich=True, rqa_every=1, all_metrics=True,
            normalize=False):
    if normalize:
        st = oracle_embed(norm_or_raw(x), emb[0] if emb else None, emb[1] if emb else None)
    else:
        st = states_of(x, emb[0] if emb else None, emb[1] if emb else None)
    D = S.distance_matrix(st, st, metric)
    anymiss = any(S.is_missing(st))
    w = {"cls": cls, "x": x, "metric": metric, "missing_values": mv, "exact": exact,
         "rqa_every": rqa_every, "all_metrics": all_metrics,
         "variants": rp_variants(D, len(st), np.asarray(x).ndim == 1, anymiss, rich,
                                 thresholds=mid_thresholds(D) if normalize else None)}
    if normalize:
        w.update(normalize=True, exact=False)
    if emb:
        w.update(dim=emb[0], tau=emb[1])
    return w


def assign_case(cls, x, spec, metric, exact, rqa_every=2):
    return {"cls": cls, "x": x, "metric": metric, "missing_values": False, "exact": exact,
            "rqa_every": rqa_every, "all_metrics": True, "assign": spec}


def pair_thresholds(Dx, Dy):
    tx, ty = pick_thresholds(Dx, 4), pick_thresholds(Dy, 4)
    out = [[tx[i % len(tx)], ty[(i * 2 + 1) % len(ty)]] for i in range(max(len(tx), len(ty)))]
    out.append([tx[-1], ty[-1]])
    return out


# ---- family: missing samples x every metric x every threshold-selection variant

NAN = float("nan")
GOLOMB = (15.0, 0.0, 34.0, 4.0, 22.0, 1.0, 32.0, 9.0)     # all pairwise differences distinct (tie-free rows)
GOLOMB_Y = (9.0, 32.0, 1.0, 22.0, 0.0, 34.0, 15.0)
GOLOMB_2D = ((15.0, 1.0), (0.0, 32.0), (34.0, 9.0), (4.0, 22.0), (22.0, 0.0), (1.0, 15.0))


def with_nan(x, pos):
    """Copy of the (scalar or 2-d) series with NaN at the positions `pos` (index or (row, column))."""
    out = [list(v) if isinstance(v, (list, tuple)) else v for v in x]
    for q in pos:
        if isinstance(q, (list, tuple)):
            out[q[0]][q[1]] = NAN
        else:
            out[q] = NAN
    return out


def missing_rp_case(cls, x, emb, metric, mv, exact=True, rich=True, rqa_every=5):
    st = states_of(x, emb[0] if emb else None, emb[1] if emb else None)
    D = S.distance_matrix(st, st, metric)
    ncomp = len(st) - sum(S.is_missing(st))
    w = {"cls": cls, "x": x, "metric": metric, "missing_values": mv, "exact": exact, "rqa_every": rqa_every,
         "all_metrics": True, "variants": missing_variants(D, ncomp, np.asarray(x).ndim == 1, rich)}
    if emb:
        w.update(dim=emb[0], tau=emb[1])
    return w


def missing_family(tier, seed):
    T = tier == "thorough"
    rng = np.random.RandomState(seed + 70707)
    n = len(GOLOMB)
    # NaN samples at the start, inside, at the end; one or several
    pats = [(0,), (3,), (n - 1,), (0, 1), (2, 5), (n - 2, n - 1), (0, 4, n - 1)]
    embs = (None, (2, 1), (3, 2), (2, 3)) if T else (None, (2, 1), (3, 2))
    # ---- RecurrencePlot / RecurrenceNetwork, scalar (embedded) series, tie-free, exact
    for pi, pat in enumerate(pats):
        x = with_nan(GOLOMB, pat)
        for ei, emb in enumerate(embs):
            for mi, metric in enumerate(S.METRICS):
                for mv in (False, True):
                    yield missing_rp_case("RecurrencePlot", x, emb, metric, mv)
                    if T or (pi + ei + mi) % 3 == 0:
                        st = states_of(x, *(emb or (None, None)))
                        if len(st) - sum(S.is_missing(st)) >= 2:
                            yield missing_rp_case("RecurrenceNetwork", x, emb, metric, mv, rich=T, rqa_every=6)
    # ---- 2-d series: one component or a whole sample missing
    pats2 = [((0, 0),), ((2, 1),), ((5, 0), (5, 1)), ((0, 1), (3, 0)), ((1, 0), (1, 1), (4, 1))]
    for pi, pat in enumerate(pats2):
        x = with_nan(GOLOMB_2D, pat)
        for mi, metric in enumerate(S.METRICS):
            for mv in (False, True):
                yield missing_rp_case("RecurrencePlot", x, None, metric, mv)
                if T or (pi + mi) % 2 == 0:
                    yield missing_rp_case("RecurrenceNetwork", x, None, metric, mv, rich=T, rqa_every=6)
    # ---- all short series over {0,3,4,NaN} (tied distances) without missing_values=True, and the
    #      variants the older mv=True family leaves out (threshold_std, adaptive) with it
    AN = ALPH + (NAN,)
    for x in seqs(AN, 2, 5 if T else 4):
        if not any(math.isnan(v) for v in x):
            continue
        h = sum(0 if math.isnan(v) else int(v) for v in x) + len(x)
        for ei, emb in enumerate((None, (2, 1))):
            if emb_len(len(x), emb) < 1:
                continue
            for mi, metric in enumerate(S.METRICS):
                if len(x) >= 4 and not T and mi != (h + ei) % 3:
                    continue
                w = missing_rp_case("RecurrencePlot", x, emb, metric, False, rich=len(x) <= 3 or T, rqa_every=7)
                w["all_metrics"] = False
                yield w
                w = missing_rp_case("RecurrencePlot", x, emb, metric, True, rich=False, rqa_every=7)
                w["all_metrics"] = False
                w["variants"] = [v for v in w["variants"] if v[0] in ("threshold_std", "adaptive_neighborhood_size")]
                yield w
    # ---- seeded float32 series with 1..4 NaN samples (start / end forced in turn)
    for k in range(80 if T else 12):
        nn = 10 + int(rng.randint(21))
        d = (None, None, 2)[k % 3]
        emb = None if d else (None, (2, 1), (3, 2))[int(rng.randint(3))]
        a = np.float32(rng.standard_normal((nn, d) if d else nn)).astype(np.float64)
        pos = set(int(v) for v in rng.randint(nn, size=1 + int(rng.randint(4))))
        if k % 4 == 0:
            pos.add(0)
        if k % 4 == 1:
            pos.add(nn - 1)
        for q in pos:
            if d:
                a[q, int(rng.randint(d))] = NAN
                if rng.randint(2):
                    a[q, :] = NAN
            else:
                a[q] = NAN
        st = states_of(a.tolist(), *(emb or (None, None)))
        if len(st) - sum(S.is_missing(st)) < 3:
            continue
        yield missing_rp_case("RecurrenceNetwork" if k % 4 == 3 else "RecurrencePlot", a.tolist(), emb,
                              S.METRICS[k % 3], bool((k // 3) % 2), exact=False, rich=False, rqa_every=5)
    # ---- CrossRecurrencePlot (no missing_values option): unequal lengths, NaN in x, in y, in both
    xpats = [(), (0,), (3,), (n - 1,), (1, 2), (0, n - 1)]
    ypats = [(), (len(GOLOMB_Y) - 1,), (0, 3)]
    for xi, xp in enumerate(xpats):
        for yi, yp in enumerate(ypats):
            if not xp and not yp:
                continue
            x, y = with_nan(GOLOMB, xp), with_nan(GOLOMB_Y, yp)
            for ei, emb in enumerate((None, (2, 1), (3, 2)) if T else (None, (2, 1))):
                for mi, metric in enumerate(S.METRICS):
                    sx, sy = states_of(x, *(emb or (None, None))), states_of(y, *(emb or (None, None)))
                    D = S.distance_matrix(sx, sy, metric)
                    vs = [["threshold", t] for t in few_thresholds(D)] + \
                         [["recurrence_rate", r] for r in (0.0, 0.2, 0.5, 0.8, 1.0)]
                    w = {"cls": "CrossRecurrencePlot", "x": x, "y": y, "metric": metric, "exact": True,
                         "variants": both(vs) if (T or (xi + yi + ei + mi) % 2 == 0) else [v + ["ctor"] for v in vs]}
                    if emb:
                        w.update(dim=emb[0], tau=emb[1])
                    yield w
    # ---- JointRecurrencePlot / JointRecurrenceNetwork: lags of both signs, mixed metrics
    y7 = list(GOLOMB_Y)
    x7 = list(GOLOMB[:7])
    jx = [(), (0,), (3,), (6,), (2, 3)]
    jy = [(), (1,), (6,), (0, 5)]
    k = 0
    for xp in jx:
        for yp in jy:
            if not xp and not yp:
                continue
            x, y = with_nan(x7, xp), with_nan(y7, yp)
            for emb in (None, ((2, 1), (1, 1)), ((2, 2), (3, 1))) if T else (None, ((2, 1), (1, 1))):
                for lag in (-2, 0, 1, 3) if T else (-2, 0, 1):
                    k += 1
                    mets = (S.METRICS[k % 3], S.METRICS[(k // 3 + k) % 3])
                    sx = states_of(x, emb[0][0] if emb else None, emb[1][0] if emb else None)
                    sy = states_of(y, emb[0][1] if emb else None, emb[1][1] if emb else None)
                    N0 = min(len(sx), len(sy))
                    if N0 - abs(lag) < 2:
                        continue
                    Dx, Dy = S.distance_matrix(sx[:N0], sx[:N0], mets[0]), S.distance_matrix(sy[:N0], sy[:N0], mets[1])
                    tx, ty = few_thresholds(Dx), few_thresholds(Dy)
                    vs = [["threshold", [tx[i % len(tx)], ty[(i + 1) % len(ty)]]] for i in range(3)]
                    vs += [["recurrence_rate", [0.3, 0.5]], ["recurrence_rate", [0.6, 0.2]], ["recurrence_rate", [1.0, 0.4]]]
                    w = {"cls": "JointRecurrenceNetwork" if k % 3 == 0 else "JointRecurrencePlot", "x": x, "y": y,
                         "metric": list(mets), "lag": lag, "exact": True, "rqa_every": 4, "variants": both(vs)}
                    if emb:
                        w.update(dim=list(emb[0]), tau=list(emb[1]))
                    yield w
    # ---- InterSystemRecurrenceNetwork: constructor and set_* of a live network
    x6, y5 = list(GOLOMB[:6]), list(GOLOMB_Y[:5])
    k = 0
    for xp in [(), (0,), (2,), (5,), (1, 4)]:
        for yp in [(), (4,), (0, 2)]:
            if not xp and not yp:
                continue
            x, y = with_nan(x6, xp), with_nan(y5, yp)
            for emb in (None, (2, (1, 1)), (2, (2, 1))) if T else (None, (2, (1, 1))):
                k += 1
                for mi, metric in enumerate(S.METRICS):
                    if not T and mi != k % 3 and emb:
                        continue
                    sx = states_of(x, emb[0] if emb else None, emb[1][0] if emb else None)
                    sy = states_of(y, emb[0] if emb else None, emb[1][1] if emb else None)
                    Dx, Dy, Dxy = (S.distance_matrix(a, b, metric) for a, b in ((sx, sx), (sy, sy), (sx, sy)))
                    tx, ty, txy = few_thresholds(Dx), few_thresholds(Dy), few_thresholds(Dxy)
                    vs = [["threshold", [tx[i % len(tx)], ty[(i + 1) % len(ty)], txy[(i + 2) % len(txy)]]] for i in range(3)]
                    vs += [["recurrence_rate", [0.3, 0.5, 0.25]], ["recurrence_rate", [0.6, 0.0, 0.5]],
                           ["recurrence_rate", [1.0, 0.2, 0.8]]]
                    w = {"cls": "InterSystemRecurrenceNetwork", "x": x, "y": y, "metric": metric, "exact": True,
                         "variants": both(vs)}
                    if emb:
                        w.update(dim=emb[0], tau=list(emb[1]))
                    yield w
    # ---- seeded float32 pairs with NaN samples for the two-series classes
    for k in range(60 if T else 9):
        nx, ny = 8 + int(rng.randint(15)), 8 + int(rng.randint(15))
        metric = S.METRICS[k % 3]
        emb = (None, (2, 1), (3, 2))[(k // 3) % 3]
        xa = np.float32(rng.standard_normal(nx)).astype(np.float64)
        ya = np.float32(rng.standard_normal(ny)).astype(np.float64)
        xa[rng.randint(nx, size=1 + int(rng.randint(2)))] = NAN
        if k % 2:
            ya[rng.randint(ny, size=1 + int(rng.randint(2)))] = NAN
        if k % 3 == 0:
            xa[0] = NAN
        if k % 3 == 1:
            xa[-1] = NAN
        x, y = xa.tolist(), ya.tolist()
        w = {"cls": "CrossRecurrencePlot", "x": x, "y": y, "metric": metric, "exact": False,
             "variants": both([["threshold", 0.8], ["recurrence_rate", 0.15], ["recurrence_rate", 0.6]])}
        if emb:
            w.update(dim=emb[0], tau=emb[1])
        yield w
        w2 = {"cls": "InterSystemRecurrenceNetwork", "x": x, "y": y, "metric": metric, "exact": False,
              "variants": both([["threshold", [0.8, 1.1, 0.9]], ["recurrence_rate", [0.1, 0.3, 0.2]]])}
        if emb:
            w2.update(dim=emb[0], tau=[emb[1], 1])
        yield w2
        m = min(nx, ny)
        lag = int(rng.randint(-3, 4))
        w3 = {"cls": "JointRecurrenceNetwork" if k % 3 == 2 else "JointRecurrencePlot", "x": x[:m], "y": y[:m],
              "metric": [metric, S.METRICS[(k // 3) % 3]], "lag": lag, "exact": False, "rqa_every": 2,
              "variants": both([["threshold", [0.9, 1.2]], ["recurrence_rate", [0.3, 0.4]]])}
        if emb:
            w3.update(dim=[emb[0], 2], tau=[emb[1], 1])
        yield w3


def cases(tier, seed):
    yield from base_cases(tier, seed)
    yield from missing_family(tier, seed)


def base_cases(tier, seed):
    rng = np.random.RandomState(seed)
    T = tier == "thorough"

    # ---- RecurrencePlot, scalar, exhaustive
    for x in seqs(ALPH, 1, 5):
        n = len(x)
        for emb in EMBS:
            if emb_len(n, emb) < 1:
                continue
            for mi, metric in enumerate(S.METRICS):
                if not T and n == 5 and mi != (int(sum(x)) + EMBS.index(emb)) % 3:
                    continue          # quick: length 5 gets one metric per (series, embedding), cyclically
                w = rp_case("RecurrencePlot", x, emb, metric, rqa_every=2 if T else 5,
                            all_metrics=(metric == "supremum" or n == 5))
                if not T and n == 5 and int(sum(x)) % 2:
                    w["variants"] = [v for v in w["variants"] if v[2] == "ctor"]
                yield w
    # ---- 2-d series
    A2 = [list(p) for p in itertools.product(ALPH, repeat=2)]
    for n in range(1, 5 if T else 4):
        for xs in itertools.product(A2, repeat=n):
            for metric in S.METRICS:
                yield rp_case("RecurrencePlot", [list(p) for p in xs], None, metric,
                              rich=(n <= 2 or (T and n == 3)), rqa_every=6, all_metrics=(metric == "supremum"))
    # ---- float-width family
    for x in seqs(ALPH_W, 1, 4):
        w = {"cls": "RecurrencePlot", "x": x, "metric": "supremum", "missing_values": False, "exact": True,
             "rqa_every": 3, "variants": both([["threshold", 0.7], ["threshold", 0.1], ["threshold", 0.6],
                                               ["threshold", F32(0.7)], ["threshold", F32(0.7) - F32(0.1)]])}
        yield w
    # ---- missing values
    AN = ALPH + (float("nan"),)
    for x in seqs(AN, 1, 5):
        if not any(math.isnan(v) for v in x):
            continue
        n = len(x)
        for emb in (None, (2, 1), (2, 2)):
            if emb_len(n, emb) < 1:
                continue
            for metric in S.METRICS:
                if n == 5 and not T and metric != S.METRICS[(sum(map(lambda v: 0 if math.isnan(v) else int(v), x)) + n) % 3]:
                    continue
                yield rp_case("RecurrencePlot", x, emb, metric, mv=True, rich=(n <= 4 or T), rqa_every=5,
                              all_metrics=False)
    # missing_values=True without NaN behaves like the plain path
    for x in seqs(ALPH, 1, 3):
        yield rp_case("RecurrencePlot", x, None, "supremum", mv=True, rqa_every=2)
    # ---- RecurrenceNetwork
    for x in seqs(ALPH, 1, 5 if T else 4):
        for emb in (None, (2, 1)):
            if emb_len(len(x), emb) < 1:
                continue
            yield rp_case("RecurrenceNetwork", x, emb, S.METRICS[len(x) % 3] if emb else "supremum",
                          rich=T, rqa_every=3, all_metrics=False)
    for x in seqs(AN, 2, 4 if T else 3):
        if any(math.isnan(v) for v in x):
            yield rp_case("RecurrenceNetwork", x, None, "supremum", mv=True, rich=False, rqa_every=4,
                          all_metrics=False)
    # ---- CrossRecurrencePlot
    L = 4 if T else 3
    allx = list(seqs(ALPH, 1, L))
    for x in allx:
        for y in allx:
            for emb in (None, (2, 1)):
                if emb_len(len(x), emb) < 1 or emb_len(len(y), emb) < 1:
                    continue
                metrics = S.METRICS if emb else ("supremum",)
                for metric in metrics:
                    if T or metric == metrics[(len(x) + len(y)) % len(metrics)] or len(x) + len(y) <= 4:
                        sx = states_of(x, *(emb or (None, None)))
                        sy = states_of(y, *(emb or (None, None)))
                        D = S.distance_matrix(sx, sy, metric)
                        vs = [["threshold", t] for t in pick_thresholds(D, 5)] + \
                             [["recurrence_rate", r] for r in (0.0, 0.3, 0.5, 1.0)]
                        w = {"cls": "CrossRecurrencePlot", "x": x, "y": y, "metric": metric, "exact": True,
                             "variants": both(vs)}
                        if emb:
                            w.update(dim=emb[0], tau=emb[1])
                        yield w
    # ---- JointRecurrencePlot / JointRecurrenceNetwork
    def joint_cases(cls, x, y, embs, rqa_every, nflag=None):
        n = len(x)
        for emb in embs:
            if emb is None:
                N0 = n
                dim = tau = None
            else:
                dim, tau = emb
                N0 = min(n - (dim[0] - 1) * tau[0], n - (dim[1] - 1) * tau[1])
            if N0 < 1:
                continue
            if nflag is None:
                sx = states_of(x, dim[0] if dim else None, tau[0] if dim else None)[:N0]
                sy = states_of(y, dim[1] if dim else None, tau[1] if dim else None)[:N0]
            else:
                fx, fy = (nflag if isinstance(nflag, list) else (nflag, nflag))
                sx = oracle_embed(norm_or_raw(x, fx), dim[0] if dim else None, tau[0] if dim else None)[:N0]
                sy = oracle_embed(norm_or_raw(y, fy), dim[1] if dim else None, tau[1] if dim else None)[:N0]
            for lag in range(-(N0 - 1), N0):
                k = (n + lag + (0 if emb is None else 1)) % 3
                mets = (S.METRICS[k], S.METRICS[(k + 1 + (lag % 2)) % 3])
                Dx, Dy = S.distance_matrix(sx, sx, mets[0]), S.distance_matrix(sy, sy, mets[1])
                if nflag is None:
                    vs = [["threshold", t] for t in pair_thresholds(Dx, Dy)]
                else:
                    tx, ty = mid_thresholds(Dx, 3), mid_thresholds(Dy, 3)
                    vs = [["threshold", [tx[i % len(tx)], ty[(i * 2 + 1) % len(ty)]]]
                          for i in range(max(len(tx), len(ty)))]
                vs += [["threshold_std", [1.0, 0.5]], ["recurrence_rate", [0.3, 0.5]], ["recurrence_rate", [1.0, 0.25]]]
                w = {"cls": cls, "x": x, "y": y, "metric": list(mets), "lag": lag, "exact": nflag is None,
                     "rqa_every": rqa_every,
                     "variants": both(vs) if (T or n <= 2 or lag % 2 == 0) else [v + ["ctor"] for v in vs]}
                if nflag is not None:
                    w["normalize"] = nflag
                if emb:
                    w.update(dim=list(dim), tau=list(tau))
                yield w

    jembs = (None, ((2, 1), (1, 1)), ((2, 2), (1, 2)), ((1, 3), (1, 1)))
    for n in range(1, 4):
        for x in itertools.product(ALPH, repeat=n):
            for y in itertools.product(ALPH, repeat=n):
                yield from joint_cases("JointRecurrencePlot", list(x), list(y),
                                       jembs if (T or n <= 2) else jembs[:2], 4)
    for n, cnt in ((4, 1000 if T else 150), (5, 1000 if T else 150)):
        for _ in range(cnt):
            x = [ALPH[i] for i in rng.randint(3, size=n)]
            y = [ALPH[i] for i in rng.randint(3, size=n)]
            yield from joint_cases("JointRecurrencePlot", x, y, jembs, 5)
    for n in range(1, 4 if T else 3):
        for x in itertools.product(ALPH, repeat=n):
            for y in itertools.product(ALPH, repeat=n):
                yield from joint_cases("JointRecurrenceNetwork", list(x), list(y), jembs[:2], 5)
    for n, cnt in ((3, 0 if T else 60), (4, 300 if T else 40), (5, 300 if T else 30)):
        for _ in range(cnt):
            x = [ALPH[i] for i in rng.randint(3, size=n)]
            y = [ALPH[i] for i in rng.randint(3, size=n)]
            yield from joint_cases("JointRecurrenceNetwork", x, y, jembs[:3], 5)
    # ---- InterSystemRecurrenceNetwork
    all4 = list(seqs(ALPH, 1, 4))
    cnt = 4000 if T else 350
    for k in range(cnt):
        x = all4[rng.randint(len(all4))]
        y = all4[rng.randint(len(all4))]
        emb = (None, (2, (1, 1)), (2, (1, 2)), (2, (2, 1)))[k % 4]
        if emb:
            if len(x) - emb[1][0] < 1 or len(y) - emb[1][1] < 1:
                emb = None
        metric = S.METRICS[k % 3]
        sx = states_of(x, emb[0] if emb else None, emb[1][0] if emb else None)
        sy = states_of(y, emb[0] if emb else None, emb[1][1] if emb else None)
        Dx, Dy, Dxy = (S.distance_matrix(a, b, metric) for a, b in ((sx, sx), (sy, sy), (sx, sy)))
        tx, ty, txy = pick_thresholds(Dx, 3), pick_thresholds(Dy, 3), pick_thresholds(Dxy, 3)
        vs = [["threshold", [tx[i % len(tx)], ty[(i + 1) % len(ty)], txy[(i + 2) % len(txy)]]] for i in range(4)]
        vs += [["recurrence_rate", [0.3, 0.5, 0.25]], ["recurrence_rate", [1.0, 0.0, 0.5]]]
        w = {"cls": "InterSystemRecurrenceNetwork", "x": x, "y": y, "metric": metric, "exact": True,
             "variants": [v + ["ctor"] for v in vs]}
        if emb:
            w.update(dim=emb[0], tau=list(emb[1]))
        yield w
    # ---- normalize=True: every class that has the option
    for x in seqs(ALPH, 1, 5 if T else 4):
        n = len(x)
        for emb in (None, (2, 1), (3, 1), (2, 2)):
            if emb_len(n, emb) < 1:
                continue
            for mi, metric in enumerate(S.METRICS):
                if not T and n == 4 and mi != (int(sum(x)) + EMBS.index(emb)) % 3:
                    continue
                yield rp_case("RecurrencePlot", x, emb, metric, rich=(n <= 3 or T), rqa_every=6,
                              all_metrics=(mi == 2), normalize=True)
    for n in range(1, 4 if T else 3):
        for xs in itertools.product(A2, repeat=n):
            yield rp_case("RecurrencePlot", [list(p) for p in xs], None, S.METRICS[(n + int(xs[0][0])) % 3],
                          rich=False, rqa_every=6, all_metrics=False, normalize=True)
    for x in seqs(ALPH, 2, 5 if T else 4):
        for emb in (None, (2, 1)):
            if emb_len(len(x), emb) >= 2:
                yield rp_case("RecurrenceNetwork", x, emb, S.METRICS[(len(x) + int(sum(x))) % 3], rich=False,
                              rqa_every=4, all_metrics=False, normalize=True)
    for x in allx:
        for y in allx:
            for emb in (None, (2, 1)):
                if emb_len(len(x), emb) < 1 or emb_len(len(y), emb) < 1:
                    continue
                if not T and (len(x) + len(y) + int(sum(x)) + int(sum(y))) % 2:
                    continue
                metric = S.METRICS[(len(x) + 2 * len(y) + int(sum(x))) % 3]
                sx = oracle_embed(norm_or_raw(x), *(emb or (None, None)))
                sy = oracle_embed(norm_or_raw(y), *(emb or (None, None)))
                D = S.distance_matrix(sx, sy, metric)
                vs = [["threshold", t] for t in mid_thresholds(D, 4)] + \
                     [["recurrence_rate", r] for r in (0.0, 0.3, 1.0)]
                w = {"cls": "CrossRecurrencePlot", "x": x, "y": y, "metric": metric, "exact": False,
                     "normalize": True, "variants": both(vs)}
                if emb:
                    w.update(dim=emb[0], tau=emb[1])
                yield w
    NFLAGS = (True, [True, True], [False, False], [True, False], [False, True])
    for n in range(1, 4):
        for x in itertools.product(ALPH, repeat=n):
            for y in itertools.product(ALPH, repeat=n):
                h = int(sum(x)) + 2 * int(sum(y)) + n
                flags = NFLAGS if n <= 2 else (NFLAGS[h % 2],)       # flags with a False: n <= 2 only
                for fl in flags:
                    yield from joint_cases("JointRecurrencePlot", list(x), list(y),
                                           jembs[:2] if (T or n <= 2) else (jembs[h % 2],), 5, nflag=fl)
                if n >= 2 and (T or h % 3 == 0):
                    yield from joint_cases("JointRecurrenceNetwork", list(x), list(y), jembs[:1], 5,
                                           nflag=NFLAGS[h % 5] if n == 2 else NFLAGS[h % 2])
    for k in range(cnt // 2):
        x = all4[rng.randint(len(all4))]
        y = all4[rng.randint(len(all4))]
        emb = (None, (2, (1, 1)), (2, (1, 2)))[k % 3]
        if emb and (len(x) - emb[1][0] < 1 or len(y) - emb[1][1] < 1):
            emb = None
        metric = S.METRICS[k % 3]
        sx = oracle_embed(norm_or_raw(x), emb[0] if emb else None, emb[1][0] if emb else None)
        sy = oracle_embed(norm_or_raw(y), emb[0] if emb else None, emb[1][1] if emb else None)
        Dx, Dy, Dxy = (S.distance_matrix(a, b, metric) for a, b in ((sx, sx), (sy, sy), (sx, sy)))
        tx, ty, txy = mid_thresholds(Dx, 3), mid_thresholds(Dy, 3), mid_thresholds(Dxy, 3)
        vs = [["threshold", [tx[i % len(tx)], ty[(i + 1) % len(ty)], txy[(i + 2) % len(txy)]]] for i in range(3)]
        vs += [["recurrence_rate", [0.3, 0.5, 0.25]]]
        w = {"cls": "InterSystemRecurrenceNetwork", "x": x, "y": y, "metric": metric, "exact": False,
             "normalize": True, "variants": [v + ["ctor"] for v in vs]}
        if emb:
            w.update(dim=emb[0], tau=list(emb[1]))
        yield w
    # ---- normalize_time_series called directly (float64 and float32 arrays, 1..3 components)
    for n in range(1, 4):
        for xs in itertools.product(A2, repeat=n):
            yield {"cls": "normalize_time_series", "a": [list(p) for p in xs], "dtype": ("float64", "float32")[n % 2]}
    for k in range(200 if T else 30):
        n, d = 1 + rng.randint(30), 1 + rng.randint(3)
        sc = 10.0 ** rng.randint(-2, 3, d)
        a = np.float32((rng.standard_normal((n, d)) + rng.randint(-5, 6, d)) * sc)   # |mean|/std <= ~5
        if k % 5 == 0:
            a[:, rng.randint(d)] = float(rng.randint(-3, 4))
        yield {"cls": "normalize_time_series", "a": a.astype(np.float64).tolist(), "dtype": ("float64", "float32")[k % 2]}
    # ---- user-assigned embeddings (explicit rows; RecurrencePlot.legendre_coordinates)
    x0 = [0.0, 3.0, 4.0, 0.0]
    ai = 0
    for m, d in ((1, 1), (2, 1), (3, 1), (4, 1), (5, 1), (1, 2), (2, 2), (3, 2)):
        for flat in itertools.product(ALPH, repeat=m * d):
            ai += 1
            if m * d >= 5 and not T and ai % 4:
                continue
            Y = [list(flat[i * d:(i + 1) * d]) for i in range(m)]
            yield assign_case("RecurrencePlot", x0, {"Y": Y}, S.METRICS[ai % 3], True, rqa_every=3)
            if m >= 2 and (T or ai % 3 == 0):
                yield assign_case("RecurrenceNetwork", x0, {"Y": Y}, S.METRICS[(ai + 1) % 3], True, rqa_every=3)
    for k in range(200 if T else 36):
        n = 8 + rng.randint(33)
        x = (np.sin(np.arange(n) * rng.uniform(0.1, 1.0)) + 0.3 * rng.standard_normal(n)) if k % 2 else rng.standard_normal(n)
        x = np.float32(x).astype(np.float64).tolist()
        spec = {"dim": 1 + int(rng.randint(4))}
        mode = k % 4
        if mode == 0:
            spec["p"] = 1 + int(rng.randint(min(3, (n - 2) // 2)))
        elif mode == 1:
            spec["tau_w"] = None                                 # p = dim
        elif mode == 2:
            spec["tau_w"] = float(rng.uniform(2.0, 6.0))
        if k % 3 == 0:
            spec["t"] = np.cumsum(rng.uniform(0.5, 1.5, n)).tolist()       # irregular sampling times
        yield assign_case("RecurrenceNetwork" if k % 5 == 4 else "RecurrencePlot", x, spec, S.METRICS[k % 3],
                          False, rqa_every=2)
    # ---- random larger, inexact arithmetic
    nr = 150 if T else 24

    def rnd(n, d=None):
        a = np.float32(rng.standard_normal((n, d) if d else n)).astype(np.float64)
        return a.tolist()

    for k in range(nr):
        n = 6 + rng.randint(35)
        metric = S.METRICS[k % 3]
        d = (None, 2, 3)[k % 3]
        emb = None if d else (None, (2, 1), (3, 2), (2, 5))[rng.randint(4)]
        cls = "RecurrenceNetwork" if k % 4 == 3 else "RecurrencePlot"
        x = rnd(n, d)
        mv = False
        if k % 5 == 0 and d is None:
            x[rng.randint(n)] = float("nan")
            mv = True
        yield rp_case(cls, x, emb, metric, mv=mv, exact=False, rich=False, rqa_every=5, all_metrics=True)
    for k in range(nr):
        nx, ny = 6 + rng.randint(25), 6 + rng.randint(25)
        metric = S.METRICS[k % 3]
        d = (None, 2)[k % 2]
        emb = None if d else (None, (2, 1), (3, 2))[rng.randint(3)]
        x, y = rnd(nx, d), rnd(ny, d)
        sx, sy = states_of(x, *(emb or (None, None))), states_of(y, *(emb or (None, None)))
        D = S.distance_matrix(sx, sy, metric)
        fl = np.sort(D.ravel())
        vs = [["threshold", float(fl[len(fl) // 3])], ["threshold", 1.0], ["recurrence_rate", 0.2], ["recurrence_rate", 0.77]]
        w = {"cls": "CrossRecurrencePlot", "x": x, "y": y, "metric": metric, "exact": False, "variants": both(vs)}
        if emb:
            w.update(dim=emb[0], tau=emb[1])
        yield w
        # inter-system on the same data
        w2 = {"cls": "InterSystemRecurrenceNetwork", "x": x, "y": y, "metric": metric, "exact": False,
              "variants": [["threshold", [0.8, 1.1, 0.9], "ctor"], ["recurrence_rate", [0.1, 0.2, 0.15], "ctor"]]}
        if emb:
            w2.update(dim=emb[0], tau=[emb[1], 1])
        yield w2
    for k in range(nr):
        n = 6 + rng.randint(30)
        d = (None, 2)[k % 2]
        emb = None if d else (None, ((2, 1), (3, 2)), ((3, 1), (1, 1)))[rng.randint(3)]
        N0 = n if emb is None else min(n - (emb[0][0] - 1) * emb[1][0], n - (emb[0][1] - 1) * emb[1][1])
        lag = int(rng.randint(-(N0 - 1), N0))
        w = {"cls": "JointRecurrenceNetwork" if k % 3 == 2 else "JointRecurrencePlot",
             "x": rnd(n, d), "y": rnd(n, d), "metric": [S.METRICS[k % 3], S.METRICS[(k // 3) % 3]], "lag": lag,
             "exact": False, "rqa_every": 2,
             "variants": both([["threshold", [0.9, 1.2]], ["threshold_std", [0.6, 0.8]], ["recurrence_rate", [0.3, 0.4]]])}
        if emb:
            w.update(dim=[emb[0][0], emb[0][1]], tau=[emb[1][0], emb[1][1]])
        yield w
    # ---- argument sets without a matrix of the stated form: must be rejected
    rrng = np.random.RandomState(seed + 4242)
    for k in range(30 if T else 6):
        n = 3 + int(rrng.randint(6))
        xs = rrng.randint(0, 5, n).astype(float).tolist()
        ys = rrng.randint(0, 5, n).astype(float).tolist()
        for target in ("RecurrencePlot", "RecurrenceNetwork", "CrossRecurrencePlot", "JointRecurrencePlot",
                       "JointRecurrenceNetwork", "InterSystemRecurrenceNetwork"):
            yield {"cls": "rejects", "target": target, "what": "no-threshold", "x": xs, "y": ys}
        m = 1 + int(rrng.randint(n - 1))                         # 1 <= m < n
        for target in ("JointRecurrencePlot", "JointRecurrenceNetwork"):
            yield {"cls": "rejects", "target": target, "what": "unequal-lengths", "x": xs, "y": ys[:m]}
            yield {"cls": "rejects", "target": target, "what": "unequal-lengths", "x": xs[:m], "y": ys}
            # documented: "Delay value (lag) must not exceed length of time series"
            yield {"cls": "rejects", "target": target, "what": "lag-exceeds-length", "x": xs, "y": ys,
                   "lag": (n + 1 + int(rrng.randint(3))) * (1 if k % 2 else -1)}
        yield {"cls": "rejects", "target": "InterSystemRecurrenceNetwork", "what": "unequal-dimensions",
               "x": [[v] for v in xs], "y": [[v, v + 1.0] for v in ys[:m + 1]]}
    # ---- sampling helpers: every sample is a distance under the stated metric
    for k in range(60 if T else 12):
        n = 4 + int(rrng.randint(40))
        emb = (None, (2, 1), (3, 2))[k % 3] if n >= 8 else None
        d = None if emb else (None, 2, 3)[(k // 3) % 3]
        xs = (np.float32(rrng.standard_normal((n, d) if d else n))).astype(np.float64).tolist()
        w = {"cls": "sampled", "x": xs, "metric": S.METRICS[k % 3], "M": int(rrng.choice([1, 7, 200])),
             "rseed": int(rrng.randint(1, 2 ** 31 - 1)),
             "rates": [[0.0, 0.5], [0.3, 1.0], [0.77, 2.0], [1.0, 0.5], [0.5, None]]}
        if emb:
            w.update(dim=emb[0], tau=emb[1])
        yield w
    # ---- adaptive neighbourhood size with a caller-chosen processing order
    for n in (2, 3, 4):
        xs = [ALPH[(i * i + n) % 3] + i for i in range(n)]
        yield {"cls": "adaptive_order", "x": xs, "metric": "supremum", "sizes": sorted({1, 2, n - 1, n + 1}),
               "orders": [list(p) for p in itertools.permutations(range(n))]}
    for k in range(40 if T else 10):
        n = 5 + int(rrng.randint(30))
        emb = (None, (2, 1), (3, 2))[k % 3] if n >= 9 else None
        xs = (np.float32(rrng.standard_normal(n))).astype(np.float64).tolist()
        ns = n - (emb[0] - 1) * emb[1] if emb else n
        w = {"cls": "adaptive_order", "x": xs, "metric": S.METRICS[k % 3],
             "sizes": sorted({1, 3, max(1, ns // 2), ns - 1}),
             "orders": [rrng.permutation(ns).tolist() for _ in range(3)] + [list(range(ns - 1, -1, -1))]}
        if emb:
            w.update(dim=emb[0], tau=emb[1])
        yield w
    # ---- random larger with normalize=True
    for k in range(nr):
        n = 6 + rng.randint(35)
        metric = S.METRICS[k % 3]
        d = (None, 2, 3)[k % 3]
        emb = None if d else (None, (2, 1), (3, 2), (2, 5))[rng.randint(4)]
        x = (np.float32(rng.standard_normal((n, d) if d else n) * 3.0 + 2.0)).astype(np.float64).tolist()
        yield rp_case("RecurrenceNetwork" if k % 4 == 3 else "RecurrencePlot", x, emb, metric, rich=False,
                      rqa_every=5, all_metrics=True, normalize=True)
        ny = 6 + rng.randint(25)
        y = (np.float32(rng.standard_normal((ny, d) if d else ny) * 0.5 - 1.0)).astype(np.float64).tolist()
        embc = emb if (emb and emb_len(ny, emb) >= 1) else None
        sx = oracle_embed(norm_or_raw(x), *(embc or (None, None)))
        sy = oracle_embed(norm_or_raw(y), *(embc or (None, None)))
        fl = np.sort(S.distance_matrix(sx, sy, metric).ravel())
        vs = [["threshold", float(fl[len(fl) // 3]) + 1e-4], ["threshold", 1.0], ["recurrence_rate", 0.2]]
        w = {"cls": "CrossRecurrencePlot", "x": x, "y": y, "metric": metric, "exact": False, "normalize": True,
             "variants": both(vs)}
        if embc:
            w.update(dim=embc[0], tau=embc[1])
        yield w
        w2 = {"cls": "InterSystemRecurrenceNetwork", "x": x, "y": y, "metric": metric, "exact": False,
              "normalize": True,
              "variants": [["threshold", [0.8, 1.1, 0.9], "ctor"], ["recurrence_rate", [0.1, 0.2, 0.15], "ctor"]]}
        if embc:
            w2.update(dim=embc[0], tau=[embc[1], 1])
        yield w2
        y2 = (np.float32(rng.standard_normal((n, d) if d else n) * 0.5 - 1.0)).astype(np.float64).tolist()
        lag = int(rng.randint(-3, 4))
        yield {"cls": "JointRecurrenceNetwork" if k % 3 == 2 else "JointRecurrencePlot", "x": x, "y": y2,
               "metric": [metric, S.METRICS[(k // 3) % 3]], "lag": lag, "exact": False, "rqa_every": 2,
               "normalize": True,
               "variants": both([["threshold", [0.9, 1.2]], ["threshold_std", [0.6, 0.8]], ["recurrence_rate", [0.3, 0.4]]])}


def main(argv=None):
    args = parse_args(argv)
    rep = Report(PROP, args, SCOPE, RULE)
    try:
        C = _imports()
    except Exception as e:                                       # noqa: BLE001
        print("cannot import pyunicorn:", e, file=sys.stderr)
        sys.exit(3)
    if args.replay:
        with open(args.replay) as f:
            w = json.load(f)
        w = w.get("witness", w)
        try:
            run_case(rep, C, w)
        except Exception as e:                                   # noqa: BLE001
            rep.fail("harness/exception", w, f"{type(e).__name__}: {e}")
        rep.finish()
        return
    rep.skip("local_recurrence_rate with tied distances in a row: 'same number of recurrences' is not "
             "asserted (no thresholding can achieve it); only the row quantile is")
    rep.skip("threshold_std on multi-dimensional series (pooled std not documented); on series with NaN "
             "samples (std undefined) only 'no missing state recurrent' and 'R is a thresholding of the "
             "complete pairs' are asserted")
    rep.skip("NaN samples without missing_values=True (and in the cross / joint / inter-system classes, which "
             "have no such option): rows and columns of the states holding NaN are not judged, except that a "
             "cell with a NaN distance must not be recurrent; adaptive_neighborhood_size there: only binary "
             "and symmetric")
    rep.skip("|lag| >= number of (embedded) states in joint plots: empty matrix, outside the documented domain")
    run_all(rep, PROP, args, C, run_case, cases(args.tier, args.seed), n_workers())
    rep.finish()


if __name__ == "__main__":
    main()
