#!/usr/bin/env python
"""Bounded stand-in for property C12: grid distances equal closed-form geometry and are metrics.

Real code under check: pyunicorn.core.Grid / GeoGrid (distance kernels in _ext/numerics.pyx,
sequences, node_number, rectangular grids, region_indices), GeoNetwork node weights and
area-weighted measures, SpatialNetwork link-distance measures.
Oracle: specs/geometry.py (atan2 great-circle closed form and sqrt-of-squares in float64 on the
float32-rounded coordinates the grid stores; exact rationals for nearest-node lookups).
"""
import os
for _v in ("OPENBLAS_NUM_THREADS", "OMP_NUM_THREADS", "MKL_NUM_THREADS"):
    os.environ.setdefault(_v, "1")

import json                     # noqa: E402
import multiprocessing as mp    # noqa: E402
import sys                      # noqa: E402

import numpy as np              # noqa: E402

from bounded.common import parse_args, Report, jsonable, quiet, random_graph  # noqa: E402
from specs import geometry as G                                               # noqa: E402

PROP = "C12"

U = 2.0 ** -24                 # float32 unit round-off
ABS_ANG = 2.0 ** -10           # statement: absolute angular error below 2^-10 rad everywhere
REL_ANG = 8 * 2.0 ** -20       # statement: relative error "near 2^-20" away from 0 and pi; factor 8, see SCOPE
PI32 = float(np.float32(np.pi))   # arccos(-1) in float32; the upper end of [0, pi] as representable there

SCOPE = (
    "GeoGrid on hand-built coordinate sets (poles with several longitudes, antimeridian +-180 and "
    "+-179.999, 0/360, exactly coincident and exactly antipodal pairs, separations 1e-5..1e-1 deg, "
    "full lat x lon lattices incl. both poles and both antimeridian labels, in the -180..180 and "
    "the 0..360 longitude convention) and on seeded random sets (uniform on the sphere, N=12..60, "
    "thorough ..140, with near-coincident / near-antipodal clusters); Grid on seeded random, "
    "lattice, duplicated, tiny (1e-6) and large (1e6) coordinates in 1..5 dimensions, and on grids "
    "far from the origin with close nodes (offsets 1e4..1e7, spacings 1e-1..1e2, 1..3 dimensions, "
    "UTM-like, non-round; tolerance stays relative to the distance of the float32-rounded "
    "coordinates, not to their magnitude); rectangular "
    "grids with 1..4 axes of 1..6 distinct values; GeoNetwork / SpatialNetwork on random graphs "
    "(undirected and directed) over such grids. Oracle input = the float32-rounded coordinates "
    "(what the grid stores). Tolerances: angular |err| < 2^-10 rad for every pair; for pairs with "
    "sin(d) >= 1/2 (pi/6 <= d <= 5pi/6, 'away from coincident and antipodal') |err| <= 8*2^-20*d: "
    "the constant 8 is the first-order worst case for |lat|<=90, -180<=lon<=360 -- degree->radian "
    "conversion in float32 (2.5 ulp relative on 4 angles: 39 u), 8 float32 trig values and 7 "
    "float32 operations (11.5 u in cos d, /sin d >= 1/2: 23 u), float32 arccos (4 u), total 66 u = "
    "4.1*2^-20 absolute with u=2^-24, divided by d >= pi/6; observed maximum is 2.1*2^-20*d. "
    "Range: 0 <= d <= float32(pi). Triangle inequality: violation <= 3*2^-10 (each of the three "
    "entries carries an error < 2^-10). Euclidean: |err| <= (dim+6)*2^-24*d + 1e-18 (float32 "
    "subtract/square/accumulate/sqrt), diagonal exactly 0, triangle inequality up to that error. "
    "Nearest-node lookup: the returned node's true distance exceeds the minimum by at most the "
    "distance error of the two candidates (angular) / 1e-12 relative on exact squared distances "
    "(Euclidean). cos/sin sequences: 6 u (latitude) and 20 u (longitude) absolute. Area-weighted "
    "and link-distance measures: the entrywise distance allowances propagated through the sum plus "
    "1e-5 relative for the float32 cosines. Undirected-only library measures (average/max "
    "neighbour AWC, undirected link distances, total link distance) are evaluated on undirected "
    "networks, in/out variants on directed ones; geometry-corrected variants and histograms are "
    "not evaluated.  "
    "Round 3: every GeoGrid / Grid case is also stored and re-read (GeoGrid.save_txt -> LoadTXT, "
    "Grid.save -> Grid.Load): the loaded grid must hold exactly the stored float32 coordinates, give "
    "the identical distance matrix (and one within the statement's error of the closed form) and "
    "answer the nearest-node queries minimally; one-node grids and one-point time axes included.  "
    "convert_lon_coordinates on the grid's own longitudes (and on 0..360 sequences): every value is "
    "the input or the input - 360, lies in [-180, 180], and a grid built from the converted "
    "longitudes has the closed-form distances.  region_indices on the polygons returned by "
    "GeoGrid.region('ENSO'|'NINO34') against an even-odd crossing-number test in the (lon, lat) "
    "plane (negative polygon longitudes + 360 on 0..360 grids), nodes within 1e-3 deg of a polygon "
    "edge not judged; dedicated lattices / random sets over the tropical Pacific in both longitude "
    "conventions.  GeoGrid.RegularGrid accepts tuple and list of two axes and raises ValueError for "
    "any other number of axes (such a grid could not enumerate the product of its axes)."
)
RULE = (
    "One case = one coordinate set / axis list / (grid, graph) pair, keyed by family, index and "
    "seed; every clause evaluated on it is one evaluation. A case is distinct non-trivial if it has "
    ">= 3 pairwise distinct points (distance sets), >= 2 axes with >= 2 values (rectangular grids) "
    "or >= 1 link and >= 3 distinct latitudes (network measures). Hand-built sets are fixed, random "
    "ones are drawn from np.random.RandomState(seed)."
)


class Rec:
    def __init__(self):
        self.evaluations = 0
        self.keys = set()
        self.fails = []
        self.by_check = {}
        self.samples = []
        self.skips = []

    def case(self, key=None, nontrivial=True, sample=None):
        self.evaluations += 1
        if nontrivial and key is not None:
            self.keys.add(key)

    def fail(self, check, witness, detail):
        c = self.by_check.get(check, 0)
        self.by_check[check] = c + 1
        self.fails.append((check, jsonable(witness) if c < 3 else None, str(detail)[:600]))

    def skip(self, text):
        if text not in self.skips:
            self.skips.append(text)


def merge(rep, rec):
    rep.evaluations += rec.evaluations
    rep.nontrivial |= rec.keys
    for s in rec.samples:
        if len(rep.samples) < 8:
            rep.samples.append(s)
    for check, wit, det in rec.fails:
        if wit is None:
            rep.nfail += 1
            rep.by_check[check] = rep.by_check.get(check, 0) + 1
        else:
            rep.fail(check, wit, det)
    for s in rec.skips:
        rep.skip(s)


def f32(x):
    return np.asarray(x, dtype=np.float64).astype(np.float32)


def ang_allowance(O):
    """Entrywise error allowance of the statement for true angular distances O."""
    O = np.asarray(O, dtype=float)
    return np.where(np.sin(O) >= 0.5, np.minimum(REL_ANG * O, ABS_ANG), ABS_ANG)


class Ctx:
    def __init__(self, rec, case, nontrivial):
        self.rec, self.case, self.nt = rec, case, nontrivial
        self.key = case["key"]

    def ev(self, check, ok, detail=""):
        self.rec.case(self.key, self.nt)
        if not ok:
            self.rec.fail(check, self.case, detail() if callable(detail) else detail)


# ------------------------------------------------------------------------------ polygons, files

def point_in_polygon(px, py, poly):
    """Even-odd crossing number of the horizontal ray to +x; poly = [(x, y), ...] (closed implicitly)."""
    inside = False
    n = len(poly)
    for k in range(n):
        (x0, y0), (x1, y1) = poly[k], poly[(k + 1) % n]
        if (y0 > py) != (y1 > py):
            xc = x0 + (py - y0) * (x1 - x0) / (y1 - y0)
            if xc > px:
                inside = not inside
    return inside


def dist_to_polygon(px, py, poly):
    best = np.inf
    n = len(poly)
    for k in range(n):
        (x0, y0), (x1, y1) = poly[k], poly[(k + 1) % n]
        dx, dy = x1 - x0, y1 - y0
        L2 = dx * dx + dy * dy
        t = 0.0 if L2 == 0 else min(1.0, max(0.0, ((px - x0) * dx + (py - y0) * dy) / L2))
        best = min(best, float(np.hypot(px - (x0 + t * dx), py - (y0 + t * dy))))
    return best


def _tmpbase():
    import tempfile
    return tempfile.mkdtemp(prefix="c12_")


def _rmtree(d):
    import shutil
    shutil.rmtree(d, ignore_errors=True)


# ------------------------------------------------------------------------------ GeoGrid

def check_geo_roundtrip(c, case, g, D, la32, lo32, O, ntime):
    """save_txt -> LoadTXT and save -> Load: a loaded grid is the stored grid."""
    from pyunicorn.core.geo_grid import GeoGrid
    from pyunicorn.core.grid import Grid
    N = len(la32)
    la, lo = la32.astype(float), lo32.astype(float)
    tmp = _tmpbase()
    try:
        for name, store, load in (("GeoGrid.save_txt-LoadTXT", lambda f: g.save_txt(f), lambda f: GeoGrid.LoadTXT(f)),
                                  ("GeoGrid.save-Load", lambda f: g.save(f + ".pkl"), lambda f: Grid.Load(f + ".pkl"))):
            base = tmp + "/" + ("t" if "txt" in name else "p")
            try:
                with quiet():
                    store(base)
                    g2 = load(base)
                    D2 = np.asarray(g2.angular_distance())
            except Exception as e:      # noqa: BLE001
                c.ev(name + "/loadable", False, "%s: %s" % (type(e).__name__, e))
                continue
            c.ev(name + "/loadable", isinstance(g2, GeoGrid), "loaded object is %r" % type(g2).__name__)
            ok = (g2.N == N and np.array_equal(np.asarray(g2.lat_sequence()), la32)
                  and np.array_equal(np.asarray(g2.lon_sequence()), lo32)
                  and np.asarray(g2.lat_sequence()).dtype == np.float32
                  and np.array_equal(np.asarray(g2.grid()["time"], dtype=float), np.arange(ntime, dtype=float)))
            c.ev(name + "/same-coordinates", bool(ok), lambda: "N %r lat %r lon %r time %r" % (
                g2.N, np.asarray(g2.lat_sequence()).tolist()[:6], np.asarray(g2.lon_sequence()).tolist()[:6],
                np.asarray(g2.grid()["time"]).tolist()[:4]))
            c.ev(name + "/same-distance-matrix", D2.shape == D.shape and bool(np.array_equal(D2, D, equal_nan=True)),
                 lambda: "%d entries differ" % int((D2 != D).sum()) if D2.shape == D.shape else "shape %r" % (D2.shape,))
            if D2.shape == O.shape:
                err = np.where(np.isfinite(D2), np.abs(D2.astype(float) - O), np.inf)
                c.ev(name + "/distance-closed-form", bool((err <= ang_allowance(O)).all()),
                     lambda: "max error %g" % err.max())
            for q in case.get("queries", [])[:6]:
                with quiet():
                    r = int(g2.node_number(float(q[0]), float(q[1])))
                dq = G.great_circle_to(float(q[0]), float(q[1]), la, lo)
                m = float(dq.min())
                c.ev(name + "/node_number-minimal", 0 <= r < N and dq[r] <= m + float(ang_allowance(dq[r])) + float(ang_allowance(m)),
                     lambda: "query %r: node %d at %r, minimum %r" % (q, r, dq[r] if 0 <= r < N else None, m))
    finally:
        _rmtree(tmp)


def check_convert_lon(c, case, g, la, lo):
    """convert_lon_coordinates: 'Return longitude coordinates in the system -180 <= lon <= +180 for
    all nodes. Accepts ... 0 <= lon <= 360' - the same meridians; the closed-form distance is
    360-periodic in longitude, so a grid built from the converted longitudes has the same geometry."""
    from pyunicorn.core.geo_grid import GeoGrid
    N = len(la)
    seqs = [("own", lo.copy())]
    if lo.min() < 0:
        seqs.append(("mod360", np.mod(lo, 360.0)))      # the same nodes in the 0..360 system (exact for float32 input)
    for tag, seq in seqs:
        with quiet():
            out = np.asarray(g.convert_lon_coordinates(seq.copy()), dtype=float)
        same = out.shape == (N,) and bool(np.all((out == seq) | (out == seq - 360.0)))
        c.ev("convert_lon_coordinates/same-meridian", same, lambda: "in %r out %r" % (seq.tolist()[:8], out.tolist()[:8]))
        if not same:
            continue
        dom = (seq >= -180.0) & (seq <= 360.0)
        c.ev("convert_lon_coordinates/within-180-system", bool(np.all((out[dom] >= -180.0) & (out[dom] <= 180.0))),
             lambda: "in %r out %r" % (seq[dom].tolist()[:8], out[dom].tolist()[:8]))
        if N <= 64:
            with quiet():
                g2 = GeoGrid(np.arange(3), la.copy(), out.copy(), silence_level=3)
                D2 = np.asarray(g2.angular_distance(), dtype=float)
            O2 = G.great_circle_matrix(la, f32(out).astype(float))
            err = np.where(np.isfinite(D2), np.abs(D2 - O2), np.inf)
            c.ev("convert_lon_coordinates/converted-grid-closed-form-distances", bool((err <= ang_allowance(O2)).all()),
                 lambda: "max error %g" % err.max())


def check_std_regions(c, case, g, la, lo):
    """region_indices on the library's standard polygons GeoGrid.region(name)."""
    from pyunicorn.core.geo_grid import GeoGrid
    N = len(la)
    for name in case.get("std_regions", []):
        poly_flat = GeoGrid.region(name)
        ok = isinstance(poly_flat, np.ndarray) and poly_flat.ndim == 1 and poly_flat.size >= 6 and poly_flat.size % 2 == 0
        c.ev("region/lon-lat-polygon", bool(ok), "region(%r) = %r" % (name, poly_flat))
        if not ok:
            continue
        with quiet():
            got = np.asarray(g.region_indices(poly_flat.copy()))
        poly = [(float(poly_flat[2 * k]), float(poly_flat[2 * k + 1])) for k in range(poly_flat.size // 2)]
        if lo.min() >= 0:      # documented remap of negative region longitudes onto 0..360
            poly = [(x + 360.0 if x < 0 else x, y) for (x, y) in poly]
        if poly[0] == poly[-1]:
            poly = poly[:-1]
        exp = np.array([point_in_polygon(lo[i], la[i], poly) for i in range(N)])
        judged = np.array([dist_to_polygon(lo[i], la[i], poly) > 1e-3 for i in range(N)])
        bad = got.shape != (N,) or bool(np.any((got.astype(bool) != exp) & judged))
        c.ev("region_indices/standard-region-point-in-polygon", not bad,
             lambda: "region %s: nodes %r (lat, lon) %r: got %r expected %r" % (
                 name, np.nonzero((got.astype(bool) != exp) & judged)[0].tolist()[:6],
                 [(la[i], lo[i]) for i in np.nonzero((got.astype(bool) != exp) & judged)[0][:3]],
                 got.astype(int).tolist()[:20], exp.astype(int).tolist()[:20]))


def check_geo(rec, case):
    from pyunicorn.core.geo_grid import GeoGrid
    lat = np.array(case["lat"], dtype=float)
    lon = np.array(case["lon"], dtype=float)
    N = len(lat)
    la32, lo32 = f32(lat), f32(lon)
    la, lo = la32.astype(float), lo32.astype(float)
    O = G.great_circle_matrix(la, lo)
    distinct = len({(a, b) for a, b in zip(la.tolist(), lo.tolist())})
    c = Ctx(rec, case, distinct >= 3)
    ntime = int(case.get("ntime", 3))
    with quiet():
        g = GeoGrid(np.arange(ntime), lat.copy(), lon.copy(), silence_level=3)
        D = np.asarray(g.angular_distance())
    Dd = D.astype(float)

    c.ev("angular_distance/shape", D.shape == (N, N) and g.N == N, "shape %r N %r" % (D.shape, g.N))
    if D.shape != (N, N):
        return
    check_geo_roundtrip(c, case, g, D, la32, lo32, O, ntime)
    check_convert_lon(c, case, g, la, lo)
    check_std_regions(c, case, g, la, lo)
    fin = bool(np.isfinite(Dd).all())
    c.ev("angular_distance/finite-within-0-pi", fin and bool((Dd >= 0).all() and (Dd <= PI32).all()),
         lambda: "min %r max %r nan %d" % (np.nanmin(Dd), np.nanmax(Dd), int(np.isnan(Dd).sum())))
    err = np.abs(Dd - O)
    err = np.where(np.isfinite(err), err, np.inf)

    def worst(mask_err):
        i, j = np.unravel_index(np.argmax(mask_err), mask_err.shape)
        return "pair (%d,%d): (lat,lon)=(%r,%r),(%r,%r) got %r closed form %r" % (
            i, j, la[i], lo[i], la[j], lo[j], Dd[i, j], O[i, j])
    c.ev("angular_distance/abs-error-below-2^-10", bool((err < ABS_ANG).all()), lambda: worst(err))
    away = np.sin(O) >= 0.5
    rel = np.where(away, err / np.maximum(O, 1e-300), 0.0)
    c.ev("angular_distance/rel-error-away-from-0-and-pi", bool((rel <= REL_ANG).all()),
         lambda: worst(rel) + " rel %g*2^-20" % (rel.max() * 2 ** 20))
    c.ev("angular_distance/exactly-symmetric", bool(np.array_equal(D, D.T)),
         lambda: "asymmetric entries %d" % int((D != D.T).sum()))
    dg = np.abs(np.diag(Dd))
    c.ev("angular_distance/self-distance-within-error", bool((dg < ABS_ANG).all()),
         lambda: "max diagonal %r at node %d" % (dg.max(), int(dg.argmax())))
    if fin:
        viol = -np.inf
        for j in range(N):
            viol = max(viol, float((Dd - (Dd[:, j][:, None] + Dd[j, :][None, :])).max()))
        c.ev("angular_distance/triangle-inequality", viol <= 3 * ABS_ANG, "max violation %g = %g*2^-10" % (viol, viol / ABS_ANG))
    with quiet():
        D2 = np.asarray(g.distance())
    c.ev("distance/is-angular-distance", D2.shape == D.shape and bool(np.array_equal(D2, D, equal_nan=True)),
         "GeoGrid.distance() differs from angular_distance()")

    # sequences: row 0 <-> latitude, row 1 <-> longitude, own index
    ls, os_ = np.asarray(g.lat_sequence()), np.asarray(g.lon_sequence())
    c.ev("lat_sequence/input-latitudes-in-order", ls.shape == (N,) and bool(np.array_equal(ls, la32)), lambda: "got %r" % ls.tolist()[:8])
    c.ev("lon_sequence/input-longitudes-in-order", os_.shape == (N,) and bool(np.array_equal(os_, lo32)), lambda: "got %r" % os_.tolist()[:8])
    gd = g.grid()
    c.ev("grid/lat-lon-keys", bool(np.array_equal(gd["lat"], la32) and np.array_equal(gd["lon"], lo32)), "grid() lat/lon mismatch")
    b = g.boundaries()
    okb = (abs(b["lat_min"] - lat.min()) <= 1e-6 and abs(b["lat_max"] - lat.max()) <= 1e-6
           and abs(b["lon_min"] - lon.min()) <= 1e-6 and abs(b["lon_max"] - lon.max()) <= 1e-6)
    c.ev("boundaries/lat-lon-extrema", okb, lambda: "got %r" % (b,))
    i0 = N // 2
    nc = tuple(float(x) for x in g.node_coordinates(i0))
    c.ev("node_coordinates/own-lat-lon", nc == (float(la[i0]), float(lo[i0])), lambda: "node %d got %r" % (i0, nc))
    for name, fn, ref, tol in (("cos_lat", g.cos_lat, np.cos(np.radians(la)), 6 * U),
                               ("sin_lat", g.sin_lat, np.sin(np.radians(la)), 6 * U),
                               ("cos_lon", g.cos_lon, np.cos(np.radians(lo)), 20 * U),
                               ("sin_lon", g.sin_lon, np.sin(np.radians(lo)), 20 * U)):
        v = np.asarray(fn(), dtype=float)
        c.ev(name + "/elementwise-own-coordinate", v.shape == (N,) and bool((np.abs(v - ref) <= tol).all()),
             lambda: "%s max dev %g" % (name, np.abs(v - ref).max() if v.shape == (N,) else -1))

    # nearest-node lookup
    for q in case.get("queries", []):
        qlat, qlon = float(q[0]), float(q[1])
        with quiet():
            r = int(g.node_number(qlat, qlon))
        dq = G.great_circle_to(qlat, qlon, la, lo)
        m = float(dq.min())
        ok = 0 <= r < N and dq[r] <= m + float(ang_allowance(dq[r])) + float(ang_allowance(m))
        c.ev("GeoGrid.node_number/minimal-angular-distance", ok,
             lambda: "query (%r,%r): returned node %d at %r, nearest node %d at %r" % (qlat, qlon, r, dq[r] if 0 <= r < N else None, int(dq.argmin()), m))

    # the same lookup with the query handed over as NumPy scalars of other types (integer-valued queries: int8 / int16 /
    # uint8 where the value fits, float32, 0-d arrays): the answer depends on the VALUE of the query only
    for q in case.get("queries", [])[:4]:
        il, io = int(round(float(q[0]))), int(round(float(q[1])))
        il, io = max(-90, min(90, il)), max(-127, min(127, io))
        dq = G.great_circle_to(float(il), float(io), la, lo)
        m = float(dq.min())
        forms = [("int8", np.int8(il), np.int8(io)), ("int16", np.int16(il), np.int16(io)),
                 ("float32", np.float32(il), np.float32(io)), ("0-d array", np.array(float(il)), np.array(float(io)))]
        if il >= 0 and io >= 0:
            forms.append(("uint8", np.uint8(il), np.uint8(io)))
        for nm, a_, b_ in forms:
            try:
                with quiet():
                    r = int(g.node_number(a_, b_))
            except Exception as e:                                  # noqa
                c.ev("GeoGrid.node_number/query-as-" + nm, False, "raised %s: %s" % (type(e).__name__, e))
                continue
            ok = 0 <= r < N and dq[r] <= m + float(ang_allowance(dq[r])) + float(ang_allowance(m))
            c.ev("GeoGrid.node_number/query-as-" + nm, ok,
                 lambda: "query (%r,%r) as %s: returned node %d at %r, nearest at %r" % (il, io, nm, r, dq[r] if 0 <= r < N else None, m))

    # region selection: [lon, lat, lon, lat, ...]
    for rg in case.get("regions", []):
        lon0, lon1, lat0, lat1 = rg["lon0"], rg["lon1"], rg["lat0"], rg["lat1"]
        verts = [lon0, lat0, lon0, lat1, lon1, lat1, lon1, lat0]
        if rg.get("closed"):
            verts += [lon0, lat0]
        with quiet():
            got = np.asarray(g.region_indices(np.array(verts, dtype=float)))
        l0, l1 = lon0, lon1
        if lo.min() >= 0:      # documented remap of negative region longitudes onto 0..360
            l0 = l0 + 360 if l0 < 0 else l0
            l1 = l1 + 360 if l1 < 0 else l1
        exp = G.in_rectangle(lo, la, min(l0, l1), max(l0, l1), lat0, lat1)
        c.ev("region_indices/lon-lat-rectangle", got.shape == (N,) and bool(np.array_equal(got.astype(bool), exp)),
             lambda: "region %r: got %r expected %r" % (rg, got.astype(int).tolist(), exp.astype(int).tolist()))


# ------------------------------------------------------------------------------ Grid (Euclidean)

def check_euclid(rec, case):
    from pyunicorn.core.grid import Grid
    X = np.array(case["X"], dtype=float)
    dim, N = X.shape
    X32 = f32(X)
    Xd = X32.astype(float)
    O = G.euclidean_matrix(Xd)
    distinct = len({tuple(col) for col in Xd.T.tolist()})
    c = Ctx(rec, case, distinct >= 3)
    with quiet():
        g = Grid(np.arange(3), X.copy(), silence_level=3)
        D = np.asarray(g.euclidean_distance())
    Dd = D.astype(float)
    c.ev("euclidean_distance/shape", D.shape == (N, N) and g.N == N, "shape %r" % (D.shape,))
    if D.shape != (N, N):
        return
    rel = (dim + 6) * U
    tol = rel * O + 1e-18
    fin = bool(np.isfinite(Dd).all())
    err = np.where(np.isfinite(Dd), np.abs(Dd - O), np.inf)

    def worst():
        i, j = np.unravel_index(np.argmax(err - tol), err.shape)
        return "pair (%d,%d): %r vs %r got %r closed form %r" % (i, j, Xd[:, i].tolist(), Xd[:, j].tolist(), Dd[i, j], O[i, j])
    c.ev("euclidean_distance/closed-form", fin and bool((err <= tol).all()), worst)
    c.ev("euclidean_distance/exactly-symmetric", bool(np.array_equal(D, D.T)), "asymmetric")
    c.ev("euclidean_distance/zero-self-distance", bool((np.diag(Dd) == 0).all()), lambda: "diag max %r" % np.abs(np.diag(Dd)).max())
    c.ev("euclidean_distance/nonnegative", fin and bool((Dd >= 0).all()), "negative or non-finite entries")
    if fin:
        viol = -np.inf
        for j in range(N):
            S = Dd[:, j][:, None] + Dd[j, :][None, :]
            viol = max(viol, float((Dd - S * (1 + 3 * rel) - 3e-18).max()))
        c.ev("euclidean_distance/triangle-inequality", viol <= 0, "max violation beyond allowance %g" % viol)
    with quiet():
        D2 = np.asarray(g.distance())
    c.ev("distance/is-euclidean-distance", D2.shape == D.shape and bool(np.array_equal(D2, D, equal_nan=True)), "Grid.distance() differs")
    oks = all(np.array_equal(np.asarray(g.sequence(d)), X32[d]) for d in range(dim))
    c.ev("sequence/input-coordinates-in-order", oks, "sequence(d) differs from the input row d")
    tmp = _tmpbase()
    try:
        try:
            with quiet():
                g.save(tmp + "/g.pkl")
                g2 = Grid.Load(tmp + "/g.pkl")
                D3 = np.asarray(g2.euclidean_distance())
        except Exception as e:      # noqa: BLE001
            c.ev("Grid.save-Load/loadable", False, "%s: %s" % (type(e).__name__, e))
        else:
            c.ev("Grid.save-Load/same-coordinates",
                 g2.N == N and all(np.array_equal(np.asarray(g2.sequence(d)), X32[d]) for d in range(dim)),
                 "loaded grid has other coordinates")
            c.ev("Grid.save-Load/same-distance-matrix", D3.shape == D.shape and bool(np.array_equal(D3, D, equal_nan=True)),
                 "loaded grid gives another euclidean_distance()")
            for q in case.get("queries", [])[:3]:
                with quiet():
                    r = int(g2.node_number(tuple(q)))
                d2 = G.exact_sq_distances(q, Xd.tolist())
                m = min(d2)
                c.ev("Grid.save-Load/node_number-minimal", 0 <= r < N and float(d2[r]) <= float(m) * (1 + 1e-12) + 1e-300,
                     lambda: "query %r: node %d" % (q, r))
    finally:
        _rmtree(tmp)
    b = g.boundaries()
    c.ev("boundaries/space-extrema", bool(np.allclose(b["space_min"], X.min(axis=1), rtol=1e-6, atol=0)
                                          and np.allclose(b["space_max"], X.max(axis=1), rtol=1e-6, atol=0)), lambda: "%r" % (b,))
    nc = tuple(float(x) for x in g.node_coordinates(N // 2))
    c.ev("node_coordinates/own-column", nc == tuple(Xd[:, N // 2].tolist()), lambda: "got %r" % (nc,))
    for q in case.get("queries", []):
        with quiet():
            r = int(g.node_number(tuple(q)))
        d2 = G.exact_sq_distances(q, Xd.tolist())
        m = min(d2)
        ok = 0 <= r < N and float(d2[r]) <= float(m) * (1 + 1e-12) + 1e-300
        c.ev("Grid.node_number/minimal-euclidean-distance", ok,
             lambda: "query %r: returned node %d (d^2=%r), minimal d^2=%r at node %d" % (q, r, float(d2[r]) if 0 <= r < N else None, float(m), d2.index(m)))


# ------------------------------------------------------------------------------ rectangular grids

def check_rect(rec, case):
    from pyunicorn.core.grid import Grid
    from pyunicorn.core.geo_grid import GeoGrid
    dts = case.get("dtypes") or ["float64"] * len(case["axes"])
    axes = [np.array(a, dtype=dt) for a, dt in zip(case["axes"], dts)]      # the values are representable in their dtype
    dim = len(axes)
    prod = G.cartesian_product([np.asarray(a, dtype=float) for a in axes])
    c = Ctx(rec, case, sum(1 for a in axes if len(a) >= 2) >= 2)

    def cols(seq):
        seq = np.asarray(seq, dtype=float)
        return sorted(tuple(col) for col in seq.T.tolist())
    with quiet():
        seq = np.asarray(Grid.coord_sequence_from_rect_grid([a.copy() for a in axes]))
    c.ev("Grid.coord_sequence_from_rect_grid/cartesian-product",
         seq.shape == (dim, len(prod)) and cols(seq) == prod, lambda: "shape %r, %d distinct columns, product has %d" % (seq.shape, len(set(cols(seq))), len(prod)))
    with quiet():
        g = Grid.RegularGrid(np.arange(3), [a.copy() for a in axes], silence_level=3)
    gs = np.array([np.asarray(g.sequence(d), dtype=float) for d in range(dim)])
    prod32 = sorted(tuple(float(np.float32(v)) for v in t) for t in prod)
    c.ev("Grid.RegularGrid/cartesian-product", g.N == len(prod) and cols(gs) == prod32, "N=%r" % g.N)
    if dim != 2:
        check_rect_geo_arity(c, axes)
    if dim == 2:
        a0, a1 = axes
        exp = np.array([np.repeat(a0, len(a1)), np.tile(a1, len(a0))])
        c.ev("Grid.coord_sequence_from_rect_grid/documented-order-2d", seq.shape == exp.shape and bool(np.array_equal(seq, exp)),
             lambda: "got %r expected %r" % (seq.tolist(), exp.tolist()))
        with quiet():
            la, lo = GeoGrid.coord_sequence_from_rect_grid(a0.copy(), a1.copy())
            gg = GeoGrid.RegularGrid(np.arange(3), (a0.copy(), a1.copy()), silence_level=3)
        la, lo = np.asarray(la, dtype=float), np.asarray(lo, dtype=float)
        c.ev("GeoGrid.coord_sequence_from_rect_grid/lat-x-lon-product",
             la.shape == lo.shape == (len(prod),) and sorted(zip(la.tolist(), lo.tolist())) == prod
             and bool(np.array_equal(la, exp[0]) and np.array_equal(lo, exp[1])),
             lambda: "lat %r lon %r" % (la.tolist(), lo.tolist()))
        with quiet():
            gl = GeoGrid.RegularGrid(np.arange(3), [a0.copy(), a1.copy()], silence_level=3)
        c.ev("GeoGrid.RegularGrid/list-of-two-axes",
             gl.N == len(prod) and bool(np.array_equal(np.asarray(gl.lat_sequence()), f32(exp[0]))
                                        and np.array_equal(np.asarray(gl.lon_sequence()), f32(exp[1]))),
             lambda: "lat %r lon %r" % (np.asarray(gl.lat_sequence()).tolist(), np.asarray(gl.lon_sequence()).tolist()))
        c.ev("GeoGrid.RegularGrid/lat-x-lon-product",
             gg.N == len(prod) and bool(np.array_equal(np.asarray(gg.lat_sequence()), f32(exp[0]))
                                        and np.array_equal(np.asarray(gg.lon_sequence()), f32(exp[1]))),
             lambda: "lat %r lon %r" % (np.asarray(gg.lat_sequence()).tolist(), np.asarray(gg.lon_sequence()).tolist()))


def check_rect_geo_arity(c, axes):
    """GeoGrid.RegularGrid with other than two axes cannot enumerate the product of its axes in
    (lat, lon): the documented outcome is a ValueError."""
    from pyunicorn.core.geo_grid import GeoGrid
    for form in (tuple, list):
        try:
            with quiet():
                gg = GeoGrid.RegularGrid(np.arange(3), form(a.copy() for a in axes), silence_level=3)
            c.ev("GeoGrid.RegularGrid/rejects-other-than-two-axes", False,
                 "%d axes given as %s: returned a grid with N=%r" % (len(axes), form.__name__, getattr(gg, "N", None)))
        except ValueError:
            c.ev("GeoGrid.RegularGrid/rejects-other-than-two-axes", True)
        except Exception as e:      # noqa: BLE001
            c.ev("GeoGrid.RegularGrid/rejects-other-than-two-axes", False,
                 "%d axes: %s: %s (ValueError documented)" % (len(axes), type(e).__name__, e))


# ------------------------------------------------------------------------------ networks on grids

def _close(c, check, got, exp, tol, what=""):
    got = np.asarray(got, dtype=float)
    exp = np.asarray(exp, dtype=float)
    tol = np.broadcast_to(np.asarray(tol, dtype=float), exp.shape)
    ok = got.shape == exp.shape and bool(np.isfinite(got).all()) and bool((np.abs(got - exp) <= tol).all())
    c.ev(check, ok, lambda: "%s got %r expected %r" % (what, np.round(got, 7).tolist()[:12], np.round(exp, 7).tolist()[:12]))


def check_geonet(rec, case):
    from pyunicorn.core.geo_grid import GeoGrid
    from pyunicorn.core.geo_network import GeoNetwork
    lat = np.array(case["lat"], dtype=float)
    lon = np.array(case["lon"], dtype=float)
    A = np.array(case["adjacency"], dtype=np.int8)
    directed = bool(case["directed"])
    N = len(lat)
    la, lo = f32(lat).astype(float), f32(lon).astype(float)
    cosl = np.cos(np.radians(la))
    O = G.great_circle_matrix(la, lo)
    E = ang_allowance(O)
    c = Ctx(rec, case, A.sum() >= 1 and len(set(la.tolist())) >= 3)
    with quiet():
        g = GeoGrid(np.arange(3), lat.copy(), lon.copy(), silence_level=3)
        net = GeoNetwork(g, adjacency=A.copy(), directed=directed, node_weight_type="surface", silence_level=3)
        w = np.asarray(net.node_weights, dtype=float)
    _close(c, "node_weights/surface-is-cos-of-own-latitude", w, cosl, 6 * U)
    with quiet():
        net.set_node_weight_type("irrigation")
        w2 = np.asarray(net.node_weights, dtype=float)
        net.set_node_weight_type(None)
        w0 = np.asarray(net.node_weights, dtype=float)
        net.set_node_weight_type("surface")
    _close(c, "node_weights/irrigation-is-cos2-of-own-latitude", w2, cosl ** 2, 12 * U)
    _close(c, "node_weights/none-is-unit", w0, np.ones(N), 0.0)

    norm = cosl.sum()
    Af = A.astype(float)
    Au = ((A + A.T) > 0).astype(float)
    inawc = (cosl @ Af) / norm          # area of the nodes linking to i
    outawc = (Af @ cosl) / norm         # area of the nodes i links to
    rt = 1e-5
    cu = 6 * U                          # absolute error of one float32 cosine
    dn = N * cu / norm                  # relative error of the normalising total area
    kin, kout = A.sum(axis=0).astype(float), A.sum(axis=1).astype(float)

    def wtol(val, k):                   # allowance for sum_j M_ij cos_j / norm
        return 1.5 * (k * cu / norm + np.abs(val) * dn) + 1e-6 * np.abs(val) + 1e-12
    with quiet():
        _close(c, "inarea_weighted_connectivity/definition", net.inarea_weighted_connectivity(), inawc, wtol(inawc, kin))
        _close(c, "outarea_weighted_connectivity/definition", net.outarea_weighted_connectivity(), outawc, wtol(outawc, kout))
        awc = inawc + outawc if directed else inawc
        tawc = wtol(inawc, kin) + wtol(outawc, kout) if directed else wtol(inawc, kin)
        _close(c, "area_weighted_connectivity/definition", net.area_weighted_connectivity(), awc, tawc)
        # the area of a node is the cosine of its own latitude whatever node weights the network carries
        for nwt in ("irrigation", None, "assigned"):
            if nwt == "assigned":
                net.node_weights = np.linspace(0.5, 2.5, N)
            else:
                net.set_node_weight_type(nwt)
            tag = "-node-weights-%s" % nwt
            _close(c, "inarea_weighted_connectivity/definition" + tag, net.inarea_weighted_connectivity(), inawc, wtol(inawc, kin))
            _close(c, "outarea_weighted_connectivity/definition" + tag, net.outarea_weighted_connectivity(), outawc, wtol(outawc, kout))
            _close(c, "area_weighted_connectivity/definition" + tag, net.area_weighted_connectivity(), awc, tawc)
        # a weight type requested after weights were assigned by hand installs that type's weights again - also when it is
        # the type the network was built with or had last
        for nwt, exp, tl in (("surface", cosl, 6 * U), ("irrigation", cosl ** 2, 12 * U), (None, np.ones(N), 0.0),
                             ("surface", cosl, 6 * U)):
            net.set_node_weight_type(nwt)
            net.node_weights = np.linspace(0.5, 2.5, N)
            net.set_node_weight_type(nwt)
            _close(c, "node_weights/type-reinstalled-after-assignment", np.asarray(net.node_weights, dtype=float), exp, tl,
                   "type %r" % (nwt,))
        net.set_node_weight_type("surface")
    # two grids over the same points in another order (same size, same bounding box) in one process: each reports its own
    # distances (the memo of one object must not answer for the other)
    if N >= 3:
        with quiet():
            order = np.arange(N)[::-1].copy()
            order[:2] = order[:2][::-1]
            g1 = GeoGrid(np.arange(3), lat.copy(), lon.copy(), silence_level=3)
            g2 = GeoGrid(np.arange(3), lat[order].copy(), lon[order].copy(), silence_level=3)
            d1 = np.asarray(g1.angular_distance(), dtype=float)
            d2 = np.asarray(g2.angular_distance(), dtype=float)
        O2 = O[np.ix_(order, order)]
        c.ev("GeoGrid.angular_distance/second-grid-same-points-other-order",
             d2.shape == O2.shape and bool(np.all(np.abs(d2 - O2) <= ang_allowance(O2) + 1e-6)),
             lambda: "max deviation %r (first grid: %r)" % (float(np.abs(d2 - O2).max()), float(np.abs(d1 - O).max())))

        def cwd(M, k):
            num = (M * cosl[None, :] * O).sum(axis=1)
            tol = (M * cosl[None, :] * E).sum(axis=1)
            out = np.zeros(N)
            t = np.zeros(N)
            nz = k > 0
            out[nz] = num[nz] / (k[nz] * norm)
            t[nz] = (tol[nz] + 1.5 * cu * (M * O).sum(axis=1)[nz]) / (k[nz] * norm)
            return out, t * 1.01 + (1.5 * dn + rt) * out + 1e-12

        def ald(M, k):
            num = (M * O).sum(axis=1)
            tol = (M * E).sum(axis=1)
            out = np.zeros(N)
            t = np.zeros(N)
            nz = k > 0
            out[nz] = num[nz] / k[nz]
            t[nz] = tol[nz] / k[nz]
            return out, t * 1.01 + 1e-6 * out + 1e-12
        e, t = cwd(Af.T, kin)
        _close(c, "inconnectivity_weighted_distance/definition", net.inconnectivity_weighted_distance(), e, t)
        e, t = cwd(Af, kout)
        _close(c, "outconnectivity_weighted_distance/definition", net.outconnectivity_weighted_distance(), e, t)
        e, t = ald(Af.T, kin)
        _close(c, "inaverage_link_distance/angular", net.inaverage_link_distance(), e, t)
        e, t = ald(Af, kout)
        _close(c, "outaverage_link_distance/angular", net.outaverage_link_distance(), e, t)
        mx = (Au * O).max(axis=1)
        _close(c, "max_link_distance/angular", net.max_link_distance(), mx, (Au * E).max(axis=1) * 1.01 + 1e-6 * mx + 1e-12)
        if not directed:
            k = Au.sum(axis=1)
            e, t = cwd(Au, k)
            _close(c, "connectivity_weighted_distance/definition", net.connectivity_weighted_distance(), e, t)
            ea, ta = ald(Au, k)
            _close(c, "average_link_distance/angular", net.average_link_distance(), ea, ta)
            _close(c, "total_link_distance/definition", net.total_link_distance(), ea * awc, ta * np.abs(awc) + ea * tawc + ta * tawc + 1e-12)
            an = np.zeros(N)
            nz = k > 0
            an[nz] = (Au @ awc)[nz] / k[nz]
            _close(c, "average_neighbor_area_weighted_connectivity/definition",
                   np.asarray(net.average_neighbor_area_weighted_connectivity()).ravel(), an, tawc.max() + 1e-12)
            if nz.all():
                mn = np.array([awc[Au[i] > 0].max() for i in range(N)])
                _close(c, "max_neighbor_area_weighted_connectivity/definition", net.max_neighbor_area_weighted_connectivity(), mn, tawc.max() + 1e-12)


def check_spatialnet(rec, case):
    from pyunicorn.core.grid import Grid
    from pyunicorn.core.spatial_network import SpatialNetwork
    X = np.array(case["X"], dtype=float)
    A = np.array(case["adjacency"], dtype=np.int8)
    directed = bool(case["directed"])
    dim, N = X.shape
    Xd = f32(X).astype(float)
    O = G.euclidean_matrix(Xd)
    E = (dim + 6) * U * O + 1e-18
    c = Ctx(rec, case, A.sum() >= 1)
    Af = A.astype(float)
    Au = ((A + A.T) > 0).astype(float)
    with quiet():
        g = Grid(np.arange(3), X.copy(), silence_level=3)
        net = SpatialNetwork(g, adjacency=A.copy(), directed=directed, silence_level=3)

        def ald(M, k):
            out = np.zeros(N)
            t = np.zeros(N)
            nz = k > 0
            out[nz] = (M * O).sum(axis=1)[nz] / k[nz]
            t[nz] = (M * E).sum(axis=1)[nz] / k[nz]
            return out, t * 1.5 + 1e-6 * out + 1e-15
        kin, kout = A.sum(axis=0).astype(float), A.sum(axis=1).astype(float)
        e, t = ald(Af.T, kin)
        _close(c, "inaverage_link_distance/euclidean", net.inaverage_link_distance(), e, t)
        e, t = ald(Af, kout)
        _close(c, "outaverage_link_distance/euclidean", net.outaverage_link_distance(), e, t)
        mx = (Au * O).max(axis=1)
        _close(c, "max_link_distance/euclidean", net.max_link_distance(), mx, (Au * E).max(axis=1) * 1.5 + 1e-15)
        if not directed:
            e, t = ald(Au, Au.sum(axis=1))
            _close(c, "average_link_distance/euclidean", net.average_link_distance(), e, t)
        Dn = np.asarray(net.distance(), dtype=float)
        _close(c, "SpatialNetwork.distance/is-grid-distance", Dn, O, E)


def check_dense_lookup(rec, case):
    """Nearest-node lookup on a dense regular grid (neighbouring nodes a few degrees apart: the cosine of the central angle
    of near nodes differs from 1 by ~1e-3), queries as Python numbers and as NumPy scalars of several types."""
    from pyunicorn.core.geo_grid import GeoGrid
    step = float(case["step"])
    lats = np.arange(-90.0 + step / 2, 90.0, step)
    lons = np.arange(-180.0, 180.0, step)
    LA, LO = np.meshgrid(lats, lons, indexing="ij")
    la, lo = LA.ravel(), LO.ravel()
    c = Ctx(rec, case, True)
    with quiet():
        g = GeoGrid(np.arange(3), la.copy(), lo.copy(), silence_level=3)
    la32, lo32 = f32(la).astype(float), f32(lo).astype(float)
    rng = np.random.RandomState(int(case["qseed"]))
    sla, slo = np.sin(np.radians(la32)), np.sin(np.radians(lo32))
    cla, clo = np.cos(np.radians(la32)), np.cos(np.radians(lo32))
    for k in range(int(case["nq"])):
        il, io = int(rng.randint(-88, 89)), int(rng.randint(-127, 128))
        ql, qo = np.radians(float(il)), np.radians(float(io))
        cosd = np.sin(ql) * sla + np.cos(ql) * cla * (np.sin(qo) * slo + np.cos(qo) * clo)
        dq = np.arccos(np.clip(cosd, -1.0, 1.0))
        m = float(dq.min())
        forms = [("python-float", float(il), float(io)), ("int8", np.int8(il), np.int8(io)), ("float32", np.float32(il), np.float32(io)),
                 ("int16", np.int16(il), np.int16(io))]
        if il >= 0 and io >= 0:
            forms.append(("uint8", np.uint8(il), np.uint8(io)))
        for nm, a_, b_ in forms[k % 2::2] + forms[:1]:
            try:
                with quiet():
                    r = int(g.node_number(a_, b_))
            except Exception as e:                                  # noqa
                c.ev("GeoGrid.node_number/dense-grid-query-as-" + nm, False, "raised %s: %s" % (type(e).__name__, e))
                continue
            # float32 trigonometry of the library: the cosine of the central angle is good to ~2e-7, i.e. the angle of a near
            # node to sqrt(4e-7) ~ 6e-4 rad
            ok = 0 <= r < len(la) and dq[r] <= m + 1.2e-3
            c.ev("GeoGrid.node_number/dense-grid-query-as-" + nm, ok,
                 lambda: "query (%d,%d) as %s on a %g-degree grid: returned node at distance %r, nearest at %r" % (il, io, nm, step, float(dq[r]) if 0 <= r < len(la) else None, m))


CHECKERS = {"geolookup": check_dense_lookup, "geo": check_geo, "euclid": check_euclid, "rect": check_rect, "geonet": check_geonet, "spatialnet": check_spatialnet}


def run_case(case, rec=None):
    rec = Rec() if rec is None else rec
    try:
        CHECKERS[case["kind"]](rec, case)
    except Exception as e:      # noqa: BLE001  -- the library raised on an in-scope input
        import traceback
        rec.case(None)
        rec.fail("%s/no-exception" % case["kind"], case, "%s: %s | %s" % (type(e).__name__, e, traceback.format_exc()[-400:]))
    return rec


def run_chunk(cases):
    rec = Rec()
    for cs in cases:
        run_case(cs, rec)
    if cases:
        cs = cases[0]
        smp = {"kind": cs["kind"], "key": cs["key"]}
        for k in ("lat", "X", "adjacency", "axes"):
            if k in cs:
                smp["shape_" + k] = [len(a) for a in cs[k]] if k == "axes" else list(np.asarray(cs[k]).shape)
        rec.samples.append(smp)
    return rec


# ------------------------------------------------------------------------------ scope generation

def sphere_points(rng, n, lon360=False):
    z = rng.uniform(-1, 1, n)
    lat = np.degrees(np.arcsin(z))
    lon = rng.uniform(0, 360, n) if lon360 else rng.uniform(-180, 180, n)
    return lat, lon


def with_queries(rng, case, nq):
    lat, lon = np.array(case["lat"]), np.array(case["lon"])
    q = []
    for i in rng.choice(len(lat), size=min(3, len(lat)), replace=False):   # a node itself, also in the other lon convention
        q.append([float(np.float32(lat[i])), float(np.float32(lon[i]))])
        q.append([float(np.float32(lat[i])), float(np.float32(lon[i])) + (360.0 if lon[i] < 0 else -360.0)])
    q += [[90.0, 0.0], [-90.0, 77.0], [0.0, 180.0], [0.0, -180.0], [12.5, 179.9], [12.5, -179.9], [0.0, 0.0], [0.0, 360.0]]
    la, lo = sphere_points(rng, nq)
    q += [[float(a), float(b)] for a, b in zip(la, lo)]
    case["queries"] = q
    # rectangles with edges well away (>= 1e-3 deg) from every node coordinate
    regs = []
    for _ in range(4):
        for _try in range(50):
            lo360 = bool(lon.min() >= 0)
            if lo360 and rng.randint(0, 2):
                a, b = sorted(rng.uniform(-359, -1, 2))       # all-negative region on a 0..360 grid: remapped
            elif lo360:
                a, b = sorted(rng.uniform(1, 359, 2))
            else:
                a, b = sorted(rng.uniform(-179, 179, 2))
            s, t = sorted(rng.uniform(-89, 89, 2))
            a, b, s, t = [round(float(v), 2) for v in (a, b, s, t)]
            ea = [a + 360 if (lo360 and a < 0) else a, b + 360 if (lo360 and b < 0) else b]
            lo32, la32 = f32(lon).astype(float), f32(lat).astype(float)
            if (b - a > 1 and t - s > 1 and min(np.abs(lo32 - ea[0]).min(), np.abs(lo32 - ea[1]).min()) > 1e-3
                    and min(np.abs(la32 - s).min(), np.abs(la32 - t).min()) > 1e-3):
                regs.append({"lon0": a, "lon1": b, "lat0": s, "lat1": t, "closed": bool(rng.randint(0, 2))})
                break
    case["regions"] = regs
    return case


def fixed_geo_sets():
    sets = []
    sets.append(("poles-antimeridian",
                 [90, 90, 90, -90, -90, 0, 0, 0, 0, 0, 45, -45, 89.999, -89.999, 0, 30, 30],
                 [0, 123, -180, -77, 180, 180, -180, 179.999, -179.999, 0, -180, 180, 10, 190, 360, 180, -180]))
    # exactly coincident pairs and exactly antipodal pairs (all values exact in float32)
    base_lat = [0, 12.5, -33.75, 60, 89.5, -0.5, 45]
    base_lon = [0, 100.25, -45.5, 170, -10, 179.5, 90]
    lat = base_lat + base_lat + [-x for x in base_lat]
    lon = base_lon + base_lon + [x - 180 if x > 0 else x + 180 for x in base_lon]
    sets.append(("coincident-antipodal", lat, lon))
    # small separations around several centres, incl. a pole and the antimeridian
    lat, lon = [], []
    for (cl, co) in ((0, 0), (89.9, 40), (-60, 179.99), (30, -120), (0, 359.8)):
        for d in (0, 1e-5, 1e-4, 1e-3, 1e-2, 1e-1):
            lat += [cl + d if cl + d <= 90 else cl - d, cl]
            lon += [co, co + d]
    sets.append(("small-separations", lat, lon))
    # near-antipodal
    lat, lon = [], []
    for (cl, co) in ((0, 0), (10, 20), (-45, 100), (80, -30)):
        lat.append(cl)
        lon.append(co)
        for d in (0, 1e-5, 1e-3, 1e-2, 1e-1):
            lat.append(-cl + d)
            lon.append(co + 180 - d)
    sets.append(("near-antipodal", lat, lon))
    # one meridian / the equator (collinear, distances add up exactly)
    sets.append(("meridian", list(np.linspace(-90, 90, 19)), [15.0] * 19))
    sets.append(("equator-360", [0.0] * 25, list(np.linspace(0, 360, 25))))
    # lattices
    la_ax = np.array([-90, -60, -30, 0, 30, 60, 90], dtype=float)
    for name, lo_ax in (("lattice-180", np.arange(-180, 181, 60.0)), ("lattice-360", np.arange(0, 361, 45.0))):
        la, lo = np.meshgrid(la_ax, lo_ax, indexing="ij")
        sets.append((name, la.ravel().tolist(), lo.ravel().tolist()))
    # the library's own small test grid
    sets.append(("small-test-grid", [0, 5, 10, 15, 20, 25], [2.5, 5., 7.5, 10., 12.5, 15.]))
    sets.append(("two-nodes", [10.0, -20.0], [30.0, 250.0]))
    sets.append(("one-node", [10.0], [30.0]))
    return sets


def build_cases(tier, seed):
    rng = np.random.RandomState(seed)
    cases = []
    thorough = tier == "thorough"
    # --- geo distance sets
    for name, lat, lon in fixed_geo_sets():
        cs = {"kind": "geo", "key": "geo-fixed-" + name, "lat": [float(x) for x in lat], "lon": [float(x) for x in lon]}
        cases.append(with_queries(rng, cs, 6))
    nrand = 80 if not thorough else 800
    for r in range(nrand):
        n = int(rng.randint(12, 61 if not thorough else 141))
        lon360 = bool(r % 3 == 1)
        lat, lon = sphere_points(rng, n, lon360)
        mode = r % 4
        if mode in (1, 3):      # near-coincident cluster copies
            k = n // 4
            sc = 10.0 ** rng.uniform(-5, -0.5)
            lat[:k] = np.clip(lat[k:2 * k] + rng.uniform(-sc, sc, k), -90, 90)
            lon[:k] = lon[k:2 * k] + rng.uniform(-sc, sc, k)
        if mode in (2, 3):      # near-antipodal copies
            k = n // 4
            sc = 10.0 ** rng.uniform(-5, -0.5)
            lat[2 * k:3 * k] = np.clip(-lat[3 * k:4 * k] + rng.uniform(-sc, sc, k), -90, 90)
            lon[2 * k:3 * k] = lon[3 * k:4 * k] + 180 + rng.uniform(-sc, sc, k)
            if lon360:
                lon[2 * k:3 * k] = np.mod(lon[2 * k:3 * k], 360.0)
            else:
                lon[2 * k:3 * k] = np.where(lon[2 * k:3 * k] > 180, lon[2 * k:3 * k] - 360, lon[2 * k:3 * k])
        if r % 5 == 0:
            lat[-1], lat[-2] = 90.0, -90.0
        cs = {"kind": "geo", "key": "geo-rand-%d-s%d" % (r, seed), "lat": lat.tolist(), "lon": lon.tolist()}
        cases.append(with_queries(rng, cs, 10))
    # --- standard regions (GeoGrid.region): lattices and random sets over the tropical Pacific, both
    #     longitude conventions; one-point time axes; the fixed sets once more with the regions
    la_ax = np.arange(-15.0, 15.1, 2.5)
    lo_ax = np.arange(-180.0, -69.9, 5.0)
    LA, LO = np.meshgrid(la_ax, lo_ax, indexing="ij")
    for name, lon_ in (("pacific-lattice-180", LO.ravel()), ("pacific-lattice-360", LO.ravel() + 360.0)):
        cs = {"kind": "geo", "key": "geo-" + name, "lat": LA.ravel().tolist(), "lon": lon_.tolist(),
              "std_regions": ["ENSO", "NINO34"], "ntime": 1}
        cases.append(with_queries(rng, cs, 4))
    for r in range(12 if not thorough else 120):
        n = int(rng.randint(1, 61))
        lat = rng.uniform(-14, 14, n)
        lon = rng.uniform(-179.5, -75, n)
        if r % 2:
            lon = lon + 360.0
        if r % 3 == 0:                 # some nodes far away from the regions
            k = n // 3
            lat[:k], lon[:k] = sphere_points(rng, k, lon360=bool(r % 2))
        cs = {"kind": "geo", "key": "geo-pacific-%d-s%d" % (r, seed), "lat": lat.tolist(), "lon": lon.tolist(),
              "std_regions": ["ENSO", "NINO34"], "ntime": 1 + r % 3}
        cases.append(with_queries(rng, cs, 4))
    for name, lat, lon in fixed_geo_sets()[-5:]:
        cs = {"kind": "geo", "key": "geo-fixed-regions-" + name, "lat": [float(x) for x in lat], "lon": [float(x) for x in lon],
              "std_regions": ["ENSO", "NINO34"], "ntime": 1}
        cases.append(with_queries(rng, cs, 2))
    # --- Euclidean sets
    neu = 90 if not thorough else 900
    for r in range(neu):
        dim = 1 + r % 5
        n = int(rng.randint(3, 41 if not thorough else 101))
        mode = r % 6
        if mode == 0:
            X = rng.randint(-5, 6, (dim, n)).astype(float)              # lattice: many ties and duplicates
        elif mode == 1:
            X = rng.uniform(-1, 1, (dim, n)) * 1e6
        elif mode == 2:
            X = rng.uniform(-1, 1, (dim, n)) * 1e-6
        elif mode == 3:
            X = rng.normal(0, 10, (dim, n))
            X[:, : n // 3] = X[:, n // 3: 2 * (n // 3)]                 # exact duplicates
        elif mode == 4:
            X = 1000.0 + rng.uniform(-1e-2, 1e-2, (dim, n))             # close points far from the origin
        else:
            X = rng.uniform(-100, 100, (dim, n)) * (10.0 ** rng.randint(-2, 3, (dim, 1)))   # anisotropic
        q = [X[:, int(rng.randint(n))].astype(np.float32).astype(float).tolist()]
        for _ in range(6):
            i, j = rng.randint(n), rng.randint(n)
            w = rng.uniform(-0.3, 1.3)
            q.append((w * X[:, i] + (1 - w) * X[:, j]).tolist())
        q.append((X.mean(axis=1)).tolist())
        cases.append({"kind": "euclid", "key": "euclid-%d-s%d" % (r, seed), "X": X.tolist(), "queries": q})
    # grids far from the origin with closely spaced, non-round coordinates (UTM-like): offsets
    # 1e4..1e7, spacings 1e-1..1e2, 1..3 dimensions; the float32-rounded coordinates are the input
    utm = np.array([[500123.37, 500127.81, 500131.02, 500140.66, 500123.37, 500190.45, 500124.12],
                    [5400017.3, 5400021.9, 5400013.6, 5400030.2, 5400018.4, 5400095.7, 5400017.9]])
    cases.append({"kind": "euclid", "key": "euclid-utm-fixed", "X": utm.tolist(),
                  "queries": [[500125.0, 5400019.0], [500150.0, 5400050.0], utm[:, 3].tolist()]})
    nfar = 36 if not thorough else 360
    for r in range(nfar):
        dim = 1 + r % 3
        n = int(rng.randint(3, 31 if not thorough else 81))
        off = (10.0 ** rng.uniform(4, 7, (dim, 1))) * rng.choice([-1.0, 1.0], (dim, 1))
        sp = 10.0 ** rng.uniform(-1, 2)
        if r % 4 == 3:
            X = off + sp * rng.randint(-6, 7, (dim, n))                 # regular station lattice
        else:
            X = off + rng.uniform(-sp, sp, (dim, n)) * rng.uniform(1, 10, (dim, 1))
        q = [X[:, int(rng.randint(n))].astype(np.float32).astype(float).tolist(), X.mean(axis=1).tolist()]
        for _ in range(4):
            i, j = rng.randint(n), rng.randint(n)
            w = rng.uniform(-0.3, 1.3)
            q.append((w * X[:, i] + (1 - w) * X[:, j]).tolist())
        cases.append({"kind": "euclid", "key": "euclid-far-%d-s%d" % (r, seed), "X": X.tolist(), "queries": q})
        if r % 3 == 0:
            A = random_graph(rng, n, rng.uniform(0.2, 0.7), directed=bool(r % 2))
            cases.append({"kind": "spatialnet", "key": "spatialnet-far-%d-s%d" % (r, seed), "X": X.tolist(),
                          "adjacency": A.tolist(), "directed": bool(r % 2)})
    cases.append({"kind": "euclid", "key": "euclid-small-test-grid", "X": [[0, 5, 10, 15, 20, 25], [2.5, 5., 7.5, 10., 12.5, 15.]],
                  "queries": [[14.0, 9.0], [0.0, 0.0], [30.0, 30.0]]})
    cases.append({"kind": "geolookup", "key": "geolookup-3deg-s%d" % seed, "step": 3.0, "qseed": 5 + seed, "nq": 40 if not thorough else 300})
    if thorough:
        cases.append({"kind": "geolookup", "key": "geolookup-2deg-s%d" % seed, "step": 2.0, "qseed": 6 + seed, "nq": 300})
    # --- rectangular grids
    nre = 48 if not thorough else 400
    cases.append({"kind": "rect", "key": "rect-doc", "axes": [[0., 5.], [1., 2.]]})
    cases.append({"kind": "rect", "key": "rect-latlon", "axes": [[-90., -45., 0., 45., 90.], [0., 90., 180., 270.]]})
    for r in range(nre):
        dim = 1 + r % 4
        axes = []
        for d in range(dim):
            m = int(rng.randint(1, 7))
            vals = np.sort(rng.choice(np.arange(-40, 41), size=m, replace=False)) * 2.25 + d * 1000.0   # disjoint value ranges per axis
            if rng.randint(0, 2):
                vals = vals[::-1]
            axes.append([float(v) for v in vals])
        cases.append({"kind": "rect", "key": "rect-%d-s%d" % (r, seed), "axes": axes})
    # axes of different dtypes (an integer axis next to fractional ones, float32 next to float64): the product is the
    # product of the VALUES, whatever array type carries them
    cases.append({"kind": "rect", "key": "rect-int-lat-float-lon", "axes": [[-60, -30, 0, 30, 60], [0.0, 22.5, 45.0, 67.5]],
                  "dtypes": ["int64", "float64"]})
    for r in range(16 if not thorough else 80):
        dim = 2 + r % 3
        axes, dts = [], []
        for d in range(dim):
            m = int(rng.randint(2, 6))
            kind = ["int64", "int32", "float32", "float64"][int(rng.randint(4))] if d != (r % dim) else ["int64", "int32"][r % 2]
            if kind.startswith("int"):
                vals = np.sort(rng.choice(np.arange(-40, 41), size=m, replace=False)) + d * 1000
            else:
                vals = np.sort(rng.choice(np.arange(-40, 41), size=m, replace=False)) * 2.25 + 0.5 + d * 1000.0
            axes.append([float(v) if not kind.startswith("int") else int(v) for v in vals])
            dts.append(kind)
        if all(k.startswith("int") for k in dts):
            dts[-1] = "float64"
            axes[-1] = [v + 0.25 for v in axes[-1]]
        cases.append({"kind": "rect", "key": "rect-dtypes-%d-s%d" % (r, seed), "axes": axes, "dtypes": dts})
    # --- networks
    nnet = 60 if not thorough else 500
    for r in range(nnet):
        n = int(rng.randint(4, 25 if not thorough else 51))
        directed = bool(r % 2)
        p = rng.uniform(0.1, 0.6)
        A = random_graph(rng, n, p, directed=directed)
        if r % 4 < 2 and not directed:        # no isolated nodes: ring added
            for i in range(n):
                A[i, (i + 1) % n] = A[(i + 1) % n, i] = 1
        lat, lon = sphere_points(rng, n, lon360=bool(r % 3 == 0))
        if r % 6 == 0:
            lat[0], lat[1] = 90.0, -90.0
        cases.append({"kind": "geonet", "key": "geonet-%d-s%d" % (r, seed), "lat": lat.tolist(), "lon": lon.tolist(),
                      "adjacency": A.tolist(), "directed": directed})
        dim = 1 + r % 4
        X = rng.uniform(-50, 50, (dim, n))
        cases.append({"kind": "spatialnet", "key": "spatialnet-%d-s%d" % (r, seed), "X": X.tolist(),
                      "adjacency": A.tolist(), "directed": directed})
    return cases


def main():
    args = parse_args()
    rep = Report(PROP, args, SCOPE, RULE)
    try:
        import pyunicorn.core.geo_network   # noqa: F401
        import pyunicorn.core.spatial_network   # noqa: F401
    except Exception as e:      # noqa: BLE001
        print("cannot import pyunicorn: %r" % (e,), file=sys.stderr)
        sys.exit(3)
    if args.replay:
        with open(args.replay) as f:
            w = json.load(f)
        w = w.get("witness", w)
        merge(rep, run_case(w))
        rep.finish()
        return 0
    cases = build_cases(args.tier, args.seed)
    nproc = min(8, max(1, mp.cpu_count()))
    chunk = 6
    chunks = [cases[i:i + chunk] for i in range(0, len(cases), chunk)]
    if nproc > 1 and len(chunks) > 1:
        with mp.Pool(nproc) as pool:
            for rec in pool.imap(run_chunk, chunks):
                merge(rep, rec)
    else:
        for ch in chunks:
            merge(rep, run_chunk(ch))
    rep.finish()
    return 0


if __name__ == "__main__":
    sys.exit(main())
