"""Bounded stand-in for C04: measures do not depend on node numbering.

Contract evaluated on the real code (metamorphic; the relabelling is the harness's own):

  for an input (adjacency, node weights, link attributes, coordinates, resistances, state vectors,
  node lists) and a permutation perm, the relabelled input has  new node k = old node perm[k]
  (see `relabel`); for every measure m

    global value      :  m(new) == m(old)
    per-node value    :  m(new)[k]    == m(old)[perm[k]]
    per-pair value    :  m(new)[k,l]  == m(old)[perm[k], perm[l]]
    node-list results :  the lists are renumbered (old i -> new inv[i], order kept), results that are
                         indexed by list position are equal position by position
    edge lists        :  equal as sets of renumbered pairs

The measures are discovered by introspection (every public instance method and property of the
class that is not on the curated skip list); arguments are supplied by parameter name.
Network.permuted_copy is only cross-checked against the harness's relabelling.

Run:  cd /verif && PYTHONPATH=/verif .venv/bin/python bounded/c04.py --tier quick --seed 0 --out /tmp/c04.json
"""
import os
for _v in ("OMP_NUM_THREADS", "OPENBLAS_NUM_THREADS", "MKL_NUM_THREADS"):
    os.environ.setdefault(_v, "1")          # workers are processes; no BLAS thread fan-out

import inspect
import itertools
import json
import multiprocessing as mp
import re
import sys
import traceback

import numpy as np

from bounded.common import (parse_args, Report, jsonable, quiet, random_graph)

PROP = "C04"
KEY = "lw"
TW = 0.37
N_WORKERS = 8
MAX_VARIANTS = 8


# --------------------------------------------------------------------------- the oracle's transformation

def _pm(M, perm):
    """P M P^T with new index k = old index perm[k], written out element by element."""
    M = np.asarray(M)
    n = len(perm)
    out = np.zeros((n, n), dtype=M.dtype)
    for k in range(n):
        for l in range(n):
            out[k, l] = M[perm[k], perm[l]]
    return out


def _pv(v, perm):
    v = np.asarray(v)
    return np.array([v[perm[k]] for k in range(len(perm))], dtype=v.dtype)


def relabel(inp, perm):
    """Renumber the nodes: new node k is old node perm[k]; old node i becomes inv[i]."""
    perm = [int(x) for x in perm]
    inv = [0] * len(perm)
    for k, i in enumerate(perm):
        inv[i] = k
    out = dict(inp)
    for key in ("A", "other_A", "resist"):
        if inp.get(key) is not None:
            out[key] = _pm(inp[key], perm).tolist()
    if inp.get("attrs"):
        out["attrs"] = {name: _pm(W, perm).tolist() for name, W in inp["attrs"].items()}
    for key in ("w", "lat", "lon"):
        if inp.get(key) is not None:
            out[key] = _pv(inp[key], perm).tolist()
    if inp.get("space") is not None:
        out["space"] = [_pv(row, perm).tolist() for row in inp["space"]]
    if inp.get("series") is not None:
        out["series"] = [list(inp["series"][perm[k]]) for k in range(len(perm))]
    if inp.get("lists") is not None:
        out["lists"] = [[inv[i] for i in L] for L in inp["lists"]]
    return out


def n_nodes(inp):
    for key in ("A", "series", "lat"):
        if inp.get(key) is not None:
            return len(inp[key])
    return len(inp["space"][0])


# --------------------------------------------------------------------------- building the objects

def build(inp):
    from pyunicorn.core import (Network, InteractingNetworks, SpatialNetwork, GeoNetwork, ResNetwork,
                                Grid, GeoGrid)
    cls = inp["cls"]
    directed = bool(inp.get("directed", False))
    tseq = np.arange(2.0)
    A = np.array(inp["A"], dtype=np.int8) if inp.get("A") is not None else None
    w = np.array(inp["w"], dtype=float) if inp.get("w") is not None else None
    if cls in ("Network", "InteractingNetworks"):
        C = Network if cls == "Network" else InteractingNetworks
        net = C(adjacency=A, directed=directed, node_weights=w, silence_level=3)
    elif cls == "Grid":
        return Grid(tseq, np.array(inp["space"], dtype=float), silence_level=3)
    elif cls == "GeoGrid":
        return GeoGrid(tseq, np.array(inp["lat"], dtype=float), np.array(inp["lon"], dtype=float),
                       silence_level=3)
    elif cls == "SpatialNetwork":
        grid = Grid(tseq, np.array(inp["space"], dtype=float), silence_level=3)
        net = SpatialNetwork(grid, adjacency=A, directed=directed, silence_level=3)
        if w is not None:
            net.node_weights = w
    elif cls == "GeoNetwork":
        grid = GeoGrid(tseq, np.array(inp["lat"], dtype=float), np.array(inp["lon"], dtype=float),
                       silence_level=3)
        net = GeoNetwork(grid, adjacency=A, directed=directed, node_weight_type=inp.get("nwt"),
                         silence_level=3)
    elif cls == "ResNetwork":
        grid = GeoGrid(tseq, np.array(inp["lat"], dtype=float), np.array(inp["lon"], dtype=float),
                       silence_level=3)
        net = ResNetwork(np.array(inp["resist"], dtype=float), grid=grid, adjacency=A,
                         node_weight_type=inp.get("nwt"), silence_level=3)
    elif cls == "RecurrenceNetwork":
        from pyunicorn.timeseries import RecurrenceNetwork
        net = RecurrenceNetwork(np.array(inp["series"], dtype=float), metric=inp["rn"]["metric"],
                                silence_level=3, node_weights=w, **inp["rn"]["thr"])
    else:
        raise ValueError(cls)
    for name, W in (inp.get("attrs") or {}).items():
        net.set_link_attribute(name, np.array(W, dtype=float))
    return net


def get_class(name):
    import pyunicorn.core as core
    if name == "RecurrenceNetwork":
        from pyunicorn.timeseries import RecurrenceNetwork
        return RecurrenceNetwork
    return getattr(core, name)


# --------------------------------------------------------------------------- what is (not) a measure
# name -> reason.  Everything public that is not listed here is treated as a measure.
SKIP = {
    # object management, mutators, I/O
    "cache_clear": "cache management", "copy": "returns a copy", "method": "decorator",
    "permuted_copy": "the transformation itself (cross-checked separately)",
    "splitted_copy": "transformation (C02)", "undirected_copy": "returns a Network (covered by "
    "undirected_adjacency)", "save": "I/O", "save_for_cgv": "I/O", "save_txt": "I/O",
    "set_edge_list": "mutator", "set_link_attribute": "mutator", "set_node_attribute": "mutator",
    "del_link_attribute": "mutator", "del_node_attribute": "mutator", "node_attribute": "needs a "
    "node attribute set by the caller", "set_node_weight_type": "mutator",
    "update_resistances": "mutator", "update_admittance": "mutator", "update_R": "mutator",
    "set_fixed_threshold": "mutator", "set_fixed_threshold_std": "mutator",
    "set_fixed_recurrence_rate": "mutator", "set_fixed_local_recurrence_rate": "mutator",
    "set_adaptive_neighborhood_size": "mutator",
    "print_grid_size": "prints", "print_boundaries": "text",
    # random
    "randomly_rewire": "random mutator (C17)", "randomly_rewire_geomodel_I": "random mutator (C17)",
    "randomly_rewire_geomodel_II": "random mutator (C17)",
    "randomly_rewire_geomodel_III": "random mutator (C17)",
    "set_random_links_by_distance": "random mutator (C17)",
    "resample_diagline_dist": "random", "resample_vertline_dist": "random",
    "twin_surrogates": "random",
    # results that are node numbers / need coordinates as arguments
    "node_number": "argument is a coordinate, result a node number", "node_coordinates": "lookup",
    "region_indices": "needs a region", "convert_lon_coordinates": "coordinate helper",
    # embedding (R and embedding are representation, covered through recurrence_matrix)
    "R": "raw recurrence matrix property (covered by recurrence_matrix)",
    "embedding": "state vectors (the input)",
}
# RecurrencePlot statistics whose definition uses the time order of the samples: renumbering the
# state vectors is a different time series for them
TIME_ORDER = ("rqa_summary", "recurrence_probability", "diagline_dist", "max_diaglength", "determinism",
              "average_diaglength", "diag_entropy", "vertline_dist", "max_vertlength", "laminarity",
              "average_vertlength", "trapping_time", "vert_entropy", "white_vertline_dist",
              "max_white_vertlength", "average_white_vertlength", "mean_recurrence_time",
              "white_vert_entropy", "twins", "permutation_entropy", "complexity_entropy")
for _n in TIME_ORDER:
    SKIP[_n] = "defined through the time order of the samples (lines / ordinal patterns)"

PROPERTIES = ("adjacency", "node_weights")          # properties that are compared
FORCE_GLOBAL = re.compile(r"(distribution|histogram|_cdf$|^boundaries$|^grid_size$)")
UNDIRECTED_ONLY = {
    "eigenvector_centrality": "eigsh needs a symmetric matrix",
    "nsi_eigenvector_centrality": "eigsh needs a symmetric matrix",
    "msf_synchronizability": "documented: only defined for undirected networks",
    "arenas_betweenness": "random-walk betweenness: components are built as undirected networks",
    "nsi_arenas_betweenness": "random-walk betweenness: components are built as undirected networks",
    "newman_betweenness": "random-walk betweenness: grounds the last node of a component, which is "
                          "numbering-independent only for symmetric Kirchhoff matrices",
    "nsi_newman_betweenness": "as newman_betweenness",
}
CONNECTED_ONLY = {"eigenvector_centrality", "nsi_eigenvector_centrality"}   # unique Perron vector
SLOW = {"local_vulnerability": 14, "local_distance_weighted_vulnerability": 14,
        "arenas_betweenness": 16, "nsi_arenas_betweenness": 16, "local_admittive_clustering": 16,
        "newman_betweenness": 20, "nsi_newman_betweenness": 20, "edge_current_flow_betweenness": 20,
        "vertex_current_flow_betweenness": 20, "effective_resistance": 20}
# tolerances (relative; atol = rtol * max|value|)
TOL_BY_NAME = [
    (re.compile(r"eigenvector_centrality"), 1e-4, "ARPACK eigsh(tol=1e-8) in shift-invert mode with "
     "sigma=N**2: eigenvector error <~ 1e-8*N/relative spectral gap; run only when the gap >= 3e-3"),
    (re.compile(r"pagerank|msf_synchronizability"), 1e-7, "iterative / dense eigen solver"),
    (re.compile(r"arenas_betweenness|newman_betweenness"), 1e-7, "sparse LU / inverse"),
    (re.compile(r"current_flow_betweenness"), 1e-4, "float32 kernels on the pseudo-inverse"),
    (re.compile(r"spreading"), 1e-8, "expm"),
]
TOL_FLOAT32_CLASSES = {"SpatialNetwork": 1e-5, "GeoNetwork": 1e-5, "ResNetwork": 1e-5, "Grid": 1e-5,
                       "GeoGrid": 1e-5, "RecurrenceNetwork": 1e-6, "RecurrencePlot": 1e-6}
TOL_DEFAULT = 1e-9
NODE_PARAMS = ("a", "b", "i")


def tolerance(cls_name, owner, method):
    for rx, tol, _ in TOL_BY_NAME:
        if rx.search(method):
            return tol
    if owner in TOL_FLOAT32_CLASSES:        # defined by a class working on float32 distance kernels
        return TOL_FLOAT32_CLASSES[owner]
    return TOL_DEFAULT


# --------------------------------------------------------------------------- arguments by parameter name

class LOOP:       # sentinel: evaluate for every node
    pass


def _lists(o, inp, which):
    return list(inp["lists"][which])


PROVIDERS = {
    # name: (variants when optional, variants when required); a variant = (tag, fn(obj, inp) -> value)
    "key": [("[key]", lambda o, i: KEY)],
    "link_attribute": [("[la]", lambda o, i: KEY)],
    "attribute_name": [("", lambda o, i: KEY)],
    "typical_weight": [("[tw]", lambda o, i: TW)],
    "n_bins": [("", lambda o, i: 3)],
    "order": [("[3]", lambda o, i: 3), ("[4]", lambda o, i: 4), ("[5]", lambda o, i: 5)],
    "geometry_corrected": [("[gc]", lambda o, i: True)],
    "grid_type": [("[spherical]", lambda o, i: "spherical")],
    "direction": [("[in]", lambda o, i: "in")],
    "alpha": [("[alpha]", lambda o, i: 0.3)],
    "exclude_neighbors": [("[incl]", lambda o, i: False)],
    "stopping_mode": [("[twinness]", lambda o, i: "twinness")],
    "add_local_ends": [("[ale]", lambda o, i: True)],
    "metric": [("[sup]", lambda o, i: "supremum"), ("[euc]", lambda o, i: "euclidean"),
               ("[man]", lambda o, i: "manhattan")],
    "dimension": [("[0]", lambda o, i: 0), ("[1]", lambda o, i: 1)],
    "sequence": [("", lambda o, i: np.array(o.degree(), dtype=float))],
    "other_network": [("", lambda o, i: _other(i))],
    "node_list1": [("", lambda o, i: _lists(o, i, 0))],
    "node_list2": [("", lambda o, i: _lists(o, i, 1))],
    "node_list": [("[l1]", lambda o, i: _lists(o, i, 0)), ("[l2]", lambda o, i: _lists(o, i, 1))],
    "sources": [("[st]", lambda o, i: _lists(o, i, 0))],
    "targets": [("", lambda o, i: _lists(o, i, 1))],
}
# optional parameters that are left at their default (no variant)
LEAVE_DEFAULT = {"estimate", "replace_inf_by", "directed", "only_connected", "use_directed", "nsi",
                 "parallelize", "interval", "lag", "normalize", "l_min", "v_min", "w_min", "min_dist"}


def _other(inp):
    from pyunicorn.core import Network
    return Network(adjacency=np.array(inp["other_A"], dtype=np.int8), directed=bool(inp.get("directed")),
                   silence_level=3)


class Call:
    def __init__(self, name, method, owner, kw, loop, is_prop=False):
        self.name, self.method, self.owner, self.kw, self.loop, self.is_prop = \
            name, method, owner, kw, loop, is_prop


def owner_of(cls, name):
    for c in cls.__mro__:
        if name in c.__dict__:
            return c.__name__
    return cls.__name__


# which defining classes are evaluated for which class (inherited Network code is the same code;
# it is re-run on GeoNetwork and RecurrenceNetwork objects, whose weights / adjacency come from
# coordinates / state vectors, and skipped for the others to keep the budget)
OWNERS = {"InteractingNetworks": {"InteractingNetworks"}, "SpatialNetwork": {"SpatialNetwork"},
          "ResNetwork": {"ResNetwork"}}


def make_plan(cls):
    """Discover the measures of a class.  Returns (calls, notes)."""
    calls, notes = [], []
    for name in sorted(dir(cls)):
        if name.startswith("_"):
            continue
        if cls.__name__ in OWNERS and owner_of(cls, name) not in OWNERS[cls.__name__]:
            continue
        static = inspect.getattr_static(cls, name)
        if isinstance(static, (staticmethod, classmethod)):
            continue
        if isinstance(static, property):
            if name in PROPERTIES:
                calls.append(Call(name, name, owner_of(cls, name), [], [], is_prop=True))
            continue
        attr = getattr(cls, name)
        if not callable(attr):
            continue
        if name in SKIP:
            notes.append("%s.%s: %s" % (cls.__name__, name, SKIP[name]))
            continue
        try:
            params = [p for p in inspect.signature(attr).parameters.values() if p.name != "self"]
        except (TypeError, ValueError):
            notes.append("%s.%s: no signature" % (cls.__name__, name))
            continue
        per_param, loop, ok = [], [], True
        for p in params:
            if p.kind in (p.VAR_POSITIONAL, p.VAR_KEYWORD):
                continue
            required = p.default is inspect.Parameter.empty
            if p.name in NODE_PARAMS and required:
                loop.append(p.name)
                continue
            prov = PROVIDERS.get(p.name)
            if required:
                if prov is None:
                    ok = False
                    notes.append("%s.%s: NOT COVERED - required parameter '%s' has no provider"
                                 % (cls.__name__, name, p.name))
                    break
                per_param.append([(p.name, t, f) for t, f in prov])
            elif prov is not None and p.name not in LEAVE_DEFAULT:
                per_param.append([None] + [(p.name, t, f) for t, f in prov])
        if not ok:
            continue
        combos = list(itertools.product(*per_param)) if per_param else [()]
        # sources/targets only together
        keep = []
        for c in combos:
            names = {x[0] for x in c if x}
            if ("sources" in names) != ("targets" in names):
                continue
            keep.append(c)
        for c in keep[:MAX_VARIANTS]:
            tag = "".join(x[1] for x in c if x)
            kw = [(x[0], x[2]) for x in c if x]
            calls.append(Call(name + tag, name, owner_of(cls, name), kw, loop))
    return calls, notes


# --------------------------------------------------------------------------- evaluation

class Exc:
    def __init__(self, e):
        self.t = type(e).__name__
        self.msg = str(e)[:120]

    def __repr__(self):
        return "raised %s(%s)" % (self.t, self.msg)


def normalise(r):
    import scipy.sparse as sp
    from pyunicorn.core import Network
    if isinstance(r, Network):
        return {"adjacency": np.array(r.adjacency, dtype=float),
                "node_weights": np.array(r.node_weights, dtype=float),
                "directed": np.array(float(r.directed))}
    if sp.issparse(r):
        return np.array(r.toarray(), dtype=float)
    if isinstance(r, dict):
        return {str(k): normalise(v) for k, v in r.items()}
    if isinstance(r, (tuple, list)):
        try:
            a = np.array(r, dtype=float)
            if a.dtype != object:
                return a
        except (ValueError, TypeError):
            pass
        return [normalise(x) for x in r]
    if r is None or isinstance(r, str):
        return r
    if np.iscomplexobj(r):
        a = np.asarray(r)
        return {"re": a.real.astype(float), "im": a.imag.astype(float)}
    try:
        return np.array(r, dtype=float)
    except (ValueError, TypeError):
        return repr(r)


def spectral_gap(M):
    """Relative gap between the two largest eigenvalues of a symmetric matrix (dense, LAPACK)."""
    ev = np.linalg.eigvalsh(np.asarray(M, dtype=float))
    if len(ev) < 2 or ev[-1] <= 0:
        return 0.0
    return float((ev[-1] - ev[-2]) / ev[-1])


def applicable(call, inp, N, connected, gaps=None):
    if call.method in UNDIRECTED_ONLY and inp.get("directed"):
        return False
    if call.method in CONNECTED_ONLY and not connected:
        return False
    if call.method in CONNECTED_ONLY and gaps is not None and gaps.get(call.method, 1.0) < 3e-3:
        return False
    if call.method in SLOW and N > SLOW[call.method]:
        return False
    return True


def evaluate(obj, inp, calls, N, connected, gaps=None):
    out = {}
    for c in calls:
        if not applicable(c, inp, N, connected, gaps):
            continue
        try:
            with quiet():
                if c.is_prop:
                    r = getattr(obj, c.method)
                else:
                    kw = {k: f(obj, inp) for k, f in c.kw}
                    fn = getattr(obj, c.method)
                    if not c.loop:
                        r = fn(**kw)
                    elif len(c.loop) == 1:
                        r = [fn(**dict(kw, **{c.loop[0]: k})) for k in range(N)]
                    else:
                        r = [[fn(**dict(kw, **{c.loop[0]: k, c.loop[1]: l})) for l in range(N)]
                             for k in range(N)]
            r = normalise(r)
        except BaseException as e:
            if isinstance(e, KeyboardInterrupt):
                raise
            r = Exc(e)
        out[c.name] = r
    return out


def _close(a, b, rtol):
    if a.shape != b.shape:
        return False
    fin = np.isfinite(a)
    scale = float(np.max(np.abs(a[fin]))) if fin.any() else 1.0
    return bool(np.allclose(a, b, rtol=rtol, atol=rtol * max(1.0, scale), equal_nan=True))


def compare(r0, r1, perm, N, force_global, rtol, edges=False):
    """None if the contract holds, else a text."""
    if isinstance(r0, Exc) or isinstance(r1, Exc):
        if isinstance(r0, Exc) and isinstance(r1, Exc) and r0.t == r1.t:
            return None
        return "old numbering: %r ; new numbering: %r" % (r0, r1)
    if type(r0) is not type(r1):
        return "result types differ: %s vs %s" % (type(r0).__name__, type(r1).__name__)
    if isinstance(r0, dict):
        if sorted(r0) != sorted(r1):
            return "keys differ: %s vs %s" % (sorted(r0), sorted(r1))
        for k in r0:
            msg = compare(r0[k], r1[k], perm, N, force_global, rtol)
            if msg:
                return "[%s] %s" % (k, msg)
        return None
    if isinstance(r0, list):
        if len(r0) != len(r1):
            return "lengths differ"
        for k, (x, y) in enumerate(zip(r0, r1)):
            msg = compare(x, y, perm, N, force_global, rtol)
            if msg:
                return "[%d] %s" % (k, msg)
        return None
    if r0 is None or isinstance(r0, str):
        return None if r0 == r1 else "%r vs %r" % (r0, r1)
    if edges:
        inv = {int(i): k for k, i in enumerate(perm)}
        e0 = sorted((inv[int(i)], inv[int(j)]) for i, j in r0.reshape(-1, 2))
        e1 = sorted((int(i), int(j)) for i, j in r1.reshape(-1, 2))
        return None if e0 == e1 else "renumbered edges %s ; got %s" % (e0, e1)
    exp = r0
    kind = "global"
    if not force_global and r0.ndim >= 1 and r0.shape[0] == N and N > 1:
        if r0.ndim >= 2 and r0.shape[1] == N:
            exp = r0[np.ix_(perm, perm)]
            kind = "per-pair"
        else:
            exp = r0[perm]
            kind = "per-node"
    elif not force_global and r0.ndim == 2 and r0.shape[1] == N and N > 1:
        exp = r0[:, perm]                  # [dim, node] layouts (Grid.grid()['space'])
        kind = "per-node (axis 1)"
    if _close(exp, r1, rtol):
        return None
    return "%s: expected %s ; new numbering gives %s" % (kind, np.round(exp, 12).tolist(),
                                                          np.round(r1, 12).tolist())


def is_connected(A):
    A = np.asarray(A)
    n = len(A)
    S = ((A + A.T) > 0)
    seen, stack = {0}, [0]
    while stack:
        i = stack.pop()
        for j in range(n):
            if S[i, j] and j not in seen:
                seen.add(j)
                stack.append(j)
    return len(seen) == n


# Clause names.  `relabel` = undirected input, `relabel-directed` = directed input (kept apart because
# several igraph-backed measures are only numbering-independent on undirected graphs, see
# DIRECTED_FRAGILE), plus two input classes on which the current code is known to depend on the
# numbering (final report / known findings).
DIRECTED_FRAGILE = {
    "link_betweenness": "igraph's directed edge betweenness is written back with an undirected "
                        "i<j edge enumeration",
    "edge_betweenness": "alias of link_betweenness",
    "transitivity": "igraph transitivity_undirected on a directed graph with mutual links",
    "higher_order_transitivity": "order 3 = transitivity",
    "transitivity_dim_single_scale": "log of transitivity",
}


def classify(c, cls_name, inp, connected):
    if c.method == "nsi_arenas_betweenness" and "twinness" in c.name and not connected:
        return "relabel-disconnected-twinness"
    if c.owner == "GeoNetwork" and "distribution" in c.method:
        # geographical_distribution: the bin of the maximal element is int((n_bins-1)*(1/r)*r)
        return "relabel-binning"
    return "relabel-directed" if inp.get("directed") else "relabel"


NSI_HISTOGRAMS = ("nsi_degree_histogram", "nsi_degree_cumulative_histogram")


def on_bin_edge(obj0, c):
    """Guard used only after a mismatch of an n.s.i. degree histogram: is a value of the binned
    sequence (float sums, whose last bits depend on the summation order) on an interior bin edge, or
    k_max/k_min on an integer (the bin count int(k_max/k_min)+1 jumps there)?  Then the histogram is
    discontinuous at this input and the mismatch says nothing about numbering."""
    try:
        kw = {k: f(obj0, None) for k, f in c.kw}
        with quiet():
            k = np.array(obj0.nsi_degree(**kw), dtype=float)
        ratio = k.max() / k.min()
        if abs(ratio - round(ratio)) < 1e-6:
            return True
        edges = np.linspace(k.min(), k.max(), int(ratio) + 2)[1:-1]
        scale = max(1.0, float(np.abs(k).max()))
        return bool((np.abs(k[:, None] - edges[None, :]) < 1e-9 * scale).any())
    except BaseException as e:
        if isinstance(e, KeyboardInterrupt):
            raise
        return False


_PLANS = {}


def plan(cls_name):
    if cls_name not in _PLANS:
        _PLANS[cls_name] = make_plan(get_class(cls_name))
    return _PLANS[cls_name]


def run_group(group):
    """group = {inp, perms: [...]}: evaluate on the old numbering once and on every relabelling."""
    inp = group["inp"]
    cls_name = inp["cls"]
    calls, _ = plan(cls_name)
    N = n_nodes(inp)
    res = {"evals": 0, "failures": [], "names": set(), "cases": []}
    with quiet():
        obj0 = build(inp)
    A0 = np.array(obj0.adjacency) if hasattr(obj0, "adjacency") else np.ones((N, N))
    connected = is_connected(A0)
    gaps = None
    if connected and not inp.get("directed") and hasattr(obj0, "node_weights") and N <= 64:
        sw = np.sqrt(np.array(obj0.node_weights, dtype=float))
        gaps = {"eigenvector_centrality": spectral_gap(A0),
                "nsi_eigenvector_centrality": spectral_gap(sw[:, None] * (A0 + np.eye(N)) * sw[None, :])}
    base = evaluate(obj0, inp, calls, N, connected, gaps)
    res["edge"] = 0
    nontrivial_graph = bool(A0.sum() > 0)
    for perm in group["perms"]:
        perm = [int(x) for x in perm]
        identity = perm == list(range(N))
        res["cases"].append((json.dumps([cls_name, inp.get("A"), inp.get("w"), inp.get("series"),
                                         inp.get("lat"), inp.get("space"), inp.get("lists"), perm]),
                             nontrivial_graph and not identity))
        inp1 = relabel(inp, perm)
        with quiet():
            obj1 = build(inp1)
        got = evaluate(obj1, inp1, calls, N, connected, gaps)
        p = np.array(perm)
        for c in calls:
            if c.name not in base:
                continue
            res["evals"] += 1
            res["names"].add(c.name)
            msg = compare(base[c.name], got[c.name], p, N, bool(FORCE_GLOBAL.search(c.method)),
                          tolerance(cls_name, c.owner, c.method), edges=(c.method == "edge_list"))
            if msg is not None and c.method in NSI_HISTOGRAMS and on_bin_edge(obj0, c):
                res["edge"] += 1
                continue
            if msg is not None:
                clause = classify(c, cls_name, inp, connected)
                if isinstance(base[c.name], Exc) != isinstance(got[c.name], Exc):
                    clause += "-raises"
                chk = "%s.%s/%s" % (cls_name, c.name, clause)
                wit = dict(inp)
                wit.update({"perm": perm, "check": chk})
                res["failures"].append((chk, jsonable(wit), msg))
        # cross-check permuted_copy (Network family only; it drops link attributes by design)
        if hasattr(obj0, "permuted_copy") and cls_name in ("Network", "InteractingNetworks"):
            res["evals"] += 2
            try:
                with quiet():
                    pc = obj0.permuted_copy(perm)
                if (np.array(pc.adjacency) != np.array(inp1["A"])).any() or pc.directed != obj0.directed:
                    wit = dict(inp)
                    wit.update({"perm": perm, "check": "permuted_copy/adjacency"})
                    res["failures"].append(("permuted_copy/adjacency", jsonable(wit),
                                            "library %s ; definition %s" % (pc.adjacency.tolist(), inp1["A"])))
                if not _close(np.array(inp1["w"], dtype=float), np.array(pc.node_weights, dtype=float), 1e-15):
                    wit = dict(inp)
                    wit.update({"perm": perm, "check": "permuted_copy/node_weights"})
                    res["failures"].append(("permuted_copy/node_weights", jsonable(wit),
                                            "library %s ; definition %s" % (pc.node_weights.tolist(), inp1["w"])))
            except BaseException as e:
                if isinstance(e, KeyboardInterrupt):
                    raise
                wit = dict(inp)
                wit.update({"perm": perm, "check": "permuted_copy/raises"})
                res["failures"].append(("permuted_copy/raises", jsonable(wit), repr(e)))
    return res


# --------------------------------------------------------------------------- inputs

def graph_from_bits(n, bits, directed):
    A = np.zeros((n, n), dtype=np.int8)
    pairs = ([(i, j) for i in range(n) for j in range(n) if i != j] if directed
             else list(itertools.combinations(range(n), 2)))
    for b, (i, j) in enumerate(pairs):
        if bits >> b & 1:
            A[i, j] = 1
            if not directed:
                A[j, i] = 1
    return A


def iso_classes(n, directed):
    """One labelled representative (smallest code) of every isomorphism class on n nodes."""
    pairs = ([(i, j) for i in range(n) for j in range(n) if i != j] if directed
             else list(itertools.combinations(range(n), 2)))
    index = {p: b for b, p in enumerate(pairs)}
    perms = list(itertools.permutations(range(n)))
    # for each permutation: where does bit b go
    maps = []
    for pm in perms:
        mp_ = []
        for (i, j) in pairs:
            a, b = pm[i], pm[j]
            if not directed and a > b:
                a, b = b, a
            mp_.append(index[(a, b)])
        maps.append(mp_)
    seen, reps = set(), []
    for bits in range(1 << len(pairs)):
        if bits in seen:
            continue
        reps.append(bits)
        on = [b for b in range(len(pairs)) if bits >> b & 1]
        for mp_ in maps:
            code = 0
            for b in on:
                code |= 1 << mp_[b]
            seen.add(code)
    return reps


def link_weights(rng, A, directed):
    n = len(A)
    W = rng.uniform(0.3, 3.0, size=(n, n))
    if not directed:
        W = np.triu(W, 1)
        W = W + W.T
    return W * (np.asarray(A) != 0)


def random_bipartition(rng, n):
    while True:
        mask = rng.randint(0, 2, size=n)
        if 0 < mask.sum() < n:
            return [[int(i) for i in range(n) if mask[i]], [int(i) for i in range(n) if not mask[i]]]


def net_input(rng, cls, A, directed):
    n = len(A)
    grid = bool(rng.randint(2))
    w = rng.choice([0.5, 1.0, 1.5, 2.0, 3.0], size=n) if grid else rng.uniform(0.2, 3.0, size=n)
    other = random_graph(rng, n, 0.5, directed)
    return {"cls": cls, "A": np.asarray(A).tolist(), "directed": bool(directed),
            "w": [float(x) for x in w], "attrs": {KEY: link_weights(rng, A, directed).tolist()},
            "lists": random_bipartition(rng, n), "other_A": other.tolist()}


def geo_coords(rng, n):
    lat = rng.uniform(-80, 80, size=n)
    lon = rng.uniform(-170, 170, size=n)
    return [float(x) for x in lat], [float(x) for x in lon]


def connected_graph(rng, n, p):
    while True:
        A = random_graph(rng, n, p, False)
        if is_connected(A) and A.sum(axis=0).min() > 0:
            return A


def some_perms(rng, n, k, all_if_leq):
    if n <= all_if_leq:
        return [list(p) for p in itertools.permutations(range(n))]
    out = [list(range(n))[::-1]]
    # a transposition of the last node (kernels special-casing the last row/column) and random ones
    t = list(range(n))
    j = int(rng.randint(n - 1))
    t[j], t[n - 1] = t[n - 1], t[j]
    out.append(t)
    while len(out) < k:
        out.append([int(x) for x in rng.permutation(n)])
    return out[:k]


STRUCTURED = ["path", "star", "cycle", "complete", "twins", "two_components", "visibility"]


def structured_graph(rng, kind, n):
    A = np.zeros((n, n), dtype=np.int8)
    if kind == "path":
        for i in range(n - 1):
            A[i, i + 1] = A[i + 1, i] = 1
    elif kind == "star":
        A[0, 1:] = 1
        A[1:, 0] = 1
    elif kind == "cycle":
        for i in range(n):
            A[i, (i + 1) % n] = A[(i + 1) % n, i] = 1
    elif kind == "complete":
        A[:] = 1
        np.fill_diagonal(A, 0)
    elif kind == "twins":          # the last node has an exact twin
        A = random_graph(rng, n, 0.5, False)
        A[n - 1, :] = A[n - 2, :]
        A[:, n - 1] = A[:, n - 2]
        A[n - 1, n - 2] = A[n - 2, n - 1] = 1
        A[n - 1, n - 1] = A[n - 2, n - 2] = 0
    elif kind == "two_components":
        h = n // 2
        A[:h, :h] = random_graph(rng, h, 0.7, False)
        A[h:, h:] = random_graph(rng, n - h, 0.7, False)
    elif kind == "visibility":
        from pyunicorn.timeseries import VisibilityGraph
        with quiet():
            A = np.array(VisibilityGraph(rng.uniform(size=n), silence_level=3).adjacency, dtype=np.int8)
    return A


def gen_groups(tier, seed):
    rng = np.random.RandomState(seed)
    quick = tier == "quick"
    groups = []
    # 1. exhaustive small graphs: one representative per isomorphism class x all n! relabellings
    #    (equivalent to all labelled graphs x all relabellings, because every labelled graph is a
    #    relabelling of its class representative)
    for directed, nmax in ((False, 5), (True, 4)):
        for n in range(2, nmax + 1):
            reps = iso_classes(n, directed)
            top = n == nmax
            allperms = [list(p) for p in itertools.permutations(range(n))]
            for bits in reps:
                A = graph_from_bits(n, bits, directed)
                perms = allperms
                if quick and top:
                    idx = rng.choice(len(allperms), size=3 if not directed else 1, replace=False)
                    perms = [allperms[i] for i in idx]
                inp = net_input(rng, "Network", A, directed)
                for c in range(0, len(perms), 12):       # chunks keep the workers balanced
                    groups.append({"inp": inp, "perms": perms[c:c + 12]})
                # InteractingNetworks: every ordered bipartition as (node_list1, node_list2)
                parts = [[[i for i in range(n) if m >> i & 1], [i for i in range(n) if not m >> i & 1]]
                         for m in range(1, (1 << n) - 1)]
                base = net_input(rng, "InteractingNetworks", A, directed)
                if top:
                    # largest size: all relabellings (quick: a sample), bipartitions cycled over them
                    order = rng.permutation(len(parts))
                    for k, c in enumerate(range(0, len(perms), 6)):
                        inp2 = dict(base)
                        inp2["lists"] = parts[int(order[k % len(parts)])]
                        groups.append({"inp": inp2, "perms": perms[c:c + 6]})
                else:
                    for lists in parts:
                        inp2 = dict(base)
                        inp2["lists"] = lists
                        ps = allperms
                        if quick and len(allperms) > 6:
                            idx = rng.choice(len(allperms), size=4, replace=False)
                            ps = [allperms[i] for i in idx]
                        groups.append({"inp": inp2, "perms": ps})
    # 2. structured and random larger graphs, random relabellings
    nrand = 16 if quick else 120
    for t in range(nrand):
        directed = bool(t % 3 == 2)
        n = int(rng.randint(6, 15 if quick else 31))
        A = random_graph(rng, n, float(rng.choice([0.1, 0.25, 0.5, 0.8])), directed)
        for cls in ("Network", "InteractingNetworks"):
            groups.append({"inp": net_input(rng, cls, A, directed),
                           "perms": some_perms(rng, n, 3 if quick else 4, 0)})
    for kind in STRUCTURED:
        for rep in range(1 if quick else 4):
            n = int(rng.randint(6, 12))
            A = structured_graph(rng, kind, n)
            for cls in ("Network", "InteractingNetworks"):
                groups.append({"inp": net_input(rng, cls, A, False),
                               "perms": some_perms(rng, n, 3 if quick else 5, 0)})
    # 3. spatially embedded networks, grids
    for t in range(6 if quick else 40):
        n = int(rng.randint(4, 10 if quick else 16))
        directed = bool(t % 3 == 2)
        A = random_graph(rng, n, 0.5, directed)
        lat, lon = geo_coords(rng, n)
        base = net_input(rng, "GeoNetwork", A, directed)
        base.update({"lat": lat, "lon": lon, "nwt": [None, "surface", "irrigation"][t % 3]})
        groups.append({"inp": base, "perms": some_perms(rng, n, 2 if quick else 4, 4 if quick else 5)})
        sp_ = dict(base)
        sp_.update({"cls": "SpatialNetwork",
                    "space": [[float(x) for x in rng.uniform(-5, 5, size=n)] for _ in range(2)]})
        groups.append({"inp": sp_, "perms": some_perms(rng, n, 2 if quick else 4, 4 if quick else 5)})
        if t % 2 == 0:
            groups.append({"inp": {"cls": "GeoGrid", "lat": lat, "lon": lon},
                           "perms": some_perms(rng, n, 2, 3)})
            groups.append({"inp": {"cls": "Grid", "space": sp_["space"]}, "perms": some_perms(rng, n, 2, 3)})
    # 4. resistive networks (connected, positive symmetric resistances)
    for t in range(6 if quick else 40):
        n = int(rng.randint(3, 9 if quick else 13))
        A = connected_graph(rng, n, 0.5)
        R = rng.uniform(0.5, 10.0, size=(n, n))
        R = np.triu(R, 1)
        R = (R + R.T) * A
        lat, lon = geo_coords(rng, n)
        base = net_input(rng, "ResNetwork", A, False)
        base.update({"lat": lat, "lon": lon, "nwt": [None, "surface"][t % 2], "resist": R.tolist()})
        groups.append({"inp": base, "perms": some_perms(rng, n, 2 if quick else 4, 4 if quick else 5)})
    # 5. recurrence networks of unembedded state vectors (a renumbering of the states)
    for t in range(8 if quick else 40):
        variant = t % 4
        for attempt in range(50):
            n = int(rng.randint(6, 12 if quick else 20))
            d = int(rng.randint(1, 4))
            X = rng.normal(size=(n, d))
            if (t // 4) % 2 == 1:
                X = rng.randint(0, 3, size=(n, d)).astype(float)       # lattice points: many tied distances
            thr = [{"threshold": 1.0}, {"recurrence_rate": 0.3}, {"local_recurrence_rate": 0.3},
                   {"recurrence_rate": 0.7}][variant]
            inp = {"cls": "RecurrenceNetwork", "series": X.tolist(),
                   "rn": {"metric": ["supremum", "euclidean", "manhattan"][(t // 4) % 3], "thr": thr},
                   "w": [float(x) for x in rng.uniform(0.2, 3.0, size=n)],
                   "attrs": {KEY: (lambda U: ((U + U.T) / 2).tolist())(rng.uniform(0.3, 3.0, size=(n, n)))},
                   "lists": random_bipartition(rng, n),
                   "other_A": random_graph(rng, n, 0.5, "local_recurrence_rate" in thr).tolist(),
                   "directed": "local_recurrence_rate" in thr}
            if variant != 3:
                break
            with quiet():                      # the dense variant must be connected (eigenvector c.)
                if is_connected(np.array(build(inp).adjacency)):
                    break
        groups.append({"inp": inp, "perms": some_perms(rng, n, 2 if quick else 4, 0)})
    return groups


def _work(chunk):
    out = []
    for group in chunk:
        try:
            r = run_group(group)
            out.append((r["evals"], r["failures"], sorted(r["names"]), r["cases"], None, r.get("edge", 0)))
        except BaseException as e:
            if isinstance(e, KeyboardInterrupt):
                raise
            out.append((0, [], [], [], "%s: %s" % (group["inp"]["cls"], traceback.format_exc()[-900:]), 0))
    return out


CLASSES = ["Network", "InteractingNetworks", "SpatialNetwork", "GeoNetwork", "ResNetwork",
           "RecurrenceNetwork", "Grid", "GeoGrid"]

SCOPE = (
    "Real code, harness-made relabellings of adjacency, node weights, link attribute 'lw', "
    "coordinates, resistances, state vectors and node lists. Exhaustive: one representative of every "
    "isomorphism class of simple undirected graphs with n<=5 and directed graphs with n<=4 under all "
    "n! relabellings (thorough; quick: all n! for undirected n<=4 / directed n<=3, 3 resp. 1 random "
    "relabellings per class for n=5 / directed n=4) - every labelled graph is a relabelling of its "
    "class representative, so this covers all labelled graphs x all permutations - for Network "
    "(random bipartition as sources / targets) and InteractingNetworks (every ordered bipartition as "
    "node lists for undirected n<=4 / directed n<=3, bipartitions cycled over the relabellings for the "
    "largest size). Plus seeded random "
    "graphs with 6..14 (thorough ..30) nodes and structured graphs (path, star, cycle, complete, "
    "last node with an exact twin, two components, a visibility graph) under the reversal, a "
    "transposition involving the last node and random permutations; GeoNetwork / SpatialNetwork / "
    "GeoGrid / Grid with random coordinates (coordinates renumbered), ResNetwork with random symmetric "
    "resistances on connected graphs and an explicit GeoGrid, RecurrenceNetwork built from unembedded "
    "1-3 dimensional state vectors (rows renumbered; fixed threshold, recurrence rate, local "
    "recurrence rate; three metrics). Measures: every public instance method / listed property found "
    "by introspection that is not on the skip list (see 'skipped'), with argument variants chosen by "
    "parameter name (key, link_attribute, typical_weight, node lists, sources/targets, n_bins, order, "
    "direction, geometry_corrected, ...; node arguments a,b,i are looped over all nodes). Tolerances: "
    "1e-9 relative for float64 measures (atol 1e-9*max|value|); 1e-7 LU/inverse/pagerank/dense eigen; "
    "1e-4 ARPACK eigenvector centralities (tol 1e-8 in shift-invert mode; connected undirected inputs "
    "with relative spectral gap >= 3e-3 only); 1e-5 for methods defined by "
    "the spatial/geo/resistive/grid classes (float32 distance kernels), 1e-4 for the float32 "
    "current-flow kernels; 1e-6 RecurrenceNetwork's own methods (float32 distances).")
RULE = (
    "One evaluation = one (measure variant, input, permutation) comparison or one permuted_copy "
    "clause. A case = (class, input, permutation); distinct by that tuple, counted non-trivial when "
    "the graph has at least one link and the permutation is not the identity.")


def notes_for_report(rep):
    for cls_name in CLASSES:
        _, notes = plan(cls_name)
        for n in notes:
            if "NOT COVERED" in n:
                rep.skip(n)
    rep.skip("skip list (non-measures): " + "; ".join(
        "%s (%s)" % (k, v) for k, v in sorted(SKIP.items()) if k not in TIME_ORDER))
    rep.skip("RecurrenceNetwork: %s are %s - not relabelling-invariant by definition; the network "
             "measures and recurrence_rate / recurrence_matrix / distance_matrix are covered on "
             "unembedded state vectors" % (", ".join(TIME_ORDER), SKIP[TIME_ORDER[0]]))
    rep.skip("VisibilityGraph: node number = time index is part of the definition (visibility needs "
             "increasing timings; retarded/advanced measures compare node numbers), so reordering the "
             "samples is a different input, not a relabelling; its inherited Network measures are "
             "covered by feeding a visibility-graph adjacency to Network/InteractingNetworks")
    rep.skip("not run on directed networks: " + "; ".join(
        "%s (%s)" % (k, v) for k, v in sorted(UNDIRECTED_ONLY.items())))
    rep.skip("clause 'relabel-directed' = same contract on a directed input; known numbering-dependent "
             "there: " + "; ".join("%s (%s)" % (k, v) for k, v in sorted(DIRECTED_FRAGILE.items())))
    rep.skip("clause 'relabel-disconnected-twinness': nsi_arenas_betweenness(stopping_mode='twinness') "
             "indexes the whole network's twinness matrix with component-local indices; clause "
             "'relabel-binning': GeoNetwork.geographical_distribution bins the maximal element by "
             "int((n_bins-1)*scaling*(max-min)) in float32, which is n_bins-1 or n_bins-2 by rounding")
    rep.skip("eigenvector centralities on disconnected networks: dominant eigenvector not unique")
    rep.skip("static/class methods (generators, Load, helpers) are not instance measures; "
             "size limits for slow measures: %s" % json.dumps(SLOW, sort_keys=True))


def emit_failures(rep, failures):
    """Report.failures is capped; emit round-robin over the check names so that every distinct
    check gets a stored witness before any check gets its second one."""
    by = {}
    for f in failures:
        by.setdefault(f[0], []).append(f)
    depth = 0
    while True:
        row = [by[k][depth] for k in sorted(by) if len(by[k]) > depth]
        if not row:
            break
        for check, w_, detail in row:
            if depth < 3:
                rep.fail(check, w_, detail)
            else:                       # only counted
                rep.nfail += 1
                rep.by_check[check] = rep.by_check.get(check, 0) + 1
        depth += 1


def main():
    args = parse_args()
    rep = Report(PROP, args, SCOPE, RULE)
    try:
        import pyunicorn.core  # noqa: F401
        for c in CLASSES:
            plan(c)
    except Exception:
        traceback.print_exc()
        sys.exit(3)
    if args.replay:
        with open(args.replay) as f:
            wit = json.load(f)["witness"]
        perm = wit["perm"]
        inp = {k: v for k, v in wit.items() if k not in ("perm", "check")}
        r = run_group({"inp": inp, "perms": [perm]})
        rep.evaluations += r["evals"]
        for key, nontriv in r["cases"]:
            if nontriv:
                rep.nontrivial.add(key)
        rep.samples.append(jsonable({"inp": inp, "perm": perm}))
        for check, w_, detail in r["failures"]:
            rep.fail(check, w_, detail)
        rep.finish()
        return

    notes_for_report(rep)
    groups = gen_groups(args.tier, args.seed)
    order = np.random.RandomState(12345).permutation(len(groups))      # balance the chunks
    groups = [groups[i] for i in order]
    nchunks = N_WORKERS * 16
    chunks = [groups[i::nchunks] for i in range(nchunks)]
    chunks = [c for c in chunks if c]
    with mp.get_context("fork").Pool(N_WORKERS) as pool:
        results = pool.map(_work, chunks, chunksize=1)
    names = {}
    herr = []
    allfail = []
    nedge = 0
    for chunk, outs in zip(chunks, results):
        for group, (evals, failures, nm, cases, err, edge) in zip(chunk, outs):
            nedge += edge
            if err:
                herr.append(err)
                continue
            rep.evaluations += evals
            for key, nontriv in cases:
                if nontriv:
                    rep.nontrivial.add(key)
            cls_name = group["inp"]["cls"]
            names.setdefault(cls_name, set()).update(nm)
            if len(rep.samples) < 8 and n_nodes(group["inp"]) <= 6 and \
                    cls_name not in [s["inp"]["cls"] for s in rep.samples]:
                rep.samples.append(jsonable({"inp": group["inp"], "perm": group["perms"][0]}))
            allfail.extend(failures)
    for cls_name in CLASSES:
        calls, _ = plan(cls_name)
        missing = sorted({c.name for c in calls} - names.get(cls_name, set()))
        if missing:
            allfail.append(("coverage/never-evaluated", {"class": cls_name, "measures": missing},
                            "discovered but never evaluated: %s %s" % (cls_name, missing)))
    emit_failures(rep, allfail)
    if nedge:
        rep.skip("%d n.s.i. degree histogram comparisons left out: a value on a bin edge / k_max/k_min on "
                 "an integer (see on_bin_edge)" % nedge)
    if herr:
        sys.stderr.write(herr[0] + "\n")
        rep.failures.insert(0, {"check": "harness/error", "witness": {"n": len(herr)}, "detail": herr[0][-600:]})
        rep.nfail += 1
        rep.by_check["harness/error"] = len(herr)
    rep.finish()
    if herr and len(herr) == len(groups):
        sys.exit(3)


if __name__ == "__main__":
    main()
