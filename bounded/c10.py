#!/usr/bin/env python
"""Bounded stand-in for property C10: similarity and coupling estimates equal reference
statistics.

Runs the real pyunicorn estimators on enumerated and seeded data sets and compares every
output with the definition-level float64 references in specs/stats_spec.py.

    cd /verif && PYTHONPATH=/verif .venv/bin/python bounded/c10.py --tier quick --seed 0 \
        --out /tmp/c10.json

Tolerance (results are stored in float32, the cross-correlation input is standardised in
float32):  |lib - ref| <= 5e-6 + 1e-5 |ref|  ("TOL32").  Library-vs-library relations
(symmetry, affine map, permutation, max-vs-all mode) use twice that.  Gaussian MI / information
transfer are accepted when they meet TOL32 either on the information scale or, because
-1/2 log(1 - r^2) is ill-conditioned at |r| -> 1, on the |r| scale.

Affine-offset families (second round; checks "<existing name>@affine"): the same family functions
are run on float64 series a*x + b per column, |a| in [1e-3, 1e3], |b| up to 1e7 (both signs).
The reference statistics are affine invariant; the moment-based ones are evaluated on the data
centred in extended precision (centre_like), rank / quantile-bin ones on the data themselves, the
climate classes from the harness' own phase-mean removal (own_anomaly) and the Surrogates test
matrices from the harness' own normalisation, so that no step of the library's pipeline
(observable -> anomaly / standardisation -> single-precision kernel) enters the oracle.
"""
import os
for _v in ("OMP_NUM_THREADS", "OPENBLAS_NUM_THREADS", "MKL_NUM_THREADS"):
    os.environ.setdefault(_v, "1")      # worker processes: no BLAS thread oversubscription

import itertools      # noqa: E402
import json           # noqa: E402
import math
import sys
import tempfile
import traceback

import numpy as np

from bounded.common import parse_args, Report, jsonable, quiet
from specs import stats_spec as S

PROP = "C10"
RTOL, ATOL = 1e-5, 5e-6

SCOPE = (
    "pyunicorn.funcnet.CouplingAnalysis (cross_correlation lag_mode max/all, mutual_information "
    "binning/gauss [knn: relations and bounds only], information_transfer gauss ity/mit past 1-2 "
    "lag_mode max/all [knn: relations only], symmetrize_by_absmax), CouplingAnalysisPurePython "
    "(cross_correlation all/max/sum, only_tri, mutual_information all/max, "
    "shuffled_surrogate_for_cc/_mi all/sum/max with the global RNG seeded) and its agreement with "
    "the compiled class (cross-correlation on the common window; binned MI at lag 0 with uniform "
    "marginals), TsonisClimateNetwork / SpearmanClimateNetwork / PartialCorrelationClimateNetwork "
    "/ MutualInfoClimateNetwork (calculate_similarity_measure(anomaly) signed and "
    "similarity_measure() = |.|, time_cycle 1/2 and 12 with winter_only, reference computed from "
    "the library's anomaly()) and Surrogates.test_pearson_correlation / test_mutual_information "
    "(off-diagonal; inputs normalised, once through Surrogates.normalize_original_data), against "
    "float64 NumPy / scipy.stats references (specs/stats_spec.py).  Exhaustive: all 729 T=3 "
    "(thorough: also all 6561 T=4; quick: 250 sampled) two-column series over a 3-letter alphabet "
    "with every admissible tau_max for cross-correlation (compiled + pure); all 2x2 value/lag "
    "matrices over 5 values x 5 lags and 300/2000 random 3x3 for symmetrize_by_absmax.  Seeded "
    "(6 / 100 repetitions x 9 kinds rand, ar, const, dup, anti, ties, lagcopy, sine, mixed x 5-6 "
    "shapes): T in 3..200 (thorough: to 1000 for cross-correlation and surrogate tests), N in "
    "2..8 incl. N > T, tau_max 0..min(6, T-3), bins in {2,3,4,6,8}, n_bins in {2,3,8,32} "
    "(climate MI: 32), knn k <= 8, each with one random per-column affine map and one column "
    "permutation.  Tolerance TOL32: |lib-ref| <= 5e-6 + 1e-5|ref| (results are float32); "
    "library-vs-library relations 2x TOL32 (partial correlation 4x); Gaussian MI / information "
    "transfer TOL32 on the information scale or 5e-6 on the |r| scale.  Not compared (reference "
    "undefined): statistics of a constant series (cross-correlation must return its documented "
    "0), Gaussian estimates with |r| >= 1-1e-9 or a regressed series that keeps < 1e-5 of its "
    "norm or exactly collinear conditioning series, partial correlation when the correlation matrix has condition number > 1e6 or "
    "T <= N+2, histogram-MI pairs with a value within 5e-5 (float32 kernel) / 1e-9 (float64 "
    "kernel) cell widths of a cell boundary, knn entries of identical series.  Known defect #18 "
    "(int8 lag) is probed in exactly one case (check cross_correlation/lag-int8-range).  Three "
    "further deviations have exactly one dedicated probe each: mutual_information/"
    "binning-lagged-norm, mutual_information/gauss-perfect-correlation, SpearmanClimateNetwork/"
    "ties-average-rank; elsewhere tau_max <= 6, binned MI with tau_max > 0 is accepted up to the "
    "factor (T-tau_max)/T, and Spearman is compared on tie-free anomaly series only.  "
    "Affine-offset families (checks '<name>@affine', 10 / 60 repetitions x 9 kinds [no constant "
    "column] x 3-4 shapes, T in 4..200 (thorough ..600), N in 2..6): float64 series a*x + b per "
    "column with |a| log-uniform in [1e-3, 1e3] and |b| in {1e3, 1e5, 1e6, 1e7} or log-uniform in "
    "[1, 1e7], both signs, i.e. offset/spread up to 1e10: cross_correlation all/max + "
    "symmetrize_by_absmax, CouplingAnalysisPurePython.cross_correlation all/max/sum/only_tri and "
    "its agreement with the compiled class, mutual_information binning/gauss all/max, "
    "pure mutual_information all/max, Surrogates.normalize_original_data -> test_pearson_"
    "correlation / test_mutual_information (reference from the harness' own normalisation) at the "
    "full offset range; information_transfer gauss ity/mit all/max and the four climate classes "
    "(cycle 1-3, and 12 with winter_only; reference from the harness' own phase-mean removal, "
    "library through ClimateData.anomaly and through similarity_measure()) with offset/spread "
    "|b|/|a| <= 1e8 (the library's float64 means per phase / near-degenerate regressions lose the "
    "single-precision accuracy beyond); shuffled_surrogate_for_cc/_mi with |b|/|a| <= 10 (that "
    "routine centres in float32).  All clauses of the base families (equality with the reference at "
    "TOL32, bounds |r| <= 1 + 2 ATOL, symmetry, max-vs-all, diagonal) apply.  Not compared in the "
    "affine families: entries whose window is constant (and every summary of such a data set), "
    "climate pairs involving a series whose anomaly spread is below 1e7 eps max|observable| or "
    "(Spearman) has two values closer than 64 eps max|observable|.  A series constant at a value "
    "whose float64 mean is not the value has one dedicated probe "
    "(cross_correlation/constant-series-inexact-mean, pure.cross_correlation/...).  "
    "Round 3, CouplingAnalysisPurePython: time_surrogate_for_cc / _mi in lag modes all/sum/max "
    "(sample_range = T - 2 tau_max: equals the statistic of cross_correlation / the documented "
    "normalised MI formula on equal-count bins, independent of the RNG; smaller sample_range: the "
    "statistic over np.random.permutation(range(tau_max, T - tau_max))[:sample_range] with the "
    "global RNG seeded), mutual_information_edges (every ceil(T/bins)-th order statistic of each "
    "series, data unchanged, and these bins reproduce mutual_information(tau_max=0)), "
    "correlatedNoiseSurrogates (same shape, real, |rfft| equal to the original's within 1e-9 of the "
    "largest amplitude, also on the second call that uses the cached FFT) and the fourier=True "
    "variants of shuffled_surrogate_for_cc / _mi (shape, bounds, symmetry, unit diagonal of "
    "non-constant series; MI only when bins divides the sample length and for pairs of non-constant "
    "series, looser bounds for the 'sine' kind whose surrogates can have tied values), 3-D and 4-D "
    "input arrays of both classes (estimates of the row-major flattened series): 200 sampled "
    "(thorough: all 6561) T=4 two-column series over {0,1,2} and 4 / 40 repetitions x 9 kinds x 4 "
    "shapes, T 5..120, N 2..12, tau_max 0..3, bins 1..T+3, even and odd T.  CouplingAnalysis."
    "test_data is only required to be a data set of the property's domain and is used as one more "
    "input (kind 'test_data') of the cc / ccpure / mi / it / mipure / nd families.  "
    "MutualInfoClimateNetwork file cache (family 'midump', checks MutualInfoClimateNetwork/dump-* and "
    "/set_winter_only-dump-*; 4 / 12 seeded data sets, T 36..120, N 3..6, time_cycle 12, winter_only "
    "on/off, each in its own temporary working directory): mutual_information(anomaly, dump=True) "
    "when it computes and stores, when it reads the file back (same arguments, no arguments, a second "
    "object on the same data), set_winter_only(flag) twice with the default dump=True while the file "
    "exists, and a second object with a different number of nodes finding a file of the wrong shape: "
    "every matrix returned or adopted equals the histogram MI (TOL32) of the anomaly series it was "
    "requested for, reloaded matrices equal the stored one exactly, the file exists after dump=True."
)
RULE = (
    "A case is (family, data descriptor, estimator arguments); data descriptors are explicit "
    "arrays (enumeration) or (kind, T, N, seed) fed to np.random.RandomState.  One evaluation = "
    "one library output compared with its spec clause group (counted per family call and "
    "estimator/lag mode).  A case is distinct by its JSON witness and counted non-trivial when "
    "the data have at least two columns that are not constant (so at least one off-diagonal "
    "statistic is defined); for symmetrize_by_absmax when some pair has |S_ij| != |S_ji|.  "
    "Affine-offset cases carry the per-column map in the data descriptor ('aff': a, b) and are "
    "evaluated by the same family functions; their check names end in '@affine'."
)


# =============================================================================== utilities

class Acc:
    """Per-case accumulator (picklable result for multiprocessing)."""

    def __init__(self, tag=""):
        self.cases = []      # (key, nontrivial, sample)
        self.fails = []      # (check, witness, detail)
        self.skips = []
        self.tag = tag       # suffix of every check name ("@affine" for the affine-offset families)

    def case(self, key, nontrivial=True, sample=None):
        self.cases.append((key, bool(nontrivial), sample))

    def fail(self, check, witness, detail):
        self.fails.append((check + self.tag, jsonable(witness), str(detail)[:600]))

    def skip(self, text):
        self.skips.append(text)


def tol_ok(lib, ref, mult=1.0):
    lib = np.asarray(lib, dtype=np.float64)
    ref = np.asarray(ref, dtype=np.float64)
    with np.errstate(all="ignore"):
        return np.abs(lib - ref) <= mult * (ATOL + RTOL * np.abs(ref))


def cmp_defined(lib, ref, mult=1.0, undefined="skip"):
    """Compare where ref is finite.  undefined: 'skip' | 'zero' (lib must be 0 or NaN there).
    Returns None or a text describing the worst offender."""
    lib = np.asarray(lib, dtype=np.float64)
    ref = np.asarray(ref, dtype=np.float64)
    if lib.shape != ref.shape:
        return f"shape {lib.shape} != {ref.shape}"
    bad = np.zeros(ref.shape, dtype=bool)
    fin = np.isfinite(ref)
    ok = tol_ok(lib, np.where(fin, ref, 0.0), mult)
    bad |= fin & ~ok
    inf = np.isinf(ref)
    bad |= inf & ~(lib == ref)
    if undefined == "zero":
        und = np.isnan(ref)
        bad |= und & ~(np.isnan(lib) | (lib == 0))
    if bad.any():
        idx = tuple(int(v) for v in np.argwhere(bad)[0])
        return (f"{int(bad.sum())} entries differ; first at {idx}: got {lib[idx]!r}, "
                f"expected {ref[idx]!r}")
    return None


def gauss_close(lib, ref_info, ref_r, mult=1.0):
    """TOL32 on the information scale or on the |r| scale; entries whose reference correlation
    is NaN or has |r| >= 1 - 1e-9 (infinite information, degenerate) are ignored."""
    lib = np.asarray(lib, dtype=np.float64)
    ref_info = np.asarray(ref_info, dtype=np.float64)
    absr = np.abs(np.asarray(ref_r, dtype=np.float64))
    defined = gauss_defined(absr)
    with np.errstate(all="ignore"):
        ok_i = np.abs(lib - ref_info) <= mult * (ATOL + RTOL * np.abs(ref_info))
        ok_i |= (lib == ref_info)
        ok_r = np.abs(S.gauss_mi_to_abs_r(lib) - absr) <= mult * ATOL
        ok_r &= ~np.isnan(lib)
    bad = defined & ~(ok_i | ok_r)
    if bad.any():
        idx = tuple(int(v) for v in np.argwhere(bad)[0])
        return (f"{int(bad.sum())} entries differ; first at {idx}: got {lib[idx]!r}, expected "
                f"{ref_info[idx]!r} (r={ref_r[idx]!r})")
    return None


def gauss_defined(r):
    with np.errstate(all="ignore"):
        a = np.abs(np.asarray(r, dtype=np.float64))
        return ~np.isnan(a) & (a < 1 - 1e-9)


DYADIC = [0.0, 1.0, -2.5, 4.0]


def gen_data(kind, T, N, dseed):
    rng = np.random.RandomState(dseed)
    d = rng.randn(T, N)
    if kind == "rand":
        pass
    elif kind == "ar":
        e = rng.randn(T, N)
        d = e.copy()
        for t in range(1, T):
            d[t, 0] = 0.7 * d[t - 1, 0] + e[t, 0]
            for k in range(1, N):
                lag = 1 + (k % 3)
                d[t, k] = 0.4 * d[t - 1, k] + e[t, k]
                if t - lag >= 0:
                    d[t, k] += 0.8 * d[t - lag, k - 1]
    elif kind == "const":
        d[:, rng.randint(N)] = DYADIC[rng.randint(len(DYADIC))]
    elif kind == "dup":
        a, b = rng.choice(N, 2, replace=False)
        d[:, b] = d[:, a]
    elif kind == "anti":
        a, b = rng.choice(N, 2, replace=False)
        d[:, b] = -2.0 * d[:, a] + 1.0
    elif kind == "ties":
        d = np.round(1.5 * d)
    elif kind == "lagcopy":
        s = min(1 + rng.randint(3), T - 2)
        d[s:, 1] = d[:-s, 0]
    elif kind == "sine":
        tt = np.arange(T)
        per = 4 + rng.randint(5)
        for k in range(N):
            d[:, k] = np.sin(2 * np.pi * tt / per + k * np.pi / 3.0) + 0.01 * k * tt / T
    elif kind == "smooth":
        # neighbouring cells of a smooth field: one common signal plus 2 % independent noise per series - strongly
        # collinear (condition number of the correlation matrix 1e3 .. 1e5), still far from singular
        sgn = rng.randn(T)
        d = sgn[:, None] + 0.02 * rng.randn(T, N)
    elif kind == "mixed":
        d[:, 0] = np.round(d[:, 0])
        if N >= 3:
            d[:, 2] = d[:, 1]
        if N >= 4:
            d[:, 3] = -d[:, 1] * 0.5 - 3.0
        if N >= 5:
            d[:, 4] = DYADIC[rng.randint(len(DYADIC))]
    else:
        raise ValueError(kind)
    return np.ascontiguousarray(d, dtype=np.float64)


def get_data(desc):
    if desc.get("kind") == "test_data":
        # the library's own example data set (CouplingAnalysis.test_data), used as one more input
        from pyunicorn.funcnet import CouplingAnalysis
        return np.ascontiguousarray(np.array(CouplingAnalysis.test_data(), dtype=np.float64))
    if "explicit" in desc:
        d = np.ascontiguousarray(np.array(desc["explicit"], dtype=np.float64))
    else:
        d = gen_data(desc["kind"], desc["T"], desc["N"], desc["dseed"])
    if "aff" in desc:
        # affine family: the float64 series a*x + b per column (|b| up to 1e7, |a| in 1e-3..1e3)
        a = np.array(desc["aff"]["a"], dtype=np.float64)
        b = np.array(desc["aff"]["b"], dtype=np.float64)
        d = np.ascontiguousarray(d * a + b, dtype=np.float64)
    return d


def is_affine(desc):
    return "aff" in desc


def column_means_ld(d):
    return np.asarray(d, dtype=np.longdouble).mean(axis=0)


def centre_like(arr, d):
    """arr[time, node] minus the column means of d, evaluated in extended precision (x87 long
    double where available) and rounded to float64 once.  Pearson-type reference statistics are
    invariant under this shift; it removes the cancellation that a float64 reference (least
    squares with an intercept, in particular) would suffer for |offset| >> spread."""
    return np.ascontiguousarray((np.asarray(arr, dtype=np.longdouble) - column_means_ld(d))
                                .astype(np.float64))


def ref_data(desc, d):
    """The array from which the moment-based reference statistics are computed: the data itself,
    for the affine families the exactly centred data (same statistic).  Rank / quantile-bin
    references always use the data itself (no arithmetic on the values)."""
    return centre_like(d, d) if is_affine(desc) else d


def own_anomaly(d, cycle):
    """Phase-mean removal (the definition of ClimateData.anomaly) in extended precision."""
    x = np.asarray(d, dtype=np.longdouble)
    out = np.empty_like(x)
    for i in range(cycle):
        out[i::cycle] = x[i::cycle] - x[i::cycle].mean(axis=0)
    return out


def n_nonconst(d):
    return sum(1 for k in range(d.shape[1]) if not np.all(d[:, k] == d[0, k]))


def wkey(w):
    return json.dumps(jsonable(w), sort_keys=True)


def affine_params(rng, N, positive=False, moderate=False, exact=False):
    """Per-column maps x -> a x + b.  exact=True: powers of two and b = 0, which keep ties and
    the order of nearly equal values (needed for rank / quantile statistics on the structured
    'sine' data)."""
    if exact:
        a = np.array([[0.25, 0.5, 2.0, 4.0, 8.0][rng.randint(5)] for _ in range(N)])
        if not positive:
            a *= np.where(rng.rand(N) < 0.5, -1.0, 1.0)
        return a, np.zeros(N)
    scales = [0.5, 2.0, 3.0] if moderate else [0.25, 0.5, 2.0, 3.0, 10.0]
    a = np.array([scales[rng.randint(len(scales))] for _ in range(N)])
    if not positive:
        a *= np.where(rng.rand(N) < 0.5, -1.0, 1.0)
    b = rng.randint(-2, 3, N).astype(float) if moderate else rng.randint(-20, 21, N).astype(float)
    return a, b


# =============================================================================== CouplingAnalysis

def _ca(d):
    from pyunicorn.funcnet import CouplingAnalysis
    return CouplingAnalysis(d.copy(), silence_level=3)


def check_max_summary(acc, w, name, val, lag, allfun, tm, signed, offdiag_only, mult=1.0,
                      floor0=False, pairs=None):
    """(val, lag) must be the value of `allfun[i, j, :]` at a lag where |.| (signed=True) or the
    value itself (signed=False) is maximal.  NaN entries of allfun count as 0."""
    N = val.shape[0]
    F = np.where(np.isnan(allfun), 0.0, np.asarray(allfun, dtype=np.float64))
    for i in range(N):
        for j in range(N):
            if offdiag_only and i == j:
                continue
            if pairs is not None and not pairs[i, j]:
                continue
            f = F[i, j]
            key = np.abs(f) if signed else f
            best = key.max()
            v = float(val[i, j])
            l_ = int(lag[i, j])
            if floor0 and best <= 0:
                continue
            if not (0 <= l_ <= tm):
                acc.fail(name + "-lag", w, f"lag[{i},{j}]={l_} outside 0..{tm}")
                return
            kv = abs(v) if signed else v
            if not tol_ok(kv, best, mult):
                acc.fail(name + "-value", w,
                         f"[{i},{j}]: got {v!r}, extremal value over lags is {best!r}; "
                         f"lag function {f.tolist()}")
                return
            if np.isinf(f[l_]) and f[l_] == v:
                continue
            if not tol_ok(v, f[l_], mult):
                acc.fail(name + "-lag", w,
                         f"[{i},{j}]: value {v!r} reported at lag {l_} but the lag function "
                         f"there is {f[l_]!r}; lag function {f.tolist()}")
                return


def fam_cc(w, acc):
    d = get_data(w["data"])
    tm = w["tau_max"]
    T, N = d.shape
    nontriv = n_nonconst(d) >= 2
    ref = S.lagged_cc(ref_data(w["data"], d), tm)
    with quiet():
        ca = _ca(d)
        lib_all = ca.cross_correlation(tau_max=tm, lag_mode="all")
        val, lag = ca.cross_correlation(tau_max=tm, lag_mode="max")
    # ---- all mode
    acc.case(wkey(w) + "|all", nontriv, sample=w)
    if lib_all.shape != (N, N, tm + 1):
        acc.fail("cross_correlation/all-equals-pearson", w, f"shape {lib_all.shape}")
        return
    aff_undef = is_affine(w["data"]) and bool(np.isnan(ref).any())
    if aff_undef:
        # affine family, some window of a series constant: only the defined entries are compared
        # (a constant at a value with an inexact float64 mean: dedicated probe constnd)
        msg = cmp_defined(lib_all, ref, undefined="skip")
        if msg:
            acc.fail("cross_correlation/all-equals-pearson", w, msg)
        sub_ = lib_all[np.isfinite(ref)]
        if sub_.size and (not np.all(np.isfinite(sub_)) or np.abs(sub_).max() > 1 + 2 * ATOL):
            acc.fail("cross_correlation/bounds", w, f"max |cc| = {np.abs(sub_).max()!r}")
        return
    msg = cmp_defined(lib_all, ref, undefined="zero")
    if msg:
        acc.fail("cross_correlation/all-equals-pearson", w, msg)
    if not np.all(np.isfinite(lib_all)) or np.abs(lib_all).max() > 1 + 2 * ATOL:
        acc.fail("cross_correlation/bounds", w, f"max |cc| = {np.abs(lib_all).max()!r}")
    if cmp_defined(lib_all[:, :, 0], lib_all[:, :, 0].T.astype(float), mult=2.0):
        acc.fail("cross_correlation/lag0-symmetric", w, "all[:,:,0] is not symmetric")
    # ---- max mode
    acc.case(wkey(w) + "|max", nontriv)
    if val.shape != (N, N) or lag.shape != (N, N):
        acc.fail("cross_correlation/max-value", w, f"shapes {val.shape} {lag.shape}")
        return
    check_max_summary(acc, w, "cross_correlation/max", val, lag, ref, tm, signed=True,
                      offdiag_only=True)
    check_max_summary(acc, w, "cross_correlation/max-vs-all", val, lag, lib_all, tm, signed=True,
                      offdiag_only=True, mult=2.0)
    for i in range(N):
        if np.isfinite(ref[i, i, 0]):
            if not tol_ok(val[i, i], 1.0):
                acc.fail("cross_correlation/max-diagonal", w, f"diag value {val[i, i]!r}")
            elif lag[i, i] != 0 and not np.any(np.abs(np.nan_to_num(ref[i, i, 1:])) >= 1 - 1e-4):
                acc.fail("cross_correlation/max-diagonal", w, f"diag lag {lag[i, i]!r}")
    # ---- symmetrised summary
    acc.case(wkey(w) + "|symm", nontriv)
    with quiet():
        s2, l2 = ca.symmetrize_by_absmax(val.copy(), lag.copy())
    check_symmetrize(acc, w, val, lag, s2, l2)
    # ---- relations
    if w.get("rel"):
        rng = np.random.RandomState(w["rel"])
        a, b = affine_params(rng, N)
        with quiet():
            ca2 = _ca(d * a + b)
            all2 = ca2.cross_correlation(tau_max=tm, lag_mode="all")
        acc.case(wkey(w) + "|affine", nontriv)
        sg = np.sign(np.outer(a, a))[:, :, None]
        # constant windows stay constant under the map only in exact arithmetic; compare the
        # entries whose reference is defined
        msg = cmp_defined(all2, np.where(np.isfinite(ref), sg * lib_all, np.nan), mult=2.0)
        if msg:
            acc.fail("cross_correlation/affine-invariance", dict(w, a=a, b=b), msg)
        p = rng.permutation(N)
        with quiet():
            ca3 = _ca(d[:, p])
            all3 = ca3.cross_correlation(tau_max=tm, lag_mode="all")
            v3, l3 = ca3.cross_correlation(tau_max=tm, lag_mode="max")
        acc.case(wkey(w) + "|perm", nontriv)
        msg = cmp_defined(all3, lib_all[np.ix_(p, p)].astype(float), mult=2.0)
        if msg:
            acc.fail("cross_correlation/permutation", dict(w, perm=p), msg)
        check_max_summary(acc, dict(w, perm=p), "cross_correlation/permutation-max", v3, l3,
                          lib_all[np.ix_(p, p)], tm, signed=True, offdiag_only=True, mult=2.0)


def check_symmetrize(acc, w, S0, L0, S1, L1):
    N = S0.shape[0]
    S0 = np.asarray(S0, dtype=np.float32)
    for i in range(N):
        if not (S1[i, i] == S0[i, i] or (np.isnan(S1[i, i]) and np.isnan(S0[i, i]))) \
                or L1[i, i] != L0[i, i]:
            acc.fail("symmetrize_by_absmax/diagonal-kept", w, f"diag {i} changed")
            return
        for j in range(i + 1, N):
            cand = S.absmax_candidates(S0, L0, i, j)
            got = (float(S1[i, j]), int(L1[i, j]))
            if got not in cand:
                acc.fail("symmetrize_by_absmax/value-lag", w,
                         f"[{i},{j}]: got {got}, admissible {cand} from S_ij={S0[i, j]!r}, "
                         f"S_ji={S0[j, i]!r}, L_ij={L0[i, j]}, L_ji={L0[j, i]}")
                return
            if float(S1[j, i]) != got[0] or int(L1[j, i]) != -got[1]:
                acc.fail("symmetrize_by_absmax/symmetric", w,
                         f"[{j},{i}] = ({S1[j, i]!r},{L1[j, i]}) is not the mirror of {got}")
                return


def fam_sym(w, acc):
    S0 = np.array(w["S"], dtype=np.float32)
    L0 = np.array(w["L"], dtype=np.int8)
    N = S0.shape[0]
    nontriv = any(abs(S0[i, j]) != abs(S0[j, i]) for i in range(N) for j in range(i))
    acc.case(wkey(w), nontriv, sample=w)
    with quiet():
        ca = _ca(np.zeros((3, N)))
        S1, L1 = ca.symmetrize_by_absmax(S0.copy(), L0.copy())
    check_symmetrize(acc, w, S0, L0, S1, L1)


def fam_lag8(w, acc):
    """Dedicated probe of known finding #18 (lag stored as int8)."""
    T, tm, s = w["T"], w["tau_max"], w["shift"]
    rng = np.random.RandomState(w["dseed"])
    d = rng.randn(T, 2)
    d[s:, 1] = d[:-s, 0]
    acc.case(wkey(w), True, sample=w)
    with quiet():
        try:
            val, lag = _ca(d).cross_correlation(tau_max=tm, lag_mode="max")
        except ValueError:
            return      # a lag range the int8 lag matrix cannot hold is rejected: allowed (repaired finding #18)
    if int(lag[0, 1]) != s:
        acc.fail("cross_correlation/lag-int8-range", w,
                 f"column 1 is column 0 delayed by {s} samples (cc={val[0, 1]!r}); reported lag "
                 f"{int(lag[0, 1])} (dtype {lag.dtype}), expected {s}")


def fam_constnd(w, acc):
    """Dedicated probe: a series that is constant at a value whose float64 mean over the window
    is not the value itself (0.1, T = 7).  The statistic is undefined; the library documents 0
    for zero-variance series and must at least return finite values in [-1, 1]."""
    d = get_data(w["data"])
    tm = w["tau_max"]
    acc.case(wkey(w), True, sample=w)
    with quiet():
        lib = _ca(d).cross_correlation(tau_max=tm, lag_mode="all")
        val, _ = _ca(d).cross_correlation(tau_max=tm, lag_mode="max")
        pure = _pp(d).cross_correlation(tau_max=tm, lag_mode="all")
    seen = set()
    for name, mode, arr in (("cross_correlation", "all", lib), ("cross_correlation", "max", val),
                            ("pure.cross_correlation", "all", pure)):
        arr = np.asarray(arr, dtype=np.float64)
        if name not in seen and (not np.all(np.isfinite(arr)) or np.abs(arr).max() > 1 + 2 * ATOL):
            seen.add(name)
            acc.fail(name + "/constant-series-inexact-mean", w,
                     f"series 1 is constant at {d[0, 1]!r}: lag_mode='{mode}' gives {arr.tolist()}, "
                     f"expected finite values in [-1, 1] (0 for the pairs involving the constant "
                     f"series)")


def _bins_eff(M, bins):
    w_ = int(math.ceil(M / float(bins)))
    return int(math.ceil(M / float(w_)))


def fam_mi(w, acc):
    d = get_data(w["data"])
    tm, est = w["tau_max"], w["estimator"]
    T, N = d.shape
    M = T - tm
    nontriv = n_nonconst(d) >= 2
    kw = dict(tau_max=tm, estimator=est)
    if est == "binning":
        kw["bins"] = w["bins"]
    if est == "knn":
        kw["knn"] = w["knn"]

    def run(data, mode):
        with quiet():
            return _ca(data).mutual_information(lag_mode=mode, **kw)

    const_window = any(np.all(d[tm - tau:T - tau, v] == d[tm - tau, v])
                       for v in range(N) for tau in range(tm + 1))
    if est in ("gauss", "knn") and const_window:
        acc.case(wkey(w) + "|const", False)
        try:
            run(d, "all")
        except ValueError:
            return
        except Exception as e:    # pylint: disable=broad-except
            acc.fail(f"mutual_information/{est}-constant-series", w,
                     f"{type(e).__name__}: {e} (ValueError is the documented outcome)")
        return
    lib_all = run(d, "all")
    val, lag = run(d, "max")
    acc.case(wkey(w) + "|all", nontriv, sample=w)
    if lib_all.shape != (N, N, tm + 1):
        acc.fail(f"mutual_information/{est}-shape", w, f"shape {lib_all.shape}")
        return
    ref = None
    pairs = None
    if est == "binning":
        ref = S.lagged_binned_mi(d, tm, w["bins"])
        if tm == 0:
            msg = cmp_defined(lib_all, ref)
            if msg:
                acc.fail("mutual_information/binning-equals-plugin", w, msg)
        else:
            m1 = cmp_defined(lib_all, ref)
            m2 = cmp_defined(lib_all, ref * (M / float(T)))
            if m1 and m2:
                acc.fail("mutual_information/binning-equals-plugin-upto-norm", w,
                         f"neither the plug-in MI ({m1}) nor (T-tau_max)/T times it ({m2})")
        acc.case(wkey(w) + "|max-ref", nontriv)
        for f_ in ((1.0,) if tm == 0 else (1.0, M / float(T))):
            sub = Acc()      # (names get the tag when they are copied to acc below)
            check_max_summary(sub, w, "mutual_information/binning-max", val, lag, ref * f_, tm,
                              signed=False, offdiag_only=False)
            if not sub.fails:
                break
        else:
            acc.fails.extend((c_ + acc.tag, w_, d_) for (c_, w_, d_) in sub.fails)
        be = _bins_eff(M, w["bins"])
        if lib_all.min() < -2 * ATOL or lib_all.max() > math.log(be) + 2 * ATOL:
            acc.fail("mutual_information/binning-bounds", w,
                     f"range [{lib_all.min()!r}, {lib_all.max()!r}] outside [0, log {be}]")
    elif est == "gauss":
        ref, refr = S.lagged_gauss_mi(ref_data(w["data"], d), tm)
        gdef = gauss_defined(refr)
        pairs = gdef.all(axis=2)
        msg = gauss_close(lib_all, ref, refr)
        if msg:
            acc.fail("mutual_information/gauss-equals-reference", w, msg)
        if np.any(lib_all[gdef] < 0):
            acc.fail("mutual_information/gauss-bounds", w, f"min {lib_all[gdef].min()!r} < 0")
        # the estimate is a function of the correlation coefficient: the same for the data in very small / large units
        # (powers of two: the scaled series are the exact multiples) and for series of very different magnitude
        if not is_affine(w["data"]):
            for tag_, sc_ in (("2^-340", np.full(N, 2.0 ** -340)), ("2^320", np.full(N, 2.0 ** 320)),
                              ("alternating 2^300 / 2^-300", np.array([2.0 ** (300 if k % 2 else -300) for k in range(N)]))):
                try:
                    sc_all = run(np.ascontiguousarray(d * sc_), "all")
                except Exception as e:    # pylint: disable=broad-except
                    acc.fail("mutual_information/gauss-unit-invariance", w, f"units {tag_}: {type(e).__name__}: {e}")
                    continue
                msg = gauss_close(sc_all, ref, refr)
                if msg:
                    acc.fail("mutual_information/gauss-unit-invariance", w, f"units {tag_}: {msg}")
    elif est == "knn":
        bnd = S.knn_bound(M, w["knn"])
        if not np.all(np.isfinite(lib_all)) or np.abs(lib_all).max() > bnd * (1 + 1e-5) + ATOL:
            acc.fail("mutual_information/knn-bounds", w,
                     f"max |I| = {np.abs(lib_all).max()!r} > psi(M)-psi(k) = {bnd!r}")
        # (the diagonal / identical series are exact ties which the estimator breaks with random
        #  noise: those entries are not reproducible and only the bound is checked for them)
        pairs = ~np.eye(N, dtype=bool)
    if est == "gauss":
        a0 = S.gauss_mi_to_abs_r(lib_all[:, :, 0])
        g0 = gdef[:, :, 0] & gdef[:, :, 0].T
        bad = not np.all(np.abs(a0 - a0.T)[g0] <= 2 * ATOL)
    else:
        bad = cmp_defined(lib_all[:, :, 0], lib_all[:, :, 0].T.astype(float), mult=2.0)
        if est == "knn":
            bad = cmp_defined(lib_all[:, :, 0][pairs], lib_all[:, :, 0].T.astype(float)[pairs],
                              mult=2.0)
    if bad:
        acc.fail(f"mutual_information/{est}-lag0-symmetric", w, "all[:,:,0] is not symmetric")
    # ---- max mode vs all mode
    acc.case(wkey(w) + "|max", nontriv)
    if est == "gauss":
        # compare on the |r| scale (monotone), infinities allowed
        check_max_summary(acc, w, f"mutual_information/{est}-max-vs-all",
                          S.gauss_mi_to_abs_r(val), lag, S.gauss_mi_to_abs_r(lib_all), tm,
                          signed=False, offdiag_only=False, mult=2.0, pairs=pairs)
        check_max_summary(acc, w, "mutual_information/gauss-max", S.gauss_mi_to_abs_r(val), lag,
                          np.abs(refr), tm, signed=False, offdiag_only=False, pairs=pairs)
    else:
        check_max_summary(acc, w, f"mutual_information/{est}-max-vs-all", val, lag, lib_all, tm,
                          signed=False, offdiag_only=False, mult=2.0, floor0=(est == "knn"),
                          pairs=pairs)
    # ---- relations
    if w.get("rel"):
        rng = np.random.RandomState(w["rel"])
        a, b = affine_params(rng, N, positive=(est != "gauss"), moderate=(est == "knn"),
                             exact=(est == "binning" and w["data"].get("kind") == "sine"))
        all2 = run(d * a + b, "all")
        acc.case(wkey(w) + "|affine", nontriv)
        if est == "gauss":
            msg = gauss_close(all2, lib_all, S.gauss_mi_to_abs_r(lib_all), mult=2.0)
        elif est == "knn":
            # float32 standardisation may move single neighbour counts: 1/M per count
            msg = None
            dif = np.abs(all2.astype(float) - lib_all)[pairs]
            if dif.max() > 4.0 / M + 1e-4:
                msg = f"max diff {dif.max()!r}"
        else:
            msg = cmp_defined(all2, lib_all.astype(float), mult=2.0)
        if msg:
            acc.fail(f"mutual_information/{est}-affine-invariance", dict(w, a=a, b=b), msg)
        p = rng.permutation(N)
        all3 = run(d[:, p], "all")
        acc.case(wkey(w) + "|perm", nontriv)
        if est == "gauss":
            msg = gauss_close(all3, lib_all[np.ix_(p, p)],
                              S.gauss_mi_to_abs_r(lib_all[np.ix_(p, p)]), mult=2.0)
        elif est == "knn":
            msg = cmp_defined(all3[pairs], lib_all[np.ix_(p, p)].astype(float)[pairs], mult=2.0)
        else:
            msg = cmp_defined(all3, lib_all[np.ix_(p, p)].astype(float), mult=2.0)
        if msg:
            acc.fail(f"mutual_information/{est}-permutation", dict(w, perm=p), msg)


def fam_binlag(w, acc):
    """Dedicated probe: binned MI with tau_max > 0 against the plug-in MI of the lagged pairs."""
    d = get_data(w["data"])
    tm, bins = w["tau_max"], w["bins"]
    acc.case(wkey(w), True, sample=w)
    with quiet():
        lib = _ca(d).mutual_information(tau_max=tm, estimator="binning", bins=bins, lag_mode="all")
    ref = S.lagged_binned_mi(d, tm, bins)
    msg = cmp_defined(lib, ref)
    if msg:
        T = d.shape[0]
        r = np.nanmedian(lib[ref > 1e-3] / ref[ref > 1e-3])
        acc.fail("mutual_information/binning-lagged-norm", w,
                 f"{msg}; median lib/ref = {r:.6f}, (T-tau_max)/T = {(T - tm) / T:.6f}")


def fam_gaussinf(w, acc):
    """Dedicated probe: Gaussian MI of exactly linearly related series (|r| = 1) is +inf; a
    single-precision result must be inf or at least -1/2 log(1 - (1 - 1e-7)^2) > 7."""
    d = get_data(w["data"])
    tm = w["tau_max"]
    acc.case(wkey(w), True, sample=w)
    with quiet():
        ca = _ca(d)
        lib = ca.mutual_information(tau_max=tm, estimator="gauss", lag_mode="all")
        val, lag = ca.mutual_information(tau_max=tm, estimator="gauss", lag_mode="max")
    _, refr = S.lagged_gauss_mi(d, tm)
    perfect = np.abs(refr) >= 1 - 1e-12
    bad = perfect & ~(lib >= 7.0)
    if bad.any():
        idx = tuple(int(v) for v in np.argwhere(bad)[0])
        acc.fail("mutual_information/gauss-perfect-correlation", w,
                 f"{int(bad.sum())} of {int(perfect.sum())} entries with |r| = 1: first at {idx}: "
                 f"r = {refr[idx]!r}, got {lib[idx]!r}, expected +inf")
        return
    for i, j in zip(*np.nonzero(perfect.any(axis=2))):
        if not (val[i, j] >= 7.0 and perfect[i, j, int(lag[i, j])]):
            acc.fail("mutual_information/gauss-perfect-correlation", w,
                     f"max mode [{i},{j}]: value {val[i, j]!r} at lag {int(lag[i, j])}, |r| = 1 "
                     f"at lags {np.nonzero(perfect[i, j])[0].tolist()}")
            return


def fam_it(w, acc):
    d = get_data(w["data"])
    tm, past, cm, est = w["tau_max"], w["past"], w["cond_mode"], w["estimator"]
    T, N = d.shape
    M = T - tm - past
    nontriv = n_nonconst(d) >= 2
    kw = dict(tau_max=tm, estimator=est, past=past, cond_mode=cm)
    if est == "knn":
        kw["knn"] = w["knn"]

    def run(data, mode):
        with quiet():
            return _ca(data).information_transfer(lag_mode=mode, **kw)

    const_window = any(np.all(d[s:s + M, v] == d[s, v]) for v in range(N)
                       for s in range(0, T - M + 1))
    if const_window:
        acc.case(wkey(w) + "|const", False)
        try:
            run(d, "all")
        except ValueError:
            return
        except Exception as e:    # pylint: disable=broad-except
            acc.fail(f"information_transfer/{est}-constant-series", w,
                     f"{type(e).__name__}: {e} (ValueError is the documented outcome)")
        return
    lib_all = run(d, "all")
    val, lag = run(d, "max")
    acc.case(wkey(w) + "|all", nontriv, sample=w)
    if lib_all.shape != (N, N, tm + 1):
        acc.fail(f"information_transfer/{est}-shape", w, f"shape {lib_all.shape}")
        return
    if est == "gauss":
        rho = S.info_transfer_partial_corr(ref_data(w["data"], d), tm, past, cm)
        for i in range(N):
            rho[i, i, 0] = np.nan      # X = Y: the library defines 0 there
        ref = np.vectorize(S.gauss_mi)(rho)
        msg = gauss_close(lib_all, ref, rho)
        if msg:
            acc.fail(f"information_transfer/gauss-{cm}-equals-reference", w, msg)
        defined = gauss_defined(rho)
        if np.any(lib_all[defined] < 0):
            acc.fail("information_transfer/gauss-bounds", w, "negative value")
        if np.any(lib_all[range(N), range(N), 0] != 0):
            acc.fail("information_transfer/diagonal-zero", w, "all[i,i,0] != 0")
        # max mode: pairs whose lag function is defined at every lag
        acc.case(wkey(w) + "|max", nontriv)
        for i in range(N):
            for j in range(N):
                if i == j:
                    if val[i, i] != 0:
                        acc.fail("information_transfer/diagonal-zero", w, "max-mode diagonal != 0")
                    continue
                if not defined[i, j].all():
                    continue
                sub = lambda A: np.asarray(A)[i:i + 1, j:j + 1]     # noqa: E731
                check_max_summary(acc, w, "information_transfer/gauss-max-vs-all",
                                  S.gauss_mi_to_abs_r(sub(val)), sub(lag),
                                  S.gauss_mi_to_abs_r(lib_all[i:i + 1, j:j + 1, :]), tm,
                                  signed=False, offdiag_only=False, mult=2.0)
                check_max_summary(acc, w, "information_transfer/gauss-max", S.gauss_mi_to_abs_r(
                    sub(val)), sub(lag), np.abs(rho[i:i + 1, j:j + 1, :]), tm,
                    signed=False, offdiag_only=False, mult=2.0)
        if w.get("rel"):
            rng = np.random.RandomState(w["rel"])
            a, b = affine_params(rng, N)
            all2 = run(d * a + b, "all")
            acc.case(wkey(w) + "|affine", nontriv)
            msg = gauss_close(all2, np.where(defined, lib_all, np.nan),
                              np.where(defined, S.gauss_mi_to_abs_r(lib_all), np.nan), mult=2.0)
            if msg:
                acc.fail("information_transfer/gauss-affine-invariance", dict(w, a=a, b=b), msg)
            p = rng.permutation(N)
            all3 = run(d[:, p], "all")
            acc.case(wkey(w) + "|perm", nontriv)
            lp = lib_all[np.ix_(p, p)]
            dp = defined[np.ix_(p, p)]
            msg = gauss_close(all3, np.where(dp, lp, np.nan),
                              np.where(dp, S.gauss_mi_to_abs_r(lp), np.nan), mult=2.0)
            if msg:
                acc.fail("information_transfer/gauss-permutation", dict(w, perm=p), msg)
    else:   # knn: relations only
        if not np.all(np.isfinite(lib_all)):
            acc.fail("information_transfer/knn-finite", w, "non-finite value")
        if np.any(lib_all[range(N), range(N), 0] != 0) or np.any(np.diag(val) != 0):
            acc.fail("information_transfer/diagonal-zero", w, "diagonal != 0")
        acc.case(wkey(w) + "|max", nontriv)
        F = lib_all.astype(float).copy()
        offd = ~np.eye(N, dtype=bool)
        v2 = np.where(offd, val, 0.0)
        F[~offd] = 0.0
        check_max_summary(acc, w, "information_transfer/knn-max-vs-all", v2, lag, F, tm,
                          signed=False, offdiag_only=True, mult=2.0, floor0=True)
        if w.get("rel"):
            rng = np.random.RandomState(w["rel"])
            p = rng.permutation(N)
            all3 = run(d[:, p], "all")
            acc.case(wkey(w) + "|perm", nontriv)
            msg = cmp_defined(all3[offd], lib_all[np.ix_(p, p)].astype(float)[offd], mult=2.0)
            if msg:
                acc.fail("information_transfer/knn-permutation", dict(w, perm=p), msg)


# =============================================================================== pure Python class

def _pp(d, only_tri=False):
    from pyunicorn.funcnet import CouplingAnalysisPurePython
    return CouplingAnalysisPurePython(d.copy(), only_tri=only_tri, silence_level=3)


def fam_ccpure(w, acc):
    d = get_data(w["data"])
    tm = w["tau_max"]
    T, N = d.shape
    nontriv = n_nonconst(d) >= 2
    ref = S.two_sided_cc(ref_data(w["data"], d), tm)
    ref0 = np.where(np.isnan(ref), 0.0, ref)
    with quiet():
        pp = _pp(d)
        a = pp.cross_correlation(tau_max=tm, lag_mode="all")
        m = pp.cross_correlation(tau_max=tm, lag_mode="max")
        sm = pp.cross_correlation(tau_max=tm, lag_mode="sum")
    acc.case(wkey(w) + "|all", nontriv, sample=w)
    if is_affine(w["data"]) and np.isnan(ref).any():
        msg = cmp_defined(a, ref, undefined="skip")       # see fam_cc
        if msg:
            acc.fail("pure.cross_correlation/all-equals-pearson", w, msg)
        return
    msg = cmp_defined(a, ref, undefined="zero")
    if msg:
        acc.fail("pure.cross_correlation/all-equals-pearson", w, msg)
    acc.case(wkey(w) + "|max", nontriv)
    best = np.abs(ref0).max(axis=0)
    msg = cmp_defined(m[0], best)
    if msg:
        acc.fail("pure.cross_correlation/max-value", w, msg)
    else:
        for i in range(N):
            for j in range(N):
                l_ = m[1][i, j]
                if l_ != int(l_) or not -tm <= l_ <= tm or \
                        not tol_ok(abs(ref0[int(l_) + tm, i, j]), best[i, j], 2.0):
                    acc.fail("pure.cross_correlation/max-lag", w,
                             f"[{i},{j}] lag {l_!r}: |cc| there {ref0[:, i, j].tolist()}")
                    break
            else:
                continue
            break
    acc.case(wkey(w) + "|sum", nontriv)
    pos = np.abs(ref0[tm:]).sum(axis=0)
    neg = np.abs(ref0[:tm + 1]).sum(axis=0)
    msg = cmp_defined(sm[0], pos, mult=tm + 1.0) or cmp_defined(sm[1], neg, mult=tm + 1.0)
    if msg:
        acc.fail("pure.cross_correlation/sum", w, msg)
    # ---- only_tri: upper triangle exact, lower triangle mirrored
    with quiet():
        pt = _pp(d, only_tri=True)
        at = pt.cross_correlation(tau_max=tm, lag_mode="all")
        mt = pt.cross_correlation(tau_max=tm, lag_mode="max")
    acc.case(wkey(w) + "|only_tri", nontriv)
    iu = np.triu_indices(N, 1)
    msg = cmp_defined(at[:, iu[0], iu[1]], ref[:, iu[0], iu[1]], undefined="zero")
    if not msg:
        msg = cmp_defined(at[:, iu[1], iu[0]], at[::-1, iu[0], iu[1]].astype(float), mult=2.0)
    if not msg:
        msg = cmp_defined(mt[0][iu], best[iu]) or cmp_defined(mt[0][iu[1], iu[0]],
                                                              mt[0][iu].astype(float))
    if not msg and np.any(mt[1][iu[1], iu[0]] != -mt[1][iu]):
        msg = "max-mode lags of the lower triangle are not the negated upper ones"
    if msg:
        acc.fail("pure.cross_correlation/only-tri", w, msg)
    # ---- agreement with the compiled class
    acc.case(wkey(w) + "|vs-compiled", nontriv)
    with quiet():
        c = _ca(d[:T - tm]).cross_correlation(tau_max=tm, lag_mode="all")
    for t in range(tm + 1):
        # pure[t, i, j] (j leads i by tau = tau_max - t) = compiled(data[:T-tau_max])[j, i, tau]
        msg = cmp_defined(a[t], c[:, :, tm - t].T.astype(float), mult=2.0)
        if msg:
            acc.fail("pure-vs-compiled/cross_correlation", w, f"t={t}: {msg}")
            break


def _pure_mi_doc(sym_i, sym_j, b):
    return (2.0 * math.log(b) - S.joint_entropy(sym_i, sym_j)) / math.log(b)


def fam_mipure(w, acc):
    d = get_data(w["data"])
    tm, bins = w["tau_max"], w["bins"]
    T, N = d.shape
    cr = T - 2 * tm
    nontriv = n_nonconst(d) >= 2
    with quiet():
        pp = _pp(d)
        a = pp.mutual_information(bins=bins, tau_max=tm, lag_mode="all")
        m = pp.mutual_information(bins=bins, tau_max=tm, lag_mode="max")
    b = _bins_eff(cr, bins)
    sym = {(v, t): S.quantile_symbols(d[t:t + cr, v], bins) for v in range(N)
           for t in range(2 * tm + 1)}
    uniform = (cr % bins == 0) and not S.has_ties(d)
    doc = np.zeros((2 * tm + 1, N, N))
    mi = np.zeros((2 * tm + 1, N, N))
    for t in range(2 * tm + 1):
        for i in range(N):
            for j in range(N):
                doc[t, i, j] = _pure_mi_doc(sym[i, tm], sym[j, t], b)
                mi[t, i, j] = S.plugin_mi(sym[i, tm], sym[j, t]) / math.log(b)
    acc.case(wkey(w) + "|all", nontriv, sample=w)
    msg = cmp_defined(a, doc)
    if msg:
        acc.fail("pure.mutual_information/doc-formula", w, msg)
    if uniform:
        msg = cmp_defined(a, mi)
        if msg:
            acc.fail("pure.mutual_information/equals-normalised-plugin", w, msg)
        # compiled class, zero lag, same binning: I_compiled / log(bins) = I_pure
        if tm == 0:
            acc.case(wkey(w) + "|vs-compiled", nontriv)
            with quiet():
                c = _ca(d).mutual_information(tau_max=0, estimator="binning", bins=bins,
                                              lag_mode="all")
            msg = cmp_defined(a[0], c[:, :, 0].astype(float) / math.log(b), mult=2.0)
            if msg:
                acc.fail("pure-vs-compiled/mutual_information", w, msg)
    acc.case(wkey(w) + "|max", nontriv)
    F = np.maximum(doc, 0.0)
    best = F.max(axis=0)
    msg = cmp_defined(m[0], best)
    if msg:
        acc.fail("pure.mutual_information/max-value", w, msg)
    else:
        for i in range(N):
            for j in range(N):
                l_ = m[1][i, j]
                if best[i, j] <= 0:
                    continue
                if l_ != int(l_) or not -tm <= l_ <= tm or \
                        not tol_ok(F[int(l_) + tm, i, j], best[i, j], 2.0):
                    acc.fail("pure.mutual_information/max-lag", w, f"[{i},{j}] lag {l_!r}")
                    return


def fam_shuf(w, acc):
    """shuffled_surrogate_for_cc / _mi with the global NumPy RNG seeded: the surrogate is each
    series permuted independently (np.random draws in node order), cut to T - 2 tau_max samples."""
    d = get_data(w["data"])
    tm, bins, rs = w["tau_max"], w["bins"], w["rseed"]
    T, N = d.shape
    cr = T - 2 * tm
    nontriv = n_nonconst(d) >= 2
    np.random.seed(rs)
    sh = np.stack([np.random.permutation(d[:, i]) for i in range(N)], axis=1)[:cr]
    R = S.pearson_matrix(centre_like(sh, d) if is_affine(w["data"]) else sh)
    R0 = np.where(np.isnan(R), 0.0, R)
    pp = _pp(d)
    for mode in ("all", "sum", "max"):
        np.random.seed(rs)
        with quiet():
            x = pp.shuffled_surrogate_for_cc(fourier=False, tau_max=tm, lag_mode=mode)
        acc.case(wkey(w) + "|cc|" + mode, nontriv, sample=w if mode == "all" else None)
        if is_affine(w["data"]) and np.isnan(R).any():
            break                                            # see fam_cc
        if mode == "all":
            msg = None if x.shape == (2 * tm + 1, N, N) else f"shape {x.shape}"
            msg = msg or next((cmp_defined(x[t], R, undefined="zero")
                               for t in range(2 * tm + 1)
                               if cmp_defined(x[t], R, undefined="zero")), None)
        elif mode == "sum":
            msg = cmp_defined(x[0], np.abs(R0) * (tm + 1)) or cmp_defined(x[1], np.abs(R0) * (tm + 1))
        else:
            msg = cmp_defined(x[0], np.abs(R0))
            if not msg and not (np.all(x[1] == np.round(x[1])) and np.all(np.abs(x[1]) <= tm)):
                msg = "lags outside -tau_max..tau_max"
        if msg:
            acc.fail(f"pure.shuffled_surrogate_for_cc/{mode}", w, msg)
    b = _bins_eff(cr, bins)
    sym = [S.quantile_symbols(sh[:, i], bins) for i in range(N)]
    doc = np.array([[_pure_mi_doc(sym[i], sym[j], b) for j in range(N)] for i in range(N)])
    for mode in ("all", "sum", "max"):
        np.random.seed(rs)
        with quiet():
            x = pp.shuffled_surrogate_for_mi(fourier=False, bins=bins, tau_max=tm, lag_mode=mode)
        acc.case(wkey(w) + "|mi|" + mode, nontriv)
        if mode == "all":
            msg = None if x.shape == (2 * tm + 1, N, N) else f"shape {x.shape}"
            msg = msg or next((cmp_defined(x[t], doc) for t in range(2 * tm + 1)
                               if cmp_defined(x[t], doc)), None)
        elif mode == "sum":
            msg = cmp_defined(x[0], doc * (tm + 1), mult=2.0) or \
                cmp_defined(x[1], doc * (tm + 1), mult=2.0)
        else:
            msg = cmp_defined(x[0], doc)
        if msg:
            acc.fail(f"pure.shuffled_surrogate_for_mi/{mode}", w, msg)


# =============================================================================== pure class, round 3
# time_surrogate_for_cc / _mi, mutual_information_edges, correlatedNoiseSurrogates (and the
# fourier=True test matrices), 3-D / 4-D input arrays, CouplingAnalysis.test_data

def _call(acc, check, w, fun, *a, **k):
    """fun(*a, **k) silenced; an exception is a failure of `check`.  Returns (ok, value)."""
    try:
        with quiet():
            return True, fun(*a, **k)
    except Exception as e:    # pylint: disable=broad-except
        tb = traceback.format_exc().strip().splitlines()
        acc.fail(check, w, f"{type(e).__name__}: {e} @ {tb[-3].strip() if len(tb) >= 3 else ''}")
        return False, None


def _two_sided_summary_msg(x, F, tm, mode, signed, mult=1.0):
    """x = library output in lag_mode `mode` for the two-sided lag function F[t, i, j]
    (t = 0..2 tau_max, NaN = undefined -> 0).  signed: summaries use |F| (cross-correlation),
    else F itself with the maximum floored at 0 (normalised MI)."""
    x = np.asarray(x, dtype=np.float64)
    N = F.shape[1]
    F0 = np.where(np.isnan(F), 0.0, F)
    if mode == "all":
        if x.shape != F.shape:
            return f"shape {x.shape} != {F.shape}"
        return cmp_defined(x, F, mult=mult, undefined="zero")
    if x.shape != (2, N, N):
        return f"shape {x.shape} != {(2, N, N)}"
    K = np.abs(F0) if signed else F0
    if mode == "sum":
        return cmp_defined(x[0], K[tm:].sum(axis=0), mult=mult * (tm + 1.0)) or \
            cmp_defined(x[1], K[:tm + 1].sum(axis=0), mult=mult * (tm + 1.0))
    K = K if signed else np.maximum(K, 0.0)
    best = K.max(axis=0)
    msg = cmp_defined(x[0], best, mult=mult)
    if msg:
        return "max value: " + msg
    for i in range(N):
        for j in range(N):
            l_ = x[1][i, j]
            if best[i, j] <= 0:
                continue
            if l_ != int(l_) or not -tm <= l_ <= tm or \
                    not tol_ok(K[int(l_) + tm, i, j], best[i, j], 2.0 * mult):
                return f"max lag [{i},{j}] = {l_!r}: lag function {K[:, i, j].tolist()}"
    return None


def _pure_mi_function(cols, tm, bins, b):
    """doc-formula normalised MI: cols[(v, t)] = samples of series v at offset t (t = 0..2 tau_max)."""
    N = 1 + max(v for v, _ in cols)
    sym = {k: S.quantile_symbols(c, bins) for k, c in cols.items()}
    F = np.zeros((2 * tm + 1, N, N))
    for t in range(2 * tm + 1):
        for i in range(N):
            for j in range(N):
                F[t, i, j] = _pure_mi_doc(sym[i, tm], sym[j, t], b)
    return F


def fam_tsur(w, acc):
    """time_surrogate_for_cc / _mi: 'a joint shuffled surrogate of the full dataarray of length
    sample_range for all taus' - the statistic over sample_range distinct time points t (drawn
    jointly for all series) of X_i(t) against X_j(t + tau).
    (1) sample_range = T - 2 tau_max: every admissible time point is used once, so the result is
        the statistic of cross_correlation / mutual_information itself, whatever the RNG does;
    (2) sample_range smaller: with the global NumPy RNG seeded the sample is
        np.random.permutation(range(tau_max, T - tau_max))[:sample_range] (one draw)."""
    d = get_data(w["data"])
    tm, bins, rs, sr = w["tau_max"], w["bins"], w["rseed"], w["sample_range"]
    T, N = d.shape
    cr = T - 2 * tm
    nontriv = n_nonconst(d) >= 2
    pp = _pp(d)
    np.random.seed(rs)
    perm = np.random.permutation(range(tm, T - tm))[:sr]
    parts = [("full-range", cr, np.arange(tm, T - tm))]
    if sr < cr:
        parts.append(("sample", sr, perm))
    for part, n_s, times in parts:
        # a window that is not constant but has a spread below 1e-4 of its magnitude is constant or
        # not after the cast to single precision: statistic not reproducible, part not compared
        wins = [d[times + t - tm, v] for v in range(N) for t in range(2 * tm + 1)]
        if any(0 < np.ptp(x_) <= 1e-4 * max(1.0, float(np.abs(x_).max())) for x_ in wins):
            acc.skip("time_surrogate_*: sampled window with a spread below 1e-4 of its magnitude "
                     "(constant or not in single precision): not compared")
            continue
        # ---- cross-correlation
        F = np.full((2 * tm + 1, N, N), np.nan)
        for t in range(2 * tm + 1):
            for i in range(N):
                for j in range(N):
                    F[t, i, j] = S.pearson(d[times, i], d[times + t - tm, j])
        for mode in ("all", "sum", "max"):
            acc.case(wkey(w) + f"|cc|{part}|{mode}", nontriv, sample=w if mode == "all" else None)
            check = f"pure.time_surrogate_for_cc/{part}-{mode}"
            np.random.seed(rs)
            ok, x = _call(acc, check, w, pp.time_surrogate_for_cc, sample_range=n_s, tau_max=tm,
                          lag_mode=mode)
            if not ok:
                break
            msg = _two_sided_summary_msg(x, F, tm, mode, signed=True)
            if msg:
                acc.fail(check, w, msg)
        # ---- mutual information (normalised, equal-count bins of the sampled values)
        if n_s < 2:
            continue
        b = _bins_eff(n_s, bins)
        G = _pure_mi_function({(v, t): d[times + t - tm, v] for v in range(N)
                               for t in range(2 * tm + 1)}, tm, bins, b)
        for mode in ("all", "sum", "max"):
            acc.case(wkey(w) + f"|mi|{part}|{mode}", nontriv)
            check = f"pure.time_surrogate_for_mi/{part}-{mode}"
            np.random.seed(rs)
            ok, x = _call(acc, check, w, pp.time_surrogate_for_mi, bins=bins, sample_range=n_s,
                          tau_max=tm, lag_mode=mode)
            if not ok:
                break
            msg = _two_sided_summary_msg(x, G, tm, mode, signed=False)
            if msg:
                acc.fail(check, w, msg)


def fam_edges(w, acc):
    """mutual_information_edges (default tau = 0): the stated binning - 'adaptive bins, where each
    marginal bin contains the same number of samples'; returns the lower edges of the bins of
    every series, i.e. every ceil(T / bins)-th order statistic; these are the bins that
    mutual_information(tau_max=0) uses; the data are not altered."""
    d = get_data(w["data"])
    bins = w["bins"]
    T, N = d.shape
    acc.case(wkey(w), n_nonconst(d) >= 2, sample=w)
    pp = _pp(d)
    before = pp.dataarray.copy()
    check = "pure.mutual_information_edges/equal-count-lower-edges"
    ok, e = _call(acc, check, w, pp.mutual_information_edges, bins=bins)
    if not ok:
        return
    step = int(math.ceil(T / float(bins)))
    want = np.array([sorted(d[:, i].tolist())[::step] for i in range(N)])
    e = np.asarray(e)
    if e.shape != want.shape or not np.array_equal(e, want):
        acc.fail(check, w, f"got {e.tolist()} expected {want.tolist()}")
        return
    if not np.array_equal(pp.dataarray, before):
        acc.fail("pure.mutual_information_edges/data-unchanged", w, "dataarray modified by the call")
        return
    b = e.shape[1]
    if b < 2:
        return                # one bin: the normalisation by log(bins) is undefined
    acc.case(wkey(w) + "|mi", n_nonconst(d) >= 2)
    sym = [np.array([int((e[i] <= v).sum()) - 1 for v in d[:, i]]) for i in range(N)]
    doc = np.array([[_pure_mi_doc(sym[i], sym[j], b) for j in range(N)] for i in range(N)])
    ok, a = _call(acc, "pure.mutual_information_edges/binning-of-mutual_information", w,
                  pp.mutual_information, bins=bins, tau_max=0, lag_mode="all")
    if ok:
        msg = cmp_defined(a[0], doc)
        if msg:
            acc.fail("pure.mutual_information_edges/binning-of-mutual_information", w, msg)


def fam_cns(w, acc):
    """correlatedNoiseSurrogates: 'share their power spectrum and autocorrelation function with
    the original time series' (per series, same dimensions, real); shuffled_surrogate_for_cc / _mi
    with fourier=True are the test matrices computed from such surrogates: symmetric, bounded,
    unit diagonal for non-constant series."""
    d = get_data(w["data"])
    tm, bins, rs = w["tau_max"], w["bins"], w["rseed"]
    T, N = d.shape
    cr = T - 2 * tm
    nontriv = n_nonconst(d) >= 2
    pp = _pp(d)
    orig = np.ascontiguousarray(d.T.copy())
    amp0 = np.abs(np.fft.rfft(orig, axis=1))
    scale = max(1.0, float(amp0.max()))
    np.random.seed(rs)
    for call_no in (1, 2):               # second call: the FFT cached by the first one
        acc.case(wkey(w) + f"|cns|{call_no}", nontriv, sample=w if call_no == 1 else None)
        check = "pure.correlatedNoiseSurrogates/amplitude-spectrum"
        ok, s_ = _call(acc, check, w, pp.correlatedNoiseSurrogates, orig.copy())
        if not ok:
            break
        s_ = np.asarray(s_)
        if s_.shape != orig.shape or s_.dtype.kind != "f" or not np.all(np.isfinite(s_)):
            acc.fail("pure.correlatedNoiseSurrogates/same-dimensions-real", w,
                     f"shape {s_.shape} dtype {s_.dtype}")
            break
        dev = np.abs(np.abs(np.fft.rfft(s_, axis=1)) - amp0)
        if dev.max() > 1e-9 * scale:
            k = np.unravel_index(np.argmax(dev), dev.shape)
            acc.fail(check, w, f"call {call_no}: series {k[0]} frequency {k[1]}: |FFT| of the surrogate "
                               f"{np.abs(np.fft.rfft(s_, axis=1))[k]!r}, of the original {amp0[k]!r}")
            break
    nonconst = np.array([not np.all(d[:, k] == d[0, k]) for k in range(N)])
    if cr < 4:
        return
    for kind in ("cc", "mi"):
        if kind == "mi" and cr % bins:
            continue          # unequal bin occupation: the documented formula is not bounded by 1
        fun = pp.shuffled_surrogate_for_cc if kind == "cc" else pp.shuffled_surrogate_for_mi
        kw = {} if kind == "cc" else {"bins": bins}
        for mode in ("all", "sum", "max"):
            acc.case(wkey(w) + f"|{kind}|fourier|{mode}", nontriv)
            check = f"pure.shuffled_surrogate_for_{kind}[fourier]/{mode}"
            np.random.seed(rs)
            ok, x = _call(acc, check, w, fun, fourier=True, tau_max=tm, lag_mode=mode, **kw)
            if not ok:
                break
            x = np.asarray(x, dtype=np.float64)
            want_shape = (2 * tm + 1, N, N) if mode == "all" else (2, N, N)
            if x.shape != want_shape:
                acc.fail(check, w, f"shape {x.shape} != {want_shape}")
                continue
            mats = x if mode == "all" else (x if mode == "sum" else x[:1])
            if kind == "mi":
                # a constant series stays constant (all values tied: the documented formula does not
                # apply); only the pairs of non-constant series are judged
                keep = np.nonzero(nonconst)[0]
                mats = [M_[np.ix_(keep, keep)] for M_ in mats]
                if len(keep) == 0:
                    continue
            top = (tm + 1.0) if mode == "sum" else 1.0
            lo = -top if (kind == "cc" and mode == "all") else 0.0
            # normalised MI (2 log b - H_xy) / log b: in [0, 1] with unit diagonal when every bin holds
            # the same number of samples; surrogates of commensurate sinusoids can have tied values,
            # then only 0 <= . <= 2 and diagonal >= 1 follow from 0 <= H_xy <= 2 log b, H_xx <= log b
            loose = kind == "mi" and w["data"].get("kind") == "sine"
            hi = 2.0 * top if loose else top
            msg = None
            for M_ in mats:
                dg = np.diag(M_)[nonconst] if kind == "cc" else np.diag(M_)
                if not np.all(np.isfinite(M_)) or M_.min() < lo - 2 * ATOL * top or M_.max() > hi * (1 + 2 * ATOL) + 2 * ATOL:
                    msg = f"range [{M_.min()!r}, {M_.max()!r}] outside [{lo}, {hi}]"
                elif np.any(~tol_ok(M_, M_.T, 2.0 * top)):
                    msg = "matrix not symmetric"
                elif (np.any(dg < top - 4 * ATOL * top) if loose else np.any(~tol_ok(dg, top, 2.0 * top))):
                    msg = f"diagonal {np.diag(M_).tolist()} != {top} for the non-constant series"
                if msg:
                    break
            if not msg and mode == "max" and not (np.all(x[1] == np.round(x[1])) and np.all(np.abs(x[1]) <= tm)):
                msg = "lags outside -tau_max..tau_max"
            if msg:
                acc.fail(check, w, msg)


def fam_nd(w, acc):
    """Documented input arrays [time, index, index] (3-D) and 4-D: the estimates are those of the
    series flattened over the non-time axes (node k = row-major index)."""
    from pyunicorn.funcnet import CouplingAnalysis, CouplingAnalysisPurePython
    d = get_data(w["data"])
    tm = w["tau_max"]
    T, N = d.shape
    nontriv = n_nonconst(d) >= 2
    ref2 = S.two_sided_cc(d, tm)
    ref1 = S.lagged_cc(d, tm)
    for shape in w["shapes"]:
        nd = len(shape) + 1
        arr = np.ascontiguousarray(d.reshape((T,) + tuple(shape)))
        ww = dict(w, shapes=[shape])
        acc.case(wkey(ww) + "|pure", nontriv, sample=ww)
        check = f"pure.init/{nd}d-equals-flattened"
        ok, pp = _call(acc, check, ww, CouplingAnalysisPurePython, arr.copy(), silence_level=3)
        if ok:
            if getattr(pp, "N", None) != N or getattr(pp, "total_time", None) != T:
                acc.fail(check, ww, f"N={getattr(pp, 'N', None)} total_time={getattr(pp, 'total_time', None)}, "
                                    f"expected {N}, {T}")
            else:
                ok, a = _call(acc, check, ww, pp.cross_correlation, tau_max=tm, lag_mode="all")
                if ok:
                    msg = _two_sided_summary_msg(a, ref2, tm, "all", signed=True)
                    if msg:
                        acc.fail(check, ww, msg)
        acc.case(wkey(ww) + "|compiled", nontriv)
        check = f"CouplingAnalysis.init/{nd}d-equals-flattened"
        ok, ca = _call(acc, check, ww, CouplingAnalysis, arr.copy(), silence_level=3)
        if ok:
            ok, a = _call(acc, check, ww, ca.cross_correlation, tau_max=tm, lag_mode="all")
            if ok:
                msg = (f"N={ca.N}" if ca.N != N else None) or cmp_defined(a, ref1, undefined="zero")
                if msg:
                    acc.fail(check, ww, msg)


def fam_testdata(w, acc):
    """CouplingAnalysis.test_data(): 'example test data' - held only to being a data set in the
    domain of the property (2-D float array, T >= 3, N >= 2, finite); the estimator clauses are
    evaluated on it by the cc / ccpure / mi / it families (data kind 'test_data')."""
    from pyunicorn.funcnet import CouplingAnalysis
    acc.case(wkey(w), True, sample=w)
    ok, d = _call(acc, "test_data/is-a-data-set", w, CouplingAnalysis.test_data)
    if not ok:
        return
    d = np.asarray(d)
    if d.ndim != 2 or d.shape[0] < 3 or d.shape[1] < 2 or d.dtype.kind != "f" or \
            not np.all(np.isfinite(d)) or n_nonconst(d) < 2:
        acc.fail("test_data/is-a-data-set", w, f"shape {d.shape} dtype {d.dtype}")


# =============================================================================== climate classes

def _climate_data(obs, cycle):
    from pyunicorn.core.geo_grid import GeoGrid
    from pyunicorn.climate import ClimateData
    T, N = obs.shape
    grid = GeoGrid(time_seq=np.arange(T, dtype=float), lat_seq=np.linspace(-60, 60, N),
                   lon_seq=np.linspace(0, 150, N), silence_level=3)
    return ClimateData(observable=obs.copy(), grid=grid, time_cycle=cycle, silence_level=3)


def hist_mi_reference(X, n_bins, guard):
    """X[time, node] (already on its final scale).  Equal-width cells over the common range."""
    lo, hi = float(X.min()), float(X.max())
    N = X.shape[1]
    sym, amb = [], []
    for i in range(N):
        s, a_ = S.equal_width_symbols(X[:, i], lo, hi, n_bins, guard)
        sym.append(s)
        amb.append(a_)
    R = np.full((N, N), np.nan)
    for i in range(N):
        for j in range(N):
            if i != j and not amb[i] and not amb[j]:
                R[i, j] = S.plugin_mi(sym[i], sym[j])
    return R, sum(amb)


def fam_clim(w, acc):
    import pyunicorn.climate as pc
    d = get_data(w["data"])
    cls_name, cycle, winter = w["cls"], w["cycle"], w["winter_only"]
    T, N = d.shape
    cls = getattr(pc, cls_name)
    aff = is_affine(w["data"])
    with quiet():
        cd = _climate_data(d, cycle)
        lib_anomaly = np.array(cd.anomaly(), dtype=np.float64)
    # affine families: the reference starts from the harness' own phase-mean removal (extended
    # precision), the library is run through its whole pipeline observable -> anomaly -> similarity
    anomaly = own_anomaly(d, cycle).astype(np.float64) if aff else lib_anomaly
    if winter:
        years = T // 12
        idx = [t for t in range(years * 12) if t % 12 in (0, 1, 11)]
        anomaly = anomaly[idx]
        lib_anomaly = lib_anomaly[idx]
    nontriv = n_nonconst(anomaly) >= 2
    try:
        with quiet():
            net = cls(cd, threshold=0.5, winter_only=winter, silence_level=3)
            sim = np.array(net.similarity_measure())
            signed = np.array(net.calculate_similarity_measure(lib_anomaly.copy()))
    except Exception as e:    # pylint: disable=broad-except
        if cls_name == "PartialCorrelationClimateNetwork" and \
                not np.isfinite(S.corr_condition_number(anomaly)):
            acc.case(wkey(w) + "|undefined", False)
            acc.skip("PartialCorrelationClimateNetwork raises on a constant anomaly column "
                     "(correlation matrix undefined): not compared")
            return
        acc.fail(f"{cls_name}/runs", w, f"{type(e).__name__}: {e}")
        return
    acc.case(wkey(w), nontriv, sample=w)
    if sim.shape != (N, N) or signed.shape != (N, N):
        acc.fail(f"{cls_name}/shape", w, f"{sim.shape} {signed.shape}")
        return
    offd = ~np.eye(N, dtype=bool)
    ref = None
    undefined = "skip"
    noisy = []
    if aff:
        # series whose anomaly is not well above the float64 rounding noise at the magnitude of
        # the observable (e.g. an exactly periodic signal removed by the phase means) have no
        # reproducible statistic: pairs involving them are not compared
        floor = 1e7 * np.finfo(np.float64).eps * np.abs(d).max(axis=0)
        noisy = [k for k in range(N) if anomaly[:, k].std() < floor[k]]
        if noisy:
            acc.skip("affine family: pairs involving a series whose anomaly spread is below 1e7 "
                     "eps x max|observable| (rounding noise) are not compared")
            # (partial correlation and the common histogram range depend on every series)
            if cls_name in ("PartialCorrelationClimateNetwork", "MutualInfoClimateNetwork") \
                    or len(noisy) > N - 2:
                return
    if cls_name == "TsonisClimateNetwork":
        ref = S.pearson_matrix(anomaly)
        chk = "equals-pearson"
    elif cls_name == "SpearmanClimateNetwork":
        ref = S.spearman_matrix(anomaly)
        if not w.get("probe_ties"):
            tied = [k for k in range(N) if len(np.unique(anomaly[:, k])) < anomaly.shape[0]]
            if aff:
                # rank order must be decided by the float64 data: values of a series closer than
                # the rounding noise of float64 at the magnitude of the observable count as tied
                noise = 64 * np.finfo(np.float64).eps * np.abs(d).max(axis=0)
                tied = [k for k in range(N) if k in tied
                        or np.diff(np.sort(anomaly[:, k])).min() <= noise[k]]
            if tied:
                acc.skip("SpearmanClimateNetwork: pairs involving an anomaly series with ties are "
                         "compared only in the dedicated probe (library uses ordinal ranks)")
                ref[tied, :] = np.nan
                ref[:, tied] = np.nan
        chk = "ties-average-rank" if w.get("probe_ties") else "equals-spearman"
        if w.get("probe_ties"):
            undefined = "zero"
    elif cls_name == "PartialCorrelationClimateNetwork":
        cond = S.corr_condition_number(anomaly)
        if not cond < 1e6 or anomaly.shape[0] <= N + 2:
            acc.skip("partial correlation with singular / ill-conditioned correlation matrix "
                     "(constant, duplicated, anti-correlated columns, N >= T-2): undefined, "
                     "not compared")
            return
        ref = S.partial_corr_matrix(anomaly)
        chk = "equals-partial-correlation"
    elif cls_name == "MutualInfoClimateNetwork":
        if n_nonconst(anomaly) == 0:
            return
        X = anomaly - anomaly.mean(axis=0)
        sd = np.sqrt((X * X).mean(axis=0))
        with np.errstate(all="ignore"):
            X = np.where(sd > 0, X / sd, 0.0)
        X = X.astype(np.float32).astype(np.float64)
        # float32 cell index: relative error of scaling * (x - min) * 32 is < 3e-7, i.e. < 1e-5
        # cell widths; series with a value closer than 5e-5 to an inner boundary are left out
        ref, amb = hist_mi_reference(X, 32, guard=5e-5)
        if amb:
            acc.skip("MutualInfoClimateNetwork: pairs involving a series with a normalised value "
                     "within 5e-5 cell widths of a cell boundary (float32 binning ambiguous) "
                     "are not compared")
        chk = "equals-histogram-mi"
    if noisy:
        ref = np.array(ref, dtype=np.float64)
        ref[noisy, :] = np.nan
        ref[:, noisy] = np.nan
    ref_od = np.where(offd, ref, np.nan)
    msg = cmp_defined(signed[offd], ref[offd], undefined=undefined)
    if msg:
        acc.fail(f"{cls_name}/{chk}", dict(w, observe="calculate_similarity_measure"),
                 msg + f"; got {np.round(signed[offd], 6).tolist()} expected "
                       f"{np.round(ref[offd], 6).tolist()} (off-diagonal, row-major)")
    msg = cmp_defined(sim[offd], np.abs(ref[offd]), undefined=undefined)
    if msg:
        acc.fail(f"{cls_name}/{chk}", dict(w, observe="similarity_measure"), msg)
    fin = np.isfinite(ref_od)
    if np.any(fin & ~tol_ok(signed, signed.T, 2.0)):
        acc.fail(f"{cls_name}/symmetric", w, "matrix not symmetric")
    if cls_name == "MutualInfoClimateNetwork":
        if np.any(signed[fin] < -ATOL) or np.any(signed[fin] > math.log(32) + 2 * ATOL):
            acc.fail(f"{cls_name}/bounds", w, "MI outside [0, log 32]")
    elif np.any(np.abs(signed[fin]) > 1 + 2 * ATOL):
        acc.fail(f"{cls_name}/bounds", w, "|value| > 1")
    if not w.get("rel") or w.get("probe_ties"):
        return
    # ---- relations through the whole pipeline (observable -> anomaly -> similarity)
    rng = np.random.RandomState(w["rel"])
    positive = cls_name in ("MutualInfoClimateNetwork",)
    a, b = affine_params(rng, N, positive=positive,
                         exact=(cls_name == "SpearmanClimateNetwork"
                                and w["data"].get("kind") == "sine"))
    p = rng.permutation(N)

    def pipeline(obs):
        with quiet():
            cd2 = _climate_data(obs, cycle)
            net2 = cls(cd2, threshold=0.5, winter_only=winter, silence_level=3)
            an2 = cd2.anomaly()
            if winter:
                an2 = an2[idx]
            return np.array(net2.calculate_similarity_measure(np.array(an2)))

    acc.case(wkey(w) + "|affine", nontriv)
    s2 = pipeline(d * a + b)
    sg = np.ones((N, N)) if cls_name == "MutualInfoClimateNetwork" else np.sign(np.outer(a, a))
    exp = np.where(fin, sg * signed, np.nan)
    msg = cmp_defined(s2, exp, mult=4.0 if cls_name.startswith("Partial") else 2.0)
    if msg and cls_name == "MutualInfoClimateNetwork":
        # cell assignment of a value may legitimately change when it sits on a boundary
        msg = None if hist_mi_reference(X, 32, guard=1e-3)[1] else msg
    if msg:
        acc.fail(f"{cls_name}/affine-invariance", dict(w, a=a, b=b), msg)
    acc.case(wkey(w) + "|perm", nontriv)
    s3 = pipeline(d[:, p])
    exp = np.where(fin, signed, np.nan)[np.ix_(p, p)]
    msg = cmp_defined(s3, exp, mult=4.0 if cls_name.startswith("Partial") else 2.0)
    if msg:
        acc.fail(f"{cls_name}/permutation", dict(w, perm=p), msg)


# ---- MutualInfoClimateNetwork: the matrix stored in / reloaded from the working directory

def _clim_mi_reference(anomaly):
    """Histogram MI (32 equal-width cells over the common range of the standardised anomalies,
    stored in float32 as the library does); pairs involving a series with a value within 5e-5
    cell widths of a cell boundary are NaN."""
    X = anomaly - anomaly.mean(axis=0)
    sd = np.sqrt((X * X).mean(axis=0))
    with np.errstate(all="ignore"):
        X = np.where(sd > 0, X / sd, 0.0)
    X = X.astype(np.float32).astype(np.float64)
    return hist_mi_reference(X, 32, guard=5e-5)[0]


def _winter_rows(T):
    return [t for t in range((T // 12) * 12) if t % 12 in (0, 1, 11)]


def fam_midump(w, acc):
    """mutual_information(anomaly, dump=True) / set_winter_only(.., dump=True): every matrix the
    object returns or adopts equals the histogram MI of the anomaly series it was asked for - when
    it is computed and stored, when it is read back (same object, a second object on the same
    data), when the file in the working directory has the wrong shape, and when the selection of
    samples (winter_only) changed since the file was written.  Runs in its own temporary working
    directory; the previous one is restored."""
    import shutil
    from pyunicorn.climate import MutualInfoClimateNetwork
    d = get_data(w["data"])
    T, N = d.shape
    cycle = 12
    here = os.getcwd()
    tmp = tempfile.mkdtemp(prefix="c10_midump_")
    os.chdir(tmp)
    try:
        with quiet():
            cd = _climate_data(d, cycle)
            full = np.array(cd.anomaly(), dtype=np.float64)
        rows = _winter_rows(T)
        sel = {True: full[rows], False: full}
        ref = {k: _clim_mi_reference(v) for k, v in sel.items()}
        offd = ~np.eye(N, dtype=bool)
        nontriv = n_nonconst(full) >= 2 and bool(np.isfinite(ref[False][offd]).any())
        acc.case(wkey(w), nontriv, sample=w)

        def judge(check, got, winter, step):
            got = np.asarray(got)
            if got.shape != (N, N):
                acc.fail(f"MutualInfoClimateNetwork/{check}", dict(w, step=step), f"shape {got.shape}")
                return
            msg = cmp_defined(np.abs(got[offd]), ref[winter][offd])
            if msg:
                acc.fail(f"MutualInfoClimateNetwork/{check}", dict(w, step=step),
                         f"{step}: {msg} (off-diagonal, row-major; reference = histogram MI of the "
                         f"{'winter' if winter else 'full'} anomaly series)")

        w0 = bool(w["winter_only"])
        with quiet():
            net = MutualInfoClimateNetwork(cd, threshold=0.5, winter_only=w0, silence_level=3)
        judge("dump-equals-histogram-mi", net.similarity_measure(), w0, "constructor")
        # -- store
        with quiet():
            m1 = np.array(net.mutual_information(sel[w0].copy(), dump=True))
        judge("dump-equals-histogram-mi", m1, w0, "mutual_information(anomaly, dump=True) [store]")
        if not os.path.isfile(net.mi_file):
            acc.fail("MutualInfoClimateNetwork/dump-file-written", w, f"no file {net.mi_file!r} after dump=True")
            return
        # -- reload: same arguments, no arguments, a second object on the same data
        with quiet():
            m2 = np.array(net.mutual_information(sel[w0].copy(), dump=True))
            m3 = np.array(net.mutual_information())
            net2 = MutualInfoClimateNetwork(_climate_data(d, cycle), threshold=0.5, winter_only=w0,
                                            silence_level=3)
        for step, m in (("mutual_information(anomaly, dump=True) [reload]", m2),
                        ("mutual_information() [reload]", m3),
                        ("second object, same data and directory", np.array(net2.similarity_measure()))):
            acc.case(wkey(w) + "|" + step, nontriv)
            if m.shape != m1.shape or not np.array_equal(np.abs(m), np.abs(m1), equal_nan=True):
                acc.fail("MutualInfoClimateNetwork/dump-reload-equal", dict(w, step=step),
                         f"{step}: differs from the stored matrix")
        # -- the selection of samples changes while the file exists (default dump=True)
        for k, flag in enumerate([not w0, w0]):
            acc.case(wkey(w) + f"|toggle{k}", nontriv)
            with quiet():
                net.set_winter_only(flag)
            if bool(net.winter_only()) != flag:
                acc.fail("MutualInfoClimateNetwork/set_winter_only-dump-equals-histogram-mi",
                         dict(w, step=k), f"winter_only() reports {net.winter_only()!r}")
            judge("set_winter_only-dump-equals-histogram-mi", net.similarity_measure(), flag,
                  f"set_winter_only({flag}) #{k + 1} with the default dump=True")
        # -- a file of the wrong shape in the directory is recomputed, not used
        d2 = gen_data("ar", T, N + 1, w["data"].get("dseed", 1) + 1)
        with quiet():
            cd2 = _climate_data(d2, cycle)
            an2 = np.array(cd2.anomaly(), dtype=np.float64)
            for f in os.listdir("."):
                os.remove(f)
            net.mutual_information(sel[w0].copy(), dump=True)           # N x N file
            net3 = MutualInfoClimateNetwork(cd2, threshold=0.5, winter_only=False, silence_level=3)
        acc.case(wkey(w) + "|wrong-shape", True)
        r3 = _clim_mi_reference(an2)
        s3 = np.array(net3.similarity_measure())
        o3 = ~np.eye(N + 1, dtype=bool)
        msg = f"shape {s3.shape}" if s3.shape != (N + 1, N + 1) else cmp_defined(s3[o3], r3[o3])
        if msg:
            acc.fail("MutualInfoClimateNetwork/dump-wrong-shape-recomputed", w, msg)
    except Exception as e:    # pylint: disable=broad-except
        tb = traceback.format_exc().strip().splitlines()
        acc.fail("MutualInfoClimateNetwork/dump-runs", w,
                 f"{type(e).__name__}: {e} @ {tb[-3].strip() if len(tb) >= 3 else ''}")
    finally:
        os.chdir(here)
        shutil.rmtree(tmp, ignore_errors=True)


# =============================================================================== Surrogates tests

def _normalise_rows(X):
    X = X - X.mean(axis=1, keepdims=True)
    sd = X.std(axis=1, keepdims=True)
    with np.errstate(all="ignore"):
        return np.where(sd > 0, X / sd, 0.0)


def fam_surr(w, acc):
    from pyunicorn.timeseries import Surrogates
    d = get_data(w["data"])           # [time, node]
    T, N = d.shape
    n_bins = w["n_bins"]
    rng = np.random.RandomState(w["sseed"])
    aff = is_affine(w["data"])
    orig = _normalise_rows(ref_data(w["data"], d).T.copy())
    oref = sref = None
    if w["surrogate"] == "shuffle":
        sur = np.stack([rng.permutation(orig[i]) for i in range(N)])
    elif w["surrogate"] == "self":
        # the library's own pipeline: Surrogates.normalize_original_data, then the data against
        # itself; the reference below is the Pearson matrix / histogram MI of these series
        with quiet():
            sobj = Surrogates(d.T.copy(), silence_level=3)
            sobj.normalize_original_data()
        if aff:
            # affine family: the reference is computed from the harness' own normalisation of the
            # series, the library works on what normalize_original_data made of the raw series
            oref = sref = np.ascontiguousarray(orig)
        orig = np.array(sobj.original_data, dtype=np.float64)
        sur = orig.copy()
    else:
        sur = _normalise_rows(rng.randn(N, T))
    orig = np.ascontiguousarray(orig)
    sur = np.ascontiguousarray(sur)
    if oref is None:
        oref, sref = orig, sur
    nontriv = n_nonconst(d) >= 2
    offd = ~np.eye(N, dtype=bool)
    # ---- Pearson
    acc.case(wkey(w) + "|pearson", nontriv, sample=w)
    with quiet():
        pc_ = Surrogates.test_pearson_correlation(orig.copy(), sur.copy())
    ref = np.full((N, N), np.nan)
    for i in range(N):
        for j in range(N):
            if i != j:
                ref[i, j] = S.pearson(oref[i], sref[j])
    msg = cmp_defined(pc_, ref, undefined="skip" if aff else "zero")
    if msg:
        acc.fail("Surrogates.test_pearson_correlation/equals-pearson", w, msg)
    if np.any(np.abs(pc_) > 1 + 2 * ATOL):
        acc.fail("Surrogates.test_pearson_correlation/bounds", w, "|r| > 1")
    if w["surrogate"] == "self" and np.any(offd & ~tol_ok(pc_, pc_.T, 2.0)):
        acc.fail("Surrogates.test_pearson_correlation/symmetric", w,
                 "test matrix of the data against itself is not symmetric")
    # ---- mutual information
    if n_nonconst(d) == 0:
        return
    acc.case(wkey(w) + "|mi", nontriv)
    with quiet():
        mi_ = Surrogates.test_mutual_information(orig.copy(), sur.copy(), n_bins=n_bins)
    lo = min(oref.min(), sref.min())
    hi = max(oref.max(), sref.max())
    so, ss, ao, as_ = [], [], [], []
    # (affine family: library and reference normalise independently; their values agree to
    #  ~1e-6, i.e. 1e-4 cell widths is a safe ambiguity margin)
    guard = 1e-4 if aff else 1e-9
    for i in range(N):
        s1, a1 = S.equal_width_symbols(oref[i], lo, hi, n_bins, guard)
        s2, a2 = S.equal_width_symbols(sref[i], lo, hi, n_bins, guard)
        so.append(s1)
        ss.append(s2)
        ao.append(a1)
        as_.append(a2)
    if any(ao) or any(as_):
        acc.skip("Surrogates.test_mutual_information: pairs involving a series with a value within "
                 "1e-9 (affine family: 1e-4) cell widths of a cell boundary are not compared")
    ref = np.full((N, N), np.nan)
    for i in range(N):
        for j in range(N):
            if i != j and not ao[i] and not as_[j]:
                ref[i, j] = S.plugin_mi(so[i], ss[j])
    msg = cmp_defined(mi_, ref)
    if msg:
        acc.fail("Surrogates.test_mutual_information/equals-histogram-mi", w, msg)
    if np.any(mi_ < -ATOL) or np.any(mi_ > math.log(n_bins) + 2 * ATOL):
        acc.fail("Surrogates.test_mutual_information/bounds", w, "outside [0, log n_bins]")
    if w["surrogate"] == "self" and np.any(offd & ~tol_ok(mi_, mi_.T, 2.0)):
        acc.fail("Surrogates.test_mutual_information/symmetric", w, "not symmetric")
    if not w.get("rel"):
        return
    # ---- relations: normalise -> test; affine map of the raw series, permutation of the series
    rng2 = np.random.RandomState(w["rel"])
    a, b = affine_params(rng2, N)
    p = rng2.permutation(N)
    acc.case(wkey(w) + "|affine", nontriv)
    o2 = np.ascontiguousarray(_normalise_rows((d * a + b).T.copy()))
    with quiet():
        pc2 = Surrogates.test_pearson_correlation(o2.copy(), sur.copy())
    exp = np.where(np.isnan(_ref_or_nan(orig, sur)), np.nan, np.sign(a)[:, None] * pc_)
    msg = cmp_defined(pc2, exp, mult=2.0)
    if msg:
        acc.fail("Surrogates.test_pearson_correlation/affine-invariance", dict(w, a=a, b=b), msg)
    acc.case(wkey(w) + "|perm", nontriv)
    with quiet():
        pc3 = Surrogates.test_pearson_correlation(np.ascontiguousarray(orig[p]),
                                                  np.ascontiguousarray(sur[p]))
        mi3 = Surrogates.test_mutual_information(np.ascontiguousarray(orig[p]),
                                                 np.ascontiguousarray(sur[p]), n_bins=n_bins)
    msg = cmp_defined(pc3, pc_[np.ix_(p, p)].astype(float), mult=2.0) or \
        cmp_defined(mi3, mi_[np.ix_(p, p)].astype(float), mult=2.0)
    if msg:
        acc.fail("Surrogates.test_*/permutation", dict(w, perm=p), msg)


def _ref_or_nan(orig, sur):
    N = orig.shape[0]
    R = np.full((N, N), np.nan)
    for i in range(N):
        for j in range(N):
            if i != j:
                R[i, j] = S.pearson(orig[i], sur[j])
    return R


# =============================================================================== case lists

FAMILIES = {
    "cc": fam_cc, "sym": fam_sym, "lag8": fam_lag8, "mi": fam_mi, "binlag": fam_binlag,
    "it": fam_it, "gaussinf": fam_gaussinf, "ccpure": fam_ccpure, "mipure": fam_mipure, "shuf": fam_shuf,
    "clim": fam_clim, "surr": fam_surr, "constnd": fam_constnd,
    "tsur": fam_tsur, "edges": fam_edges, "cns": fam_cns, "nd": fam_nd, "testdata": fam_testdata,
    "midump": fam_midump,
}

KINDS = ["rand", "ar", "const", "dup", "anti", "ties", "lagcopy", "sine", "mixed"]
CLIMATE = ["TsonisClimateNetwork", "SpearmanClimateNetwork", "PartialCorrelationClimateNetwork",
           "MutualInfoClimateNetwork"]


def enumerate_series(T, alphabet):
    for vals in itertools.product(alphabet, repeat=2 * T):
        yield [[vals[2 * t], vals[2 * t + 1]] for t in range(T)]


def build_cases(tier, seed):
    rng = np.random.RandomState(seed)
    thorough = tier == "thorough"
    cases = []

    def ds():
        return int(rng.randint(1, 2 ** 31 - 1))

    # ---- dedicated probes (one case each)
    cases.append({"family": "lag8", "T": 300, "tau_max": 135, "shift": 130, "dseed": 12345})
    cases.append({"family": "binlag", "data": {"kind": "ar", "T": 60, "N": 3, "dseed": 777},
                  "tau_max": 6, "bins": 4})
    cases.append({"family": "gaussinf", "data": {"kind": "mixed", "T": 22, "N": 4,
                                                  "dseed": 159193099}, "tau_max": 4})
    cases.append({"family": "constnd", "tau_max": 0, "data": {"explicit": [
        [0.3, 0.1], [-1.2, 0.1], [0.8, 0.1], [2.1, 0.1], [-0.4, 0.1], [0.9, 0.1], [-1.7, 0.1]]}})
    cases.append({"family": "clim", "cls": "SpearmanClimateNetwork", "cycle": 1,
                  "winter_only": False, "probe_ties": True,
                  "data": {"explicit": [[0, 0, 2], [0, 1, 2], [1, 0, 2], [1, 1, 2],
                                        [2, 3, 2], [2, 2, 2], [3, 3, 2], [3, 2, 2]]}})
    # ---- exhaustive short series, cross-correlation (compiled and pure)
    for T, alphabet in ([(3, (-1, 0, 1))] + ([(4, (0, 1, 2))] if thorough else [])):
        allser = list(enumerate_series(T, alphabet))
        for x in allser:
            for tm in range(0, T - 1):
                cases.append({"family": "cc", "data": {"explicit": x}, "tau_max": tm})
            for tm in range(0, T):
                if T - 2 * tm >= 2:
                    cases.append({"family": "ccpure", "data": {"explicit": x}, "tau_max": tm})
    if not thorough:
        ser4 = list(enumerate_series(4, (0, 1, 2)))
        for k in rng.choice(len(ser4), 250, replace=False):
            cases.append({"family": "cc", "data": {"explicit": ser4[k]}, "tau_max": int(rng.randint(3))})
            cases.append({"family": "ccpure", "data": {"explicit": ser4[k]}, "tau_max": int(rng.randint(2))})
    # ---- symmetrize_by_absmax: all 2x2 over a value/lag grid, a grid of 3x3
    vals = (-1.0, -0.5, 0.0, 0.5, 1.0)
    lags = (-127, -1, 0, 3, 127)
    for a_, b_ in itertools.product(vals, repeat=2):
        for la, lb in itertools.product(lags, repeat=2):
            cases.append({"family": "sym", "S": [[1.0, a_], [b_, 1.0]], "L": [[0, la], [lb, 0]]})
    n3 = 2000 if thorough else 300
    for _ in range(n3):
        Sm = rng.choice(vals, (3, 3)).tolist()
        Lm = rng.randint(-127, 128, (3, 3)).tolist()
        cases.append({"family": "sym", "S": Sm, "L": Lm})
    # ---- seeded data sets
    reps = int(os.environ.get("C10_REPS", 100 if thorough else 6))
    for _ in range(reps):
        for kind in KINDS:
            shapes = [(3, 2), (4, 3), (5, 7), (int(rng.randint(8, 30)), int(rng.randint(2, 6))),
                      (int(rng.randint(30, 200)), int(rng.randint(2, 9)))]
            if thorough:
                shapes.append((int(rng.randint(200, 1000)), int(rng.randint(2, 5))))
            for (T, N) in shapes:
                if kind == "mixed" and N < 3:
                    N = 5
                if kind in ("dup", "anti", "lagcopy") and N < 2:
                    continue
                desc = {"kind": kind, "T": T, "N": N, "dseed": ds()}
                tmax_hi = max(0, min(6, T - 3))
                tm = int(rng.randint(0, tmax_hi + 1))
                rel = ds()
                cases.append({"family": "cc", "data": desc, "tau_max": tm, "rel": rel})
                if T <= 200:
                    tmp = int(rng.randint(0, max(0, min(4, (T - 3) // 2)) + 1))
                    cases.append({"family": "ccpure", "data": desc, "tau_max": tmp})
                # Surrogates test matrices
                for sur in ("shuffle", "self", "noise"):
                    cases.append({"family": "surr", "data": desc, "surrogate": sur,
                                  "n_bins": int(rng.choice([2, 3, 8, 32])), "sseed": ds(),
                                  "rel": rel if sur == "shuffle" else 0})
                # climate classes
                if 40 <= T <= 400 and N <= 8 and len(cases) % 3 == 0:
                    cases.append({"family": "clim", "cls": "PartialCorrelationClimateNetwork", "cycle": 1, "winter_only": False,
                                  "data": {"kind": "smooth", "T": T, "N": N, "dseed": ds()}, "rel": 0})
                if T >= 6 and T <= 400:
                    for cls in CLIMATE:
                        cyc = int(rng.choice([1, 2])) if T >= 8 else 1
                        cases.append({"family": "clim", "cls": cls, "cycle": cyc,
                                      "winter_only": False, "data": desc, "rel": rel})
                if 36 <= T <= 400:
                    for cls in CLIMATE:
                        cases.append({"family": "clim", "cls": cls, "cycle": 12,
                                      "winter_only": True, "data": desc, "rel": 0})
                # mutual information / information transfer (Python loops: keep N*T moderate)
                if T <= 200 and N <= 6:
                    bins = int(rng.choice([2, 3, 4, 6, 8]))
                    cases.append({"family": "mi", "data": desc, "tau_max": tm, "estimator": "binning",
                                  "bins": bins, "rel": rel})
                    cases.append({"family": "mi", "data": desc, "tau_max": 0, "estimator": "binning",
                                  "bins": bins})
                    cases.append({"family": "mi", "data": desc, "tau_max": tm, "estimator": "gauss",
                                  "rel": rel})
                    for cm in ("ity", "mit"):
                        past = int(rng.randint(1, 3))
                        if T - tm - past >= 3:
                            cases.append({"family": "it", "data": desc, "tau_max": tm, "past": past,
                                          "cond_mode": cm, "estimator": "gauss", "rel": rel})
                    if T - 2 * 2 >= 4:
                        tmp = int(rng.randint(0, min(2, (T - 4) // 2) + 1))
                        cases.append({"family": "mipure", "data": desc, "tau_max": tmp,
                                      "bins": int(rng.choice([2, 3, 4]))})
                        cases.append({"family": "shuf", "data": desc, "tau_max": tmp,
                                      "bins": int(rng.choice([2, 3, 4])), "rseed": ds() % (2 ** 31)})
                # knn: continuous data only, k well below the window length
                if kind in ("rand", "ar") and 24 <= T <= 200 and N <= 4:
                    k = int(rng.randint(1, max(2, (T - tm - 3) // 4)))
                    k = min(k, 8)
                    cases.append({"family": "mi", "data": desc, "tau_max": tm, "estimator": "knn",
                                  "knn": k, "rel": rel})
                    cases.append({"family": "it", "data": desc, "tau_max": tm, "past": 1,
                                  "cond_mode": str(rng.choice(["ity", "mit"])), "estimator": "knn",
                                  "knn": k, "rel": rel})
        # uniform-marginal domain for the pure-Python / compiled MI pair
        for bins in (2, 3, 4, 5):
            T = bins * int(rng.randint(2, 12))
            desc = {"kind": str(rng.choice(["rand", "ar", "dup", "anti"])), "T": T,
                    "N": int(rng.randint(2, 5)), "dseed": ds()}
            cases.append({"family": "mipure", "data": desc, "tau_max": 0, "bins": bins})
            if T - 2 * bins >= 2 * bins:
                desc2 = dict(desc, T=T + 2 * bins)
                cases.append({"family": "mipure", "data": desc2, "tau_max": bins, "bins": bins})
    return cases


AFF_KINDS = ["rand", "ar", "ar", "lagcopy", "sine", "ties", "dup", "anti", "mixed"]


def gen_affine(rng, N, ratio_max=None):
    """Per-column maps x -> a x + b: |a| log-uniform in [1e-3, 1e3] (with the end points over-
    represented), |b| in {1e3, 1e5, 1e6, 1e7} or log-uniform in [1, 1e7], both signs.
    ratio_max: upper bound on |b| / |a| (offset over spread, the data kinds have spread ~ 1)."""
    a = 10.0 ** rng.uniform(-3, 3, N)
    pick = rng.rand(N)
    a = np.where(pick < 0.15, 1e-3, np.where(pick > 0.85, 1e3, a))
    a *= np.where(rng.rand(N) < 0.5, -1.0, 1.0)
    b = 10.0 ** rng.uniform(0, 7, N)
    pick = rng.rand(N)
    b = np.where(pick < 0.5, np.array([1e3, 1e5, 1e6, 1e7])[rng.randint(0, 4, N)], b)
    b = np.where(pick > 0.8, 1e7, b)
    b *= np.where(rng.rand(N) < 0.5, -1.0, 1.0)
    if ratio_max is not None:
        b = np.sign(b) * np.minimum(np.abs(b), ratio_max * np.abs(a))
    return {"a": [float(v) for v in a], "b": [float(v) for v in b]}


RATIO_SHUF = 10.0     # shuffled_surrogate_for_cc centres in float32
RATIO_DEGEN = 1e8     # Gaussian information transfer (near-degenerate regressions), climate classes
#                       (one float64 mean per phase of the cycle: first-order effect)


def build_affine_cases(tier, seed, ratio_shuf=RATIO_SHUF, ratio_it=RATIO_DEGEN):
    """Affine-offset families: every estimator / lag mode of the existing families on the float64
    series a*x + b (checks carry the suffix @affine)."""
    rng = np.random.RandomState(seed + 7919)
    thorough = tier == "thorough"
    cases = []

    def ds():
        return int(rng.randint(1, 2 ** 31 - 1))

    reps = int(os.environ.get("C10_AFF_REPS", 60 if thorough else 10))
    for _ in range(reps):
        for kind in AFF_KINDS:
            shapes = [(4, 3), (int(rng.randint(6, 30)), int(rng.randint(2, 6))),
                      (int(rng.randint(30, 200)), int(rng.randint(2, 7)))]
            if thorough:
                shapes.append((int(rng.randint(200, 600)), int(rng.randint(2, 5))))
            for (T, N) in shapes:
                if kind == "mixed":
                    N = min(max(N, 3), 4)       # (no constant column: see SCOPE)
                desc = {"kind": kind, "T": T, "N": N, "dseed": ds(), "aff": gen_affine(rng, N)}
                desc3 = dict(desc, aff=gen_affine(rng, N, ratio_max=ratio_it))
                tm = int(rng.randint(0, max(0, min(6, T - 3)) + 1))
                cases.append({"family": "cc", "data": desc, "tau_max": tm})
                if T <= 200:
                    tmp = int(rng.randint(0, max(0, min(4, (T - 3) // 2)) + 1))
                    cases.append({"family": "ccpure", "data": desc, "tau_max": tmp})
                cases.append({"family": "surr", "data": desc, "surrogate": "self",
                              "n_bins": int(rng.choice([2, 3, 8, 32])), "sseed": ds(), "rel": 0})
                if 6 <= T <= 400:
                    for cls in CLIMATE:
                        cyc = int(rng.choice([1, 2, 3])) if T >= 12 else 1
                        cases.append({"family": "clim", "cls": cls, "cycle": cyc, "winter_only": False,
                                      "data": desc3, "rel": 0})
                if 36 <= T <= 400:
                    cls = str(rng.choice(CLIMATE))
                    cases.append({"family": "clim", "cls": cls, "cycle": 12, "winter_only": True,
                                  "data": desc3, "rel": 0})
                if T <= 200 and N <= 6:
                    bins = int(rng.choice([2, 3, 4, 6, 8]))
                    cases.append({"family": "mi", "data": desc, "tau_max": tm, "estimator": "binning",
                                  "bins": bins})
                    cases.append({"family": "mi", "data": desc, "tau_max": 0, "estimator": "binning",
                                  "bins": bins})
                    cases.append({"family": "mi", "data": desc, "tau_max": tm, "estimator": "gauss"})
                    for cm in ("ity", "mit"):
                        past = int(rng.randint(1, 3))
                        if T - tm - past >= 3:
                            cases.append({"family": "it", "data": desc3, "tau_max": tm, "past": past,
                                          "cond_mode": cm, "estimator": "gauss"})
                    if T - 2 * 2 >= 4:
                        tmp = int(rng.randint(0, min(2, (T - 4) // 2) + 1))
                        cases.append({"family": "mipure", "data": desc, "tau_max": tmp,
                                      "bins": int(rng.choice([2, 3, 4]))})
                        # the shuffled-surrogate routine centres in single precision: offsets up to
                        # ratio_shuf x spread only
                        desc2 = dict(desc, aff=gen_affine(rng, N, ratio_max=ratio_shuf))
                        cases.append({"family": "shuf", "data": desc2, "tau_max": tmp,
                                      "bins": int(rng.choice([2, 3, 4])), "rseed": ds() % (2 ** 31)})
    return cases


ND_SHAPES = {4: [[2, 2], [1, 2, 2]], 6: [[2, 3], [3, 2], [1, 2, 3]], 8: [[2, 4], [2, 2, 2]],
             12: [[3, 4], [2, 2, 3]]}


def build_round3_cases(tier, seed):
    """Pure-Python class: time surrogates, bin edges, correlated-noise surrogates, 3-D / 4-D input;
    CouplingAnalysis.test_data as one more data set."""
    rng = np.random.RandomState(seed + 104729)
    thorough = tier == "thorough"
    cases = []

    def ds():
        return int(rng.randint(1, 2 ** 31 - 1))

    # ---- the library's example data set
    td = {"kind": "test_data"}
    cases.append({"family": "testdata"})
    cases.append({"family": "cc", "data": td, "tau_max": 2, "rel": 4242})
    cases.append({"family": "ccpure", "data": td, "tau_max": 2})
    cases.append({"family": "mi", "data": td, "tau_max": 0, "estimator": "binning", "bins": 6})
    cases.append({"family": "mi", "data": td, "tau_max": 2, "estimator": "gauss"})
    for cm in ("ity", "mit"):
        cases.append({"family": "it", "data": td, "tau_max": 2, "past": 1, "cond_mode": cm,
                      "estimator": "gauss"})
    cases.append({"family": "mipure", "data": td, "tau_max": 1, "bins": 4})
    cases.append({"family": "nd", "data": td, "tau_max": 1, "shapes": ND_SHAPES[4]})
    # ---- exhaustive short two-column series: time surrogates, bin edges
    ser4 = list(enumerate_series(4, (0, 1, 2)))
    pick = range(len(ser4)) if thorough else rng.choice(len(ser4), 200, replace=False)
    for k in pick:
        tm = int(k % 2)
        cr = 4 - 2 * tm
        cases.append({"family": "tsur", "data": {"explicit": ser4[k]}, "tau_max": tm, "bins": 2,
                      "rseed": int(k), "sample_range": int(1 + (k // 2) % cr)})
        cases.append({"family": "edges", "data": {"explicit": ser4[k]}, "bins": int(1 + k % 5)})
    # ---- seeded data sets
    reps = int(os.environ.get("C10_R3_REPS", 40 if thorough else 4))
    for _ in range(reps):
        for kind in KINDS:
            shapes = [(5, 2), (int(rng.randint(6, 16)), int(rng.randint(2, 5))),
                      (int(rng.randint(16, 61)), int(rng.randint(2, 6))),
                      (int(rng.randint(60, 121)), int(rng.choice([4, 6, 8, 12])))]
            for (T, N) in shapes:
                if kind == "mixed" and N < 3:
                    N = 5
                desc = {"kind": kind, "T": T, "N": N, "dseed": ds()}
                tm = int(rng.randint(0, min(3, (T - 3) // 2) + 1))
                cr = T - 2 * tm
                bins = int(rng.choice([2, 3, 4, 6]))
                if N <= 6:
                    cases.append({"family": "tsur", "data": desc, "tau_max": tm, "bins": bins,
                                  "rseed": ds() % (2 ** 31), "sample_range": int(rng.randint(2, cr + 1))})
                cases.append({"family": "edges", "data": desc, "bins": int(rng.choice([1, 2, 3, 4, 5, 8, 16, T, T + 3]))})
                if kind != "mixed":
                    # even and odd lengths; every third case with bins dividing the sample length
                    b2 = bins if rng.randint(3) else int([b_ for b_ in (4, 3, 2, 1) if cr % b_ == 0][0])
                    cases.append({"family": "cns", "data": desc, "tau_max": tm, "bins": max(b2, 2) if cr % max(b2, 2) == 0 else bins,
                                  "rseed": ds() % (2 ** 31)})
                if N in ND_SHAPES:
                    cases.append({"family": "nd", "data": desc, "tau_max": int(min(tm, 2)), "shapes": ND_SHAPES[N]})
    # ---- MutualInfoClimateNetwork: matrices stored in / read back from the working directory
    for k in range(12 if thorough else 4):
        desc = {"kind": ["ar", "rand", "lagcopy", "mixed"][k % 4], "T": int(rng.randint(36, 121)),
                "N": int(rng.randint(3, 7)), "dseed": ds()}
        cases.append({"family": "midump", "data": desc, "winter_only": bool(k % 2)})
    return cases


def eval_case(w):
    acc = Acc(tag="@affine" if isinstance(w.get("data"), dict) and is_affine(w["data"]) else "")
    try:
        FAMILIES[w["family"]](w, acc)
    except Exception as e:    # pylint: disable=broad-except
        tb = traceback.format_exc().strip().splitlines()
        acc.fail(f"{w['family']}/harness-or-library-exception", w,
                 f"{type(e).__name__}: {e} @ {tb[-3].strip() if len(tb) >= 3 else ''}")
        acc.case(wkey(w) + "|exception", False)
    return acc


def main():
    args = parse_args()
    rep = Report(PROP, args, SCOPE, RULE)
    try:
        import pyunicorn.funcnet        # noqa: F401  pylint: disable=unused-import
        import pyunicorn.climate        # noqa: F401  pylint: disable=unused-import
        import pyunicorn.timeseries     # noqa: F401  pylint: disable=unused-import
    except Exception as e:    # pylint: disable=broad-except
        print(f"cannot import pyunicorn: {e}", file=sys.stderr)
        sys.exit(3)
    st = S.selftest(np.random.RandomState(args.seed))
    if st:
        print(f"spec self-test failed: {st}", file=sys.stderr)
        sys.exit(3)
    # MutualInfoClimateNetwork looks for a dump file in the working directory
    os.chdir(tempfile.mkdtemp(prefix="c10_"))
    if args.replay:
        with open(args.replay) as f:
            obj = json.load(f)
        wit = obj.get("witness", obj)
        wit = {k: v for k, v in wit.items() if k not in ("a", "b", "perm", "observe")}
        cases = [wit]
    else:
        cases = build_cases(args.tier, args.seed) + build_affine_cases(args.tier, args.seed) + \
            build_round3_cases(args.tier, args.seed)
    workers = 1
    if not args.replay:
        workers = min(8, os.cpu_count() or 1) if args.tier == "thorough" else min(4, os.cpu_count() or 1)
    if workers > 1:
        import multiprocessing as mp
        with mp.Pool(workers) as pool:
            results = pool.map(eval_case, cases, chunksize=16)
    else:
        results = [eval_case(w) for w in cases]
    nskip, per_family = {}, {}
    for w, acc in zip(cases, results):
        for key, nontriv, sample in acc.cases:
            rep.case(key, nontrivial=nontriv, sample=sample)
        per_family[w["family"]] = per_family.get(w["family"], 0) + len(acc.cases)
        for check, wit, detail in acc.fails:
            rep.fail(check, wit, detail)
        for s in acc.skips:
            nskip[s] = nskip.get(s, 0) + 1
    for s, n in sorted(nskip.items()):
        rep.skip(f"{s} [{n} cases]")
    rep.skip("evaluations per family: " + ", ".join(f"{k}={v}" for k, v in sorted(per_family.items())))
    rep.finish()
    sys.exit(0)


if __name__ == "__main__":
    main()
