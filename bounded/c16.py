"""Bounded stand-in for C16: event synchronisation / coincidence follow their counting rules.

Code under check: pyunicorn.eventseries.EventSeries (event_synchronization,
event_coincidence_analysis, _eca_coincidence_rate, event_series_analysis incl. the symmetrisation
table, make_event_matrix, threshold path of the constructor) and
pyunicorn.climate.eventseries_climatenetwork.EventSeriesClimateNetwork (construction).

Oracle: specs/eventseries.py - quantifier-style evaluation of the ES / ECA counting rules on sets
of event times in exact Fractions (see the conventions stated there), exact linear-interpolation
quantiles for the threshold extraction.

All timestamps, lags and windows are dyadic rationals, so the library's float64 comparisons of
event-time differences are exact; ES values are compared with tolerance 1e-12 (one sqrt and one
division in float64), ECA rates with 1e-6 (the library returns float32 ratios), similarity
matrices stored by ClimateNetwork with 1e-6 (float32 storage).

Where the counting rule is undefined (ES with fewer than three events in a series: no inner
event; an ECA rate with no admissible event; an empty series) nothing but "nan or 0, or for an
empty series in ECA an IndexError" is asserted.

Extensions (second round):
* threshold clauses on integer-dtype (int8..int64, uint8) and low-precision float (float16,
  float32) data matrices, checks `make_event_matrix/dtype-*` and
  `EventSeries.__init__/threshold-dtype-*`: the oracle compares the float64 value of every
  stored sample with the float64 threshold (stated value, or exact linear-interpolation quantile
  of the float64 values).  'value' clauses are asserted for every sample; 'quantile' clauses for
  every sample when data and quantile are dyadic (NumPy's interpolation is then exact), otherwise
  samples that are not exactly on the quantile but within 4 eps(dtype) max|x| of it are left out.
* explicit timestamp vectors multiplied by 2**e, e in -40..40 (exact in binary floating point),
  with taumax and lag multiplied by the same factor, checks `*/scaled-*`: ES / ECA / window rates
  and the N x N matrices equal the counting formulas evaluated in Fractions on the rescaled
  event times at every scale, stay in [0,1], and are bit-identical to the values at scale 1.
  The timestamp vectors include pairs of distinct event times 2**-30 apart (between the two
  series and inside one vector) and windows / lags of that size: events that are close but not
  simultaneous must be counted by the directed rule, not as simultaneous.
"""
import itertools
import json
import math
import multiprocessing as mp
import os
import sys
from fractions import Fraction as F

import numpy as np

from bounded.common import parse_args, Report, quiet
from specs import eventseries as S

PROP = "C16"

SCOPE = (
    "EventSeries.event_synchronization / event_coincidence_analysis / _eca_coincidence_rate / "
    "event_series_analysis vs definition-level counting in Fractions. Exhaustive: all ordered pairs "
    "of binary sequences of every length T=2..Tmax (quick Tmax=6, thorough Tmax=8; includes 0-3 "
    "events, simultaneous events, events at both ends), each under 7 ES settings (taumax in "
    "{inf,0,1,3/2,2}, lag in {-1,0,1/2,1}) and 9 ECA settings (taumax in {0,1/2,1,3/2,2,3}, lag in "
    "{0,1/2,1}), on the index path (no timestamps) and on a non-uniform dyadic timestamp vector (at "
    "T=8 the timestamp path on every second setting per pair), "
    "plus the 2-column event_series_analysis matrix and the internal window variants. Relations: "
    "range [0,1], exchange of the sequences, time shift (zero padding / timestamp offset), time "
    "rescaling (unbounded window for ES; jointly rescaled taumax/lag otherwise). Seeded random: pairs "
    "T=10..60 with random dyadic timestamps, NxT matrices N=2..6 under all 6 (ES) / 4x3 (ECA) "
    "symmetrisation x window options. make_event_matrix: all columns of length 5 (thorough 6) over "
    "{0,1,2} ({0..3}) x quantile in {0,1/4,1/2,3/4,1} / value x above/below/default, seeded random "
    "T x N data with scalar and per-variable arguments, also through the constructor. "
    "EventSeriesClimateNetwork: seeded random observables x method x symmetrisation x window: event "
    "matrix, similarity matrix, adjacency = (similarity > 0) off-diagonal, directed flag. "
    "Threshold clauses by dtype (dtype-*): data matrices of dtype int8/int16/int32/int64/uint8/"
    "float16/float32 (and float64 with thresholds one float64 ulp next to a sample): all columns of "
    "length 4 (thorough 5) over {-2..2} x every half-integer value between min and max (both signs) "
    "and quantiles k/8 x above/below/default; seeded random T x N matrices (small and full-range "
    "integers, dyadic and arbitrary low-precision floats, ties) with scalar / per-variable / mixed "
    "methods, types and defaults, static and through the constructor; oracle: float64 value of each "
    "sample vs float64 threshold (value clauses exact for every sample; quantile clauses exact for "
    "dyadic inputs, else samples within 4 eps(dtype) max|x| of the quantile but not on it left out); "
    "integer data keep max - min <= iinfo(dtype).max, beyond that exactly one dedicated probe "
    "(make_event_matrix/narrow-int-quantile-overflow: int8 samples spanning more than 127). "
    "Time rescaling by powers of two (scaled-*): seeded pairs T=8..36 and matrices N=2..4 with "
    "explicit timestamps (uniform grid, random dyadic, and near-simultaneous: stamps of the two "
    "series or consecutive stamps 2**-30 apart), scales 2**e for e in {-40,-30,-20,-7,0,5,20,40} "
    "with taumax in {inf,0,2**-30,1,5/2,4} and lag in {-3/4,0,2**-30,1/2,1} rescaled alike: ES, the "
    "four ECA rates, the three window rates and the directed ES/ECA matrices equal the Fraction "
    "counting formulas at every scale (1e-12 / 1e-6), lie in [0,1] and equal the scale-1 values "
    "bit for bit.  EventSeriesClimateNetwork significance options (checks .../p_value-* and "
    ".../pval-method-*): seeded binary observables T=10..18, N=2..4 (>= 4 events per series) x method "
    "ES/ECA x symmetrisation x window, n_surr=8 shuffle surrogates with np.random seeded, p_value in "
    "{0,1/8,1/4,1/2,7/8,1}: the harness reproduces the documented Monte-Carlo scheme (each surrogate "
    "shuffles every column of the previous one, in column order) and scores the surrogates with the "
    "Fraction counting rules; a score keeps exactly its ES/ECA value when its significance level "
    "(fraction of surrogates with a strictly smaller score) is >= 1 - p_value and is 0 otherwise "
    "(p_value=1 keeps everything), method '*_pval' stores the significance levels; links = positive "
    "similarity; entries whose score or one of whose surrogate scores is undefined are not asserted.  "
    "More nodes than samples (checks EventSeries.__init__/threshold-more-variables-than-samples, "
    "EventSeriesClimateNetwork/construct-more-nodes-than-samples): integer observables [time, "
    "variables] with T=5..8 < N <= T+3, quantile thresholds: the event matrix is the T x N matrix of "
    "samples beyond each variable's threshold and the network has N nodes.  Documented errors "
    "(checks .../rejects/...): 3 (thorough 20) seeded data sets x 18 argument sets (quantile outside "
    "[0,1], value outside the variable's range, unknown method / type / symmetrisation / window, "
    "per-variable arguments of the wrong length, non-binary data without a method, timestamps of the "
    "wrong length, ECA with an infinite window given as the default or as float('inf')): the call must "
    "raise.")
RULE = (
    "Distinct+nontrivial: an ES pair counts when both sequences have >= 3 events (inner events "
    "exist); an ECA pair when both are non-empty and at least one rate is defined for some setting; a "
    "matrix when it has a pair with a defined value; a threshold case when the column is not "
    "constant; an ESCN case when some similarity entry is defined. Keyed by the input (sequences, "
    "timestamps); evaluations counts every contract clause evaluated under every setting. A dtype "
    "threshold case is keyed by (dtype, data, arguments) and counts when a column is not constant; a "
    "rescaling case (pair or matrix with its timestamp vectors, window and lag) counts once for all "
    "scales when some ES value or ECA rate is defined.")

ES_CFGS = [(None, F(0)), (F(1), F(0)), (F(2), F(0)), (None, F(1)), (F(3, 2), F(1, 2)),
           (None, F(-1)), (F(0), F(0))]
ECA_CFGS = [(F(0), F(0)), (F(1), F(0)), (F(2), F(0)), (F(3), F(0)), (F(1), F(1)), (F(2), F(1)),
            (F(0), F(1)), (F(3, 2), F(1, 2)), (F(1, 2), F(0))]
WINDOWS = ["advanced", "retarded", "symmetric"]
ES_SYMS = ["directed", "symmetric", "antisym", "mean", "max", "min"]
ECA_SYMS = ["directed", "mean", "max", "min"]
GAPS = [F(1), F(1, 2), F(2), F(1), F(3, 2), F(1, 2), F(1), F(5, 2), F(1, 2), F(1)]

TOL_ES = 1e-12
TOL_ECA = 1e-6

UNDEF_NOTE = ("undefined counting rule (ES with < 3 events in a series, ECA rate without an "
              "admissible event, empty series): only 'nan or 0' is asserted; ECA / "
              "event_series_analysis('ECA') with an empty series raises IndexError/ValueError - not asserted")


def ES():
    from pyunicorn.eventseries import EventSeries
    return EventSeries


# ------------------------------------------------------------------ small helpers

def fl(v):
    return np.inf if v is None else float(v)


def nonuniform_ts(T):
    t = [F(-2)]
    for k in range(T - 1):
        t.append(t[-1] + GAPS[k % len(GAPS)])
    return t


UNIT = 8   # every timestamp, lag and window used by this harness is a multiple of 1/8


def fx(v):
    """Exact fixed-point numerator of a dyadic rational (None stays None)."""
    if v is None:
        return None
    w = F(v) * UNIT
    if w.denominator != 1:
        raise ValueError("not a multiple of 1/%d: %r" % (UNIT, v))
    return int(w)


def ev_times(x, ts):
    """Event times as integers in units of 1/UNIT."""
    return [(fx(ts[k]) if ts is not None else UNIT * k) for k in range(len(x)) if x[k]]


def ts_arr(ts):
    return None if ts is None else np.array([float(a) for a in ts])


def agree(lib, spec, tol):
    """lib: float; spec: number or None (undefined -> nan or 0 accepted)."""
    lib = float(lib)
    if spec is None:
        return math.isnan(lib) or lib == 0.0
    return (not math.isnan(lib)) and abs(lib - float(spec)) <= tol * max(1.0, abs(float(spec)))


def same(a, b, tol):
    a, b = float(a), float(b)
    if math.isnan(a) or math.isnan(b):
        return math.isnan(a) and math.isnan(b)
    return abs(a - b) <= tol * max(1.0, abs(a))


def in_range(v):
    v = float(v)
    return math.isnan(v) or (0.0 <= v <= 1.0)


def pair_wit(x, y, ts, taumax, lag, **extra):
    w = {"kind": "pair", "x": [int(a) for a in x], "y": [int(a) for a in y],
         "ts": None if ts is None else [float(a) for a in ts],
         "taumax": "inf" if taumax is None else float(taumax), "lag": float(lag)}
    w.update(extra)
    return w


def frac(v):
    return None if v == "inf" or v is None else F(v)


_OBJ = {}


def cfg_object(taumax, lag):
    """An EventSeries object that only carries (taumax, lag) for the internal ECA variant."""
    k = (taumax, lag)
    if k not in _OBJ:
        _OBJ[k] = ES()(np.array([[0, 1], [1, 0]]), taumax=fl(taumax), lag=float(lag))
    return _OBJ[k]


def call(f, *a, **k):
    """Returns (result, None) or (None, exception)."""
    try:
        with quiet():
            return f(*a, **k), None
    except Exception as e:  # noqa: BLE001
        return None, e


# ------------------------------------------------------------------ ES pair contract

def check_es_pair(rep, x, y, ts, taumax, lag, relations=True, matrix=True):
    E = ES()
    tx, ty = ev_times(x, ts), ev_times(y, ts)
    tsa = ts_arr(ts)
    W = lambda **e: pair_wit(x, y, ts, taumax, lag, method="ES", **e)  # noqa: E731
    spec = S.es_values(tx, ty, fx(taumax), fx(lag))
    rep.case()
    res, exc = call(E.event_synchronization, x, y, ts1=tsa, ts2=tsa, taumax=fl(taumax), lag=float(lag))
    if exc is not None:
        rep.fail("event_synchronization/raises", W(), repr(exc))
        return False
    a, b = float(res[0]), float(res[1])
    if spec is None:
        if not (agree(a, None, 0) and agree(b, None, 0)):
            rep.fail("event_synchronization/undefined", W(), "fewer than 3 events: got %r" % ((a, b),))
    else:
        if not (agree(a, spec[0], TOL_ES) and agree(b, spec[1], TOL_ES)):
            rep.fail("event_synchronization/formula", W(), "got %r expected %r" % ((a, b), spec))
    if not (in_range(a) and in_range(b)):
        rep.fail("event_synchronization/range", W(), "got %r" % ((a, b),))

    if relations:
        # exchange of the sequences (the lag changes sign with the roles)
        rep.case()
        r2, exc = call(E.event_synchronization, y, x, ts1=tsa, ts2=tsa, taumax=fl(taumax), lag=-float(lag))
        if exc is not None or not (same(r2[0], b, TOL_ES) and same(r2[1], a, TOL_ES)):
            rep.fail("event_synchronization/exchange", W(), "ES(x,y)=%r ES(y,x,-lag)=%r" % ((a, b), r2 if exc is None else exc))
        # time shift
        rep.case()
        if ts is None:
            xs = np.concatenate([np.zeros(2, int), x, np.zeros(1, int)])
            ys = np.concatenate([np.zeros(2, int), y, np.zeros(1, int)])
            r3, exc = call(E.event_synchronization, xs, ys, taumax=fl(taumax), lag=float(lag))
        else:
            tsh = tsa + 5.25
            r3, exc = call(E.event_synchronization, x, y, ts1=tsh, ts2=tsh, taumax=fl(taumax), lag=float(lag))
        if exc is not None or not (same(r3[0], a, TOL_ES) and same(r3[1], b, TOL_ES)):
            rep.fail("event_synchronization/shift", W(), "orig %r shifted %r" % ((a, b), r3 if exc is None else exc))
        # time rescaling (unbounded window: nothing else to rescale but the lag;
        # bounded window: the window is a time and is rescaled with it)
        for sc in (2, 3) if ts is not None else (2,):
            rep.case()
            tm = np.inf if taumax is None else float(taumax) * sc
            if ts is None:
                xs = np.zeros(sc * len(x) - (sc - 1), int)
                ys = np.zeros(sc * len(y) - (sc - 1), int)
                xs[::sc], ys[::sc] = x, y
                r4, exc = call(E.event_synchronization, xs, ys, taumax=tm, lag=float(lag) * sc)
            else:
                r4, exc = call(E.event_synchronization, x, y, ts1=tsa * sc, ts2=tsa * sc, taumax=tm,
                               lag=float(lag) * sc)
            name = "event_synchronization/rescale-unbounded" if taumax is None else \
                "event_synchronization/rescale-units"
            if exc is not None or not (same(r4[0], a, TOL_ES) and same(r4[1], b, TOL_ES)):
                rep.fail(name, W(scale=sc), "orig %r rescaled %r" % ((a, b), r4 if exc is None else exc))

    if matrix:
        M = np.stack([x, y], axis=1)
        if set(np.unique(M).tolist()) == {0, 1}:
            rep.case()
            obj, exc = call(E, M, timestamps=tsa, taumax=fl(taumax), lag=float(lag))
            D = None
            if exc is None:
                D, exc = call(obj.event_series_analysis, method="ES", symmetrization="directed")
            if exc is not None:
                rep.fail("event_series_analysis/es-pair", W(), repr(exc))
            else:
                sp = (None, None) if spec is None else spec
                if not (agree(D[0, 1], sp[0], TOL_ES) and agree(D[1, 0], sp[1], TOL_ES)):
                    rep.fail("event_series_analysis/es-pair", W(), "matrix %s expected %r" % (D.tolist(), spec))
    return spec is not None


# ------------------------------------------------------------------ ECA pair contract

def check_eca_pair(rep, x, y, ts, taumax, lag, relations=True, matrix=True):
    E = ES()
    tx, ty = ev_times(x, ts), ev_times(y, ts)
    tsa = ts_arr(ts)
    W = lambda **e: pair_wit(x, y, ts, taumax, lag, method="ECA", **e)  # noqa: E731
    spec = S.eca_rates(tx, ty, fx(taumax), fx(lag))
    # entry (x|y), (y|x) of each window variant: 'advanced' is the precursor rate, 'retarded' the
    # trigger rate (same definitions, evaluated once), 'symmetric' its own rule
    spec_w = {"advanced": (spec[0], spec[2]), "retarded": (spec[1], spec[3]),
              "symmetric": (S.eca_window(tx, ty, fx(taumax), fx(lag), "symmetric"),
                            S.eca_window(ty, tx, fx(taumax), fx(lag), "symmetric"))}
    empty = (not tx) or (not ty)
    rep.case()
    res, exc = call(E.event_coincidence_analysis, x, y, fl(taumax), ts1=tsa, ts2=tsa, lag=float(lag))
    if empty:
        # no event in a series: every rate is 0/0; the library raises (IndexError, or ValueError
        # in the instantaneous case) or returns nan - nothing is asserted beyond "not a number in (0,1]"
        rep.skip(UNDEF_NOTE)
        if exc is None and not all(agree(v, None, 0) for v in res):
            rep.fail("event_coincidence_analysis/undefined", W(), "empty series: got %r" % (res,))
        return False
    if exc is not None:
        rep.fail("event_coincidence_analysis/raises", W(), repr(exc))
        return False
    res = [float(v) for v in res]
    names = ["precursor-xy", "trigger-xy", "precursor-yx", "trigger-yx"]
    for v, s, nm in zip(res, spec, names):
        if not agree(v, s, TOL_ECA):
            rep.fail("event_coincidence_analysis/" + ("formula-" + nm if s is not None else "undefined"),
                     W(), "%s: got %r expected %r (all: %r vs %r)" % (nm, v, s, res, spec))
        if not in_range(v):
            rep.fail("event_coincidence_analysis/range", W(), "%s = %r" % (nm, v))

    if relations:
        rep.case()
        r2, exc = call(E.event_coincidence_analysis, y, x, fl(taumax), ts1=tsa, ts2=tsa, lag=float(lag))
        if exc is not None or not all(same(p, q, TOL_ECA) for p, q in
                                      zip(r2, [res[2], res[3], res[0], res[1]])):
            rep.fail("event_coincidence_analysis/exchange", W(), "ECA(x,y)=%r ECA(y,x)=%r"
                     % (res, r2 if exc is None else exc))
        rep.case()
        if ts is None:
            xs = np.concatenate([np.zeros(2, int), x, np.zeros(1, int)])
            ys = np.concatenate([np.zeros(2, int), y, np.zeros(1, int)])
            r3, exc = call(E.event_coincidence_analysis, xs, ys, fl(taumax), lag=float(lag))
        else:
            tsh = tsa + 5.25
            r3, exc = call(E.event_coincidence_analysis, x, y, fl(taumax), ts1=tsh, ts2=tsh, lag=float(lag))
        if exc is not None or not all(same(p, q, TOL_ECA) for p, q in zip(r3, res)):
            rep.fail("event_coincidence_analysis/shift", W(), "orig %r shifted %r" % (res, r3 if exc is None else exc))
        rep.case()
        sc = 2
        if ts is None:
            xs = np.zeros(sc * len(x) - (sc - 1), int)
            ys = np.zeros(sc * len(y) - (sc - 1), int)
            xs[::sc], ys[::sc] = x, y
            r4, exc = call(E.event_coincidence_analysis, xs, ys, fl(taumax) * sc, lag=float(lag) * sc)
        else:
            r4, exc = call(E.event_coincidence_analysis, x, y, fl(taumax) * sc, ts1=tsa * sc, ts2=tsa * sc,
                           lag=float(lag) * sc)
        if exc is not None or not all(same(p, q, TOL_ECA) for p, q in zip(r4, res)):
            rep.fail("event_coincidence_analysis/rescale-units", W(scale=sc), "orig %r rescaled %r"
                     % (res, r4 if exc is None else exc))

    # internal window variants used by event_series_analysis
    obj = cfg_object(taumax, lag)
    for w in WINDOWS:
        rep.case()
        sw = spec_w[w]
        r5, exc = call(obj._eca_coincidence_rate, x, y, window_type=w, ts1=tsa, ts2=tsa)
        if exc is not None:
            rep.fail("_eca_coincidence_rate/raises", W(window=w), repr(exc))
            continue
        r5 = [float(v) for v in r5]
        if not (agree(r5[0], sw[0], TOL_ECA) and agree(r5[1], sw[1], TOL_ECA)):
            rep.fail("_eca_coincidence_rate/" + w, W(window=w), "got %r expected %r" % (r5, sw))
        if not (in_range(r5[0]) and in_range(r5[1])):
            rep.fail("_eca_coincidence_rate/range", W(window=w), "got %r" % (r5,))

    if matrix:
        M = np.stack([x, y], axis=1)
        if set(np.unique(M).tolist()) == {0, 1}:
            w = WINDOWS[(int(np.sum(x)) + 2 * int(np.sum(y))) % 3] if matrix == "rotate" else None
            for ww in ([w] if w else WINDOWS):
                rep.case()
                o2, exc = call(E, M, timestamps=tsa, taumax=fl(taumax), lag=float(lag))
                D = None
                if exc is None:
                    D, exc = call(o2.event_series_analysis, method="ECA", symmetrization="directed",
                                  window_type=ww)
                sw = spec_w[ww]
                if exc is not None:
                    rep.fail("event_series_analysis/eca-pair", W(window=ww), repr(exc))
                elif not (agree(D[0, 1], sw[0], TOL_ECA) and agree(D[1, 0], sw[1], TOL_ECA)):
                    rep.fail("event_series_analysis/eca-pair", W(window=ww), "matrix %s expected %r"
                             % (D.tolist(), sw))
    return any(s is not None for s in spec)


# ------------------------------------------------------------------ N x N matrices

def matrix_wit(Em, ts, taumax, lag, **extra):
    w = {"kind": "matrix", "E": np.asarray(Em).astype(int).tolist(),
         "ts": None if ts is None else [float(a) for a in ts],
         "taumax": "inf" if taumax is None else float(taumax), "lag": float(lag)}
    w.update(extra)
    return w


def sym_expected(D, opt):
    """Entry-wise table applied to the library's own directed matrix; entries with an undefined
    (nan) operand are not asserted (returned as None)."""
    n = D.shape[0]
    out = [[None] * n for _ in range(n)]
    for i in range(n):
        for j in range(n):
            a, b = float(D[i, j]), float(D[j, i])
            if math.isnan(a) or math.isnan(b):
                continue
            out[i][j] = S.symmetrise(a, b, opt)
    return out


def check_matrix(rep, Em, ts, taumax, lag):
    E = ES()
    Em = np.asarray(Em).astype(int)
    T, N = Em.shape
    tsa = ts_arr(ts)
    cols = [ev_times(Em[:, i], ts) for i in range(N)]
    W = lambda **e: matrix_wit(Em, ts, taumax, lag, **e)  # noqa: E731
    obj, exc = call(E, Em, timestamps=tsa, taumax=fl(taumax), lag=float(lag))
    if exc is not None:
        rep.fail("EventSeries.__init__/raises", W(), repr(exc))
        return
    defined = False
    gotE = np.asarray(obj.get_event_matrix())
    if gotE.shape != Em.shape or not np.array_equal(gotE.astype(int), Em):
        rep.fail("EventSeries.__init__/event-matrix-kept-as-given", W(), "stored event matrix has shape %r, given %r" % (gotE.shape, Em.shape))
        return
    # ---- ES
    rep.case()
    D, exc = call(obj.event_series_analysis, method="ES", symmetrization="directed")
    if exc is not None:
        rep.fail("event_series_analysis/es-directed", W(), repr(exc))
    elif np.shape(D) != (N, N):
        rep.fail("event_series_analysis/es-directed", W(), "matrix of shape %r for %d event series" % (np.shape(D), N))
    else:
        D = np.array(D, dtype=float)
        bad = []
        for i in range(N):
            for j in range(i + 1, N):
                sp = S.es_values(cols[i], cols[j], fx(taumax), fx(lag))
                defined = defined or sp is not None
                sp = (None, None) if sp is None else sp
                if not (agree(D[i, j], sp[0], TOL_ES) and agree(D[j, i], sp[1], TOL_ES)):
                    bad.append((i, j, D[i, j], D[j, i], sp))
        if bad:
            rep.fail("event_series_analysis/es-directed", W(), "entries (i,j,got_ij,got_ji,expected): %r" % (bad[:3],))
        for opt in ES_SYMS:
            rep.case()
            Sm, exc = call(obj.event_series_analysis, method="ES", symmetrization=opt)
            if exc is not None:
                rep.fail("event_series_analysis/es-symmetrisation-" + opt, W(), repr(exc))
                continue
            exp = sym_expected(D, opt)
            bad = [(i, j, float(Sm[i][j]), exp[i][j]) for i in range(N) for j in range(N)
                   if i != j and exp[i][j] is not None and not same(Sm[i][j], exp[i][j], TOL_ES)]
            if np.shape(Sm) != (N, N) or bad:
                rep.fail("event_series_analysis/es-symmetrisation-" + opt, W(), "(i,j,got,expected): %r" % (bad[:3],))
        # the same requests again on the same object, in the opposite order and "directed" last: an answer must not depend
        # on which symmetrisations were asked for before (a helper writing into the memoised directed matrix would show here)
        for opt in list(reversed(ES_SYMS)) + ["directed"]:
            rep.case()
            Sm, exc = call(obj.event_series_analysis, method="ES", symmetrization=opt)
            if exc is not None:
                rep.fail("event_series_analysis/es-repeat-after-symmetrisation", W(option=opt), repr(exc))
                continue
            exp = sym_expected(D, opt)
            bad = [(i, j, float(Sm[i][j]), exp[i][j]) for i in range(N) for j in range(N)
                   if i != j and exp[i][j] is not None and not same(Sm[i][j], exp[i][j], TOL_ES)]
            if np.shape(Sm) != (N, N) or bad:
                rep.fail("event_series_analysis/es-repeat-after-symmetrisation", W(option=opt),
                         "(i,j,got,expected): %r" % (bad[:3],))
    # ---- ECA
    if taumax is not None and all(cols):
        for w in WINDOWS:
            rep.case()
            D, exc = call(obj.event_series_analysis, method="ECA", symmetrization="directed", window_type=w)
            if exc is not None:
                rep.fail("event_series_analysis/eca-directed-" + w, W(window=w), repr(exc))
                continue
            if np.shape(D) != (N, N):
                rep.fail("event_series_analysis/eca-directed-" + w, W(window=w), "matrix of shape %r for %d event series" % (np.shape(D), N))
                continue
            D = np.array(D, dtype=float)
            bad = []
            for i in range(N):
                for j in range(N):
                    if i == j:
                        continue
                    sp = S.eca_window(cols[i], cols[j], fx(taumax), fx(lag), w)
                    defined = defined or sp is not None
                    if not agree(D[i, j], sp, TOL_ECA):
                        bad.append((i, j, D[i, j], sp))
                    if not in_range(D[i, j]):
                        rep.fail("event_series_analysis/eca-range", W(window=w), "entry %r = %r" % ((i, j), D[i, j]))
            if bad:
                rep.fail("event_series_analysis/eca-directed-" + w, W(window=w), "(i,j,got,expected): %r" % (bad[:3],))
            for opt in ECA_SYMS:
                rep.case()
                Sm, exc = call(obj.event_series_analysis, method="ECA", symmetrization=opt, window_type=w)
                if exc is not None:
                    rep.fail("event_series_analysis/eca-symmetrisation-" + opt, W(window=w), repr(exc))
                    continue
                exp = sym_expected(D, opt)
                bad = [(i, j, float(Sm[i][j]), exp[i][j]) for i in range(N) for j in range(N)
                       if i != j and exp[i][j] is not None and not same(Sm[i][j], exp[i][j], TOL_ECA)]
                if np.shape(Sm) != (N, N) or bad:
                    rep.fail("event_series_analysis/eca-symmetrisation-" + opt, W(window=w),
                             "(i,j,got,expected): %r" % (bad[:3],))
    elif taumax is not None:
        rep.skip(UNDEF_NOTE)
    rep.case(("matrix", Em.tobytes(), None if ts is None else tuple(ts), taumax, lag), nontrivial=defined,
             sample={"kind": "matrix", "E": Em.T.tolist(), "taumax": fl(taumax), "lag": float(lag)})


# ------------------------------------------------------------------ threshold extraction

def per_var(arg, N):
    if isinstance(arg, (list, tuple)):
        return list(arg)
    return [arg] * N


def lib_arg(arg, numeric):
    if arg is None:
        return None
    if isinstance(arg, (list, tuple)):
        return np.array([float(a) for a in arg]) if numeric else np.array(list(arg))
    return float(arg) if numeric else arg


def check_threshold(rep, data, methods, values, types, via="static", exact=True):
    """data: T x N list of lists of Fractions (exact=True: dyadic) or floats."""
    E = ES()
    T, N = len(data), len(data[0])
    arr = np.array([[float(v) for v in row] for row in data])
    W = {"kind": "threshold", "data": arr.tolist(), "methods": methods,
         "values": None if values is None else ([float(v) for v in values] if isinstance(values, (list, tuple))
                                                else float(values)),
         "types": types, "via": via, "exact": exact}
    kw = dict(threshold_method=lib_arg(methods, False), threshold_values=lib_arg(values, True),
              threshold_types=(list(types) if isinstance(types, (list, tuple)) else types))
    if via == "static":
        got, exc = call(E.make_event_matrix, arr, **kw)
    else:
        obj, exc = call(E, arr, **kw)
        got = None if exc is not None else obj.get_event_matrix()
    m, v, t = per_var(methods, N), per_var(values, N), per_var(types, N)
    pre = "make_event_matrix/" if via == "static" else "EventSeries.__init__/threshold-"
    nontrivial = False
    rep.case()
    if exc is not None:
        rep.fail(pre + "raises", W, repr(exc))
        return
    got = np.asarray(got)
    if got.shape != (T, N):
        rep.fail(pre + "shape", W, "shape %r" % (got.shape,))
        return
    for i in range(N):
        col = [F(row[i]) for row in data]
        thr, typ, ev = S.threshold_events(col, m[i], None if v[i] is None else F(v[i]), t[i])
        nontrivial = nontrivial or len(set(col)) > 1
        bad = []
        for k in range(T):
            if not exact and abs(float(col[k] - thr)) <= 1e-9 * max(1.0, abs(float(thr))):
                continue    # sample numerically on the threshold: not decided by the float quantile
            if int(got[k, i]) != ev[k] or got[k, i] not in (0, 1):
                bad.append(k)
        if bad:
            if t[i] is None:
                name = "default-type"
            elif v[i] is None:
                name = "default-value"
            else:
                name = "%s-%s" % (m[i], typ)
            rep.fail(pre + name, W, "variable %d threshold %s type %s: got %s expected %s"
                     % (i, float(thr), typ, got[:, i].astype(int).tolist(), ev))
    rep.case(("thr", arr.tobytes(), repr(methods), repr(values), repr(types), via), nontrivial=nontrivial,
             sample={"kind": "threshold", "data": arr.T.tolist(), "methods": methods,
                     "values": W["values"], "types": types})


# ------------------------------------------------------------------ threshold extraction by dtype

INT_DTYPES = ["int8", "int16", "int32", "int64", "uint8"]
LOWP_DTYPES = ["float16", "float32"]


def check_threshold_dtype(rep, data, dtype, methods, values, types, via="static", exact=True):
    """data: T x N list of lists of Python numbers that are exactly representable in `dtype`.
    The library gets np.array(data, dtype); the oracle works on the float64 value of every stored
    sample (as a Fraction) and the float64 threshold value(s)."""
    E = ES()
    arr = np.array(data, dtype=dtype)
    T, N = arr.shape
    a64 = arr.astype(np.float64)
    W = {"kind": "threshold_dtype", "data": a64.tolist(), "dtype": str(np.dtype(dtype)), "methods": methods,
         "values": None if values is None else ([float(v) for v in values] if isinstance(values, (list, tuple))
                                                else float(values)),
         "types": types, "via": via, "exact": exact}
    kw = dict(threshold_method=lib_arg(methods, False), threshold_values=lib_arg(values, True),
              threshold_types=(list(types) if isinstance(types, (list, tuple)) else types))
    if via == "static":
        got, exc = call(E.make_event_matrix, arr, **kw)
    else:
        obj, exc = call(E, arr, **kw)
        got = None if exc is not None else obj.get_event_matrix()
    m, v, t = per_var(methods, N), per_var(values, N), per_var(types, N)
    pre = "make_event_matrix/dtype-" if via == "static" else "EventSeries.__init__/threshold-dtype-"
    rep.case()
    if exc is not None:
        rep.fail(pre + "raises", W, repr(exc))
        return
    got = np.asarray(got)
    if got.shape != (T, N):
        rep.fail(pre + "shape", W, "shape %r" % (got.shape,))
        return
    eps = float(np.finfo(dtype).eps) if np.dtype(dtype).kind == "f" else float(np.finfo(np.float64).eps)
    nontrivial = False
    for i in range(N):
        col = [F(float(a64[k, i])) for k in range(T)]
        thr, typ, ev = S.threshold_events(col, m[i], None if v[i] is None else F(float(v[i])), t[i])
        nontrivial = nontrivial or len(set(col)) > 1
        guard = 0.0
        if not exact and (m[i] == "quantile" or v[i] is None):
            guard = 4.0 * eps * max(abs(float(c)) for c in col)
        if not exact and t[i] is None and m[i] == "value":
            # default direction decided by threshold >= median: not asserted when numerically equal
            # (equality is asserted when the median itself is representable in the data's dtype)
            med = S.median(col)
            med_exact = np.dtype(dtype).kind != "f" or F(float(np.dtype(dtype).type(float(med)))) == med
            if not (thr == med and med_exact) and \
                    abs(float(thr - med)) <= 4.0 * eps * max(abs(float(c)) for c in col):
                continue
        bad = []
        for k in range(T):
            if guard and col[k] != thr and abs(float(col[k] - thr)) <= guard:
                continue
            if got[k, i] not in (0, 1) or int(got[k, i]) != ev[k]:
                bad.append(k)
        if bad:
            if t[i] is None:
                name = "default-type"
            elif v[i] is None:
                name = "default-value"
            else:
                name = "%s-%s" % (m[i], typ)
            rep.fail(pre + name, W, "dtype %s variable %d threshold %r type %s: samples %s got %s expected %s"
                     % (np.dtype(dtype), i, float(thr), typ, a64[:, i].tolist(), got[:, i].astype(int).tolist(), ev))
    rep.case(("thr-dtype", str(np.dtype(dtype)), a64.tobytes(), repr(methods), repr(W["values"]), repr(types), via),
             nontrivial=nontrivial,
             sample={"kind": "threshold_dtype", "dtype": str(np.dtype(dtype)), "data": a64.T.tolist(),
                     "methods": methods, "values": W["values"], "types": types})


# ------------------------------------------------------------------ time rescaling by powers of two

SCALE_EXPS = [0, -40, -30, -20, -7, 5, 20, 40]      # scale 1 first: the reference for invariance
TINY = F(1, 2 ** 30)


def exact_floats(vals):
    """Fractions -> float64 array; raises when a value is not exactly representable."""
    out = np.array([float(v) for v in vals], dtype=np.float64)
    for a, b in zip(out.tolist(), vals):
        if F(a) != b:
            raise ValueError("timestamp %r not exact in float64" % (b,))
    return out


def evf(x, ts):
    return [ts[k] for k in range(len(x)) if x[k]]


def mulc(v, c):
    return None if v is None else v * c


def identical(a, b):
    a, b = float(a), float(b)
    return a == b or (math.isnan(a) and math.isnan(b))


def scaled_wit(kind, ts1, ts2, taumax, taumax_eca, lag, **extra):
    w = {"kind": kind, "ts1": [[t.numerator, t.denominator] for t in ts1],
         "ts2": None if ts2 is None else [[t.numerator, t.denominator] for t in ts2],
         "taumax": None if taumax is None else [taumax.numerator, taumax.denominator],
         "taumax_eca": None if taumax_eca is None else [taumax_eca.numerator, taumax_eca.denominator],
         "lag": [lag.numerator, lag.denominator]}
    w.update(extra)
    return w


def check_scaled_pair(rep, x, y, ts1, ts2, taumax, taumax_eca, lag, exps=SCALE_EXPS):
    """x, y: 0/1 arrays; ts1, ts2: strictly increasing lists of dyadic Fractions (timestamps of
    the two series); taumax (None = unbounded) for ES, taumax_eca (finite) for ECA; lag."""
    E = ES()
    x, y = np.asarray(x, dtype=int), np.asarray(y, dtype=int)
    base = {}
    defined = False
    for e in exps:
        c = F(2) ** e
        t1, t2 = [t * c for t in ts1], [t * c for t in ts2]
        a1, a2 = exact_floats(t1), exact_floats(t2)
        tx, ty = evf(x, t1), evf(y, t2)
        W = lambda **k: scaled_wit("scaled_pair", ts1, ts2, taumax, taumax_eca, lag, x=x.tolist(),  # noqa: E731
                                   y=y.tolist(), scale_exp=e, **k)
        # ---------------- ES
        tm, lg = mulc(taumax, c), lag * c
        spec = S.es_values(tx, ty, tm, lg)
        rep.case()
        res, exc = call(E.event_synchronization, x, y, ts1=a1, ts2=a2, taumax=fl(tm), lag=float(lg))
        if exc is not None:
            rep.fail("event_synchronization/scaled-raises", W(method="ES"), repr(exc))
        else:
            a, b = float(res[0]), float(res[1])
            if spec is None:
                if not (agree(a, None, 0) and agree(b, None, 0)):
                    rep.fail("event_synchronization/scaled-undefined", W(method="ES"), "got %r" % ((a, b),))
            else:
                defined = True
                if not (agree(a, spec[0], TOL_ES) and agree(b, spec[1], TOL_ES)):
                    rep.fail("event_synchronization/scaled-formula", W(method="ES"),
                             "time unit x 2**%d: got %r, counting formula %r" % (e, (a, b), spec))
            if not (in_range(a) and in_range(b)):
                rep.fail("event_synchronization/scaled-range", W(method="ES"), "time unit x 2**%d: got %r" % (e, (a, b)))
            if "es" not in base:
                base["es"] = (a, b)
            elif not (identical(a, base["es"][0]) and identical(b, base["es"][1])):
                rep.fail("event_synchronization/scaled-invariance", W(method="ES"),
                         "time unit x 2**%d: %r, unscaled: %r" % (e, (a, b), base["es"]))
        # ---------------- ECA
        if not tx or not ty or taumax_eca is None or lag < 0:
            continue
        tm2 = taumax_eca * c
        spec = S.eca_rates(tx, ty, tm2, lg)
        rep.case()
        res, exc = call(E.event_coincidence_analysis, x, y, float(tm2), ts1=a1, ts2=a2, lag=float(lg))
        if exc is not None:
            rep.fail("event_coincidence_analysis/scaled-raises", W(method="ECA"), repr(exc))
        else:
            res = [float(r) for r in res]
            defined = defined or any(s_ is not None for s_ in spec)
            if not all(agree(r, s_, TOL_ECA) for r, s_ in zip(res, spec)):
                rep.fail("event_coincidence_analysis/scaled-formula", W(method="ECA"),
                         "time unit x 2**%d: got %r, counting formula %r (None: undefined, nan or 0 accepted)"
                         % (e, res, [None if s_ is None else float(s_) for s_ in spec]))
            if not all(in_range(r) for r in res):
                rep.fail("event_coincidence_analysis/scaled-range", W(method="ECA"), "time unit x 2**%d: %r" % (e, res))
            if "eca" not in base:
                base["eca"] = res
            elif not all(identical(p, q) for p, q in zip(res, base["eca"])):
                rep.fail("event_coincidence_analysis/scaled-invariance", W(method="ECA"),
                         "time unit x 2**%d: %r, unscaled: %r" % (e, res, base["eca"]))
        obj = cfg_object(tm2, lg)
        for w in WINDOWS:
            rep.case()
            sw = (S.eca_window(tx, ty, tm2, lg, w), S.eca_window(ty, tx, tm2, lg, w))
            r5, exc = call(obj._eca_coincidence_rate, x, y, window_type=w, ts1=a1, ts2=a2)
            if exc is not None:
                rep.fail("_eca_coincidence_rate/scaled-raises", W(method="ECA", window=w), repr(exc))
                continue
            r5 = [float(r) for r in r5]
            if not (agree(r5[0], sw[0], TOL_ECA) and agree(r5[1], sw[1], TOL_ECA)) or \
                    not (in_range(r5[0]) and in_range(r5[1])):
                rep.fail("_eca_coincidence_rate/scaled-" + w, W(method="ECA", window=w),
                         "time unit x 2**%d: got %r, counting formula %r" % (e, r5, sw))
            if ("w", w) not in base:
                base["w", w] = r5
            elif not all(identical(p, q) for p, q in zip(r5, base["w", w])):
                rep.fail("_eca_coincidence_rate/scaled-invariance", W(method="ECA", window=w),
                         "time unit x 2**%d: %r, unscaled: %r" % (e, r5, base["w", w]))
    return defined


def check_scaled_matrix(rep, Em, ts, taumax, lag, exps=SCALE_EXPS):
    """Em: T x N 0/1 matrix, ts: strictly increasing dyadic Fractions, taumax None (ES only) or
    finite (ES and ECA), lag >= 0."""
    E = ES()
    Em = np.asarray(Em).astype(int)
    T, N = Em.shape
    base = {}
    defined = False
    for e in exps:
        c = F(2) ** e
        tsc = [t * c for t in ts]
        arr = exact_floats(tsc)
        tm, lg = mulc(taumax, c), lag * c
        cols = [evf(Em[:, i], tsc) for i in range(N)]
        W = lambda **k: scaled_wit("scaled_matrix", ts, None, taumax, taumax, lag, E=Em.tolist(),  # noqa: E731
                                   scale_exp=e, **k)
        obj, exc = call(E, Em, timestamps=arr, taumax=fl(tm), lag=float(lg))
        if exc is not None:
            rep.fail("EventSeries.__init__/scaled-raises", W(), repr(exc))
            return
        rep.case()
        D, exc = call(obj.event_series_analysis, method="ES", symmetrization="directed")
        if exc is not None:
            rep.fail("event_series_analysis/scaled-es", W(), repr(exc))
        else:
            D = np.array(D, dtype=float)
            bad = []
            for i in range(N):
                for j in range(i + 1, N):
                    sp = S.es_values(cols[i], cols[j], tm, lg)
                    defined = defined or sp is not None
                    sp = (None, None) if sp is None else sp
                    if not (agree(D[i, j], sp[0], TOL_ES) and agree(D[j, i], sp[1], TOL_ES)) or \
                            not (in_range(D[i, j]) and in_range(D[j, i])):
                        bad.append((i, j, D[i, j], D[j, i], sp))
            if bad:
                rep.fail("event_series_analysis/scaled-es", W(), "time unit x 2**%d: (i,j,got_ij,got_ji,formula): %r"
                         % (e, bad[:3]))
            if "es" not in base:
                base["es"] = D
            elif not np.array_equal(D, base["es"], equal_nan=True):
                rep.fail("event_series_analysis/scaled-invariance", W(method="ES"),
                         "time unit x 2**%d: %s, unscaled: %s" % (e, D.tolist(), base["es"].tolist()))
        if taumax is None or not all(cols):
            continue
        for w in WINDOWS:
            rep.case()
            D, exc = call(obj.event_series_analysis, method="ECA", symmetrization="directed", window_type=w)
            if exc is not None:
                rep.fail("event_series_analysis/scaled-eca-" + w, W(window=w), repr(exc))
                continue
            D = np.array(D, dtype=float)
            bad = []
            for i in range(N):
                for j in range(N):
                    if i == j:
                        continue
                    sp = S.eca_window(cols[i], cols[j], tm, lg, w)
                    defined = defined or sp is not None
                    if not agree(D[i, j], sp, TOL_ECA) or not in_range(D[i, j]):
                        bad.append((i, j, D[i, j], sp))
            if bad:
                rep.fail("event_series_analysis/scaled-eca-" + w, W(window=w),
                         "time unit x 2**%d: (i,j,got,formula): %r" % (e, bad[:3]))
            if ("eca", w) not in base:
                base["eca", w] = D
            elif not np.array_equal(D, base["eca", w], equal_nan=True):
                rep.fail("event_series_analysis/scaled-invariance", W(method="ECA", window=w),
                         "time unit x 2**%d: %s, unscaled: %s" % (e, D.tolist(), base["eca", w].tolist()))
    return defined


# ------------------------------------------------------------------ EventSeriesClimateNetwork

def check_escn(rep, obs, method, taumax, lag, sym, window, thr):
    """obs: T x N list of lists (Fractions).  thr: None (obs is binary) or (method, value, type)."""
    from pyunicorn.core import GeoGrid
    from pyunicorn.climate import ClimateData
    from pyunicorn.climate.eventseries_climatenetwork import EventSeriesClimateNetwork
    T, N = len(obs), len(obs[0])
    arr = np.array([[float(v) for v in row] for row in obs])
    W = {"kind": "escn", "obs": arr.tolist(), "method": method,
         "taumax": "inf" if taumax is None else float(taumax), "lag": float(lag), "sym": sym,
         "window": window, "thr": None if thr is None else [thr[0], float(thr[1]), thr[2]]}
    kw = dict(taumax=fl(taumax), lag=float(lag), symmetrization=sym, window_type=window, silence_level=3)
    if thr is not None:
        kw.update(threshold_method=thr[0], threshold_values=float(thr[1]), threshold_types=thr[2])

    def make():
        grid = GeoGrid(time_seq=np.arange(T, dtype=float), lat_seq=np.linspace(-40., 40., N),
                       lon_seq=np.linspace(5., 150., N))
        cd = ClimateData(observable=arr.copy(), grid=grid, time_cycle=1, silence_level=3)
        return EventSeriesClimateNetwork(cd, method=method, **kw)
    rep.case()
    net, exc = call(make)
    if exc is not None:
        rep.fail("EventSeriesClimateNetwork/construct", W, repr(exc))
        return
    # event matrix
    if thr is None:
        Em = arr.astype(int)
    else:
        Em = np.array([S.threshold_events([row[i] for row in obs], thr[0], F(thr[1]), thr[2])[2]
                       for i in range(N)]).T
    got = np.asarray(net.get_event_matrix())
    if got.shape != Em.shape or not np.array_equal(got.astype(int), Em):
        rep.fail("EventSeriesClimateNetwork/event-matrix", W, "got %s expected %s" % (got.T.tolist(), Em.T.tolist()))
        return
    cols = [ev_times(Em[:, i], None) for i in range(N)]
    # exact directed values: ES as (count, norm2), ECA as rate
    rep.case()
    sim = np.array(net.similarity_measure(), dtype=float)
    A = np.array(net.adjacency).astype(int)
    bad_s, bad_a, defined = [], [], False
    for i in range(N):
        for j in range(N):
            if i == j:
                continue
            if method == "ES":
                lo, hi = min(i, j), max(i, j)
                c = S.es_counts(cols[lo], cols[hi], fx(taumax), fx(lag))
                if c is None:
                    a = b = None
                else:
                    a, b = (c[0], c[1]) if i < j else (c[1], c[0])
                    scale = math.sqrt(c[2])
            else:
                a = S.eca_window(cols[i], cols[j], fx(taumax), fx(lag), window)
                b = S.eca_window(cols[j], cols[i], fx(taumax), fx(lag), window)
                scale = 1.0
            if a is None or (sym != "directed" and b is None):
                # undefined operand: similarity nan/0 in the directed case, otherwise not asserted;
                # a nan or zero similarity never makes a link
                if sym == "directed" and not agree(sim[i, j], None, 0):
                    bad_s.append((i, j, sim[i, j], None))
                if sym == "directed" and A[i, j] != 0:
                    bad_a.append((i, j, int(A[i, j]), 0))
                continue
            defined = True
            # ClimateNetwork stores the absolute value of the similarity it is given (its
            # documented-by-comment default); only 'antisym' can be negative
            e = abs(S.symmetrise(a, b if b is not None else F(0), sym))     # exact, unscaled
            if not agree(sim[i, j], float(e) / scale, 1e-6):
                bad_s.append((i, j, sim[i, j], float(e) / scale))
            if A[i, j] != (1 if e > 0 else 0):
                bad_a.append((i, j, int(A[i, j]), 1 if e > 0 else 0))
    if bad_s:
        rep.fail("EventSeriesClimateNetwork/similarity", W, "(i,j,got,expected): %r" % (bad_s[:3],))
    if bad_a:
        rep.fail("EventSeriesClimateNetwork/adjacency", W, "(i,j,got,expected): %r ; similarity %s"
                 % (bad_a[:3], sim.tolist()))
    if A.diagonal().any():
        rep.fail("EventSeriesClimateNetwork/adjacency", W, "self-loops")
    if bool(net.directed) != (sym == "directed"):
        rep.fail("EventSeriesClimateNetwork/directed-flag", W, "directed=%r for %s" % (net.directed, sym))
    rep.case(("escn", arr.tobytes(), method, taumax, lag, sym, window, repr(thr)), nontrivial=defined,
             sample=W if defined else None)


# ---- EventSeriesClimateNetwork: significance options (p_value, method '*_pval') and more
#      nodes than samples

N_SURR = 8      # dyadic: count / 8 and the p_value thresholds k / 8 are exact in binary floating point


def _exact_entries(cols, method, taumax, lag, sym, window):
    """{(i, j): None | (exact symmetrised value before scaling, scale)} for i != j; for ES the
    value is the symmetrised coincidence count and scale = sqrt((l_i - 2)(l_j - 2))."""
    N = len(cols)
    out = {}
    for i in range(N):
        for j in range(N):
            if i == j:
                continue
            if method == "ES":
                lo, hi = min(i, j), max(i, j)
                c = S.es_counts(cols[lo], cols[hi], fx(taumax), fx(lag))
                if c is None:
                    out[i, j] = None
                    continue
                a, b = (c[0], c[1]) if i < j else (c[1], c[0])
                scale = math.sqrt(c[2])
            else:
                a = S.eca_window(cols[i], cols[j], fx(taumax), fx(lag), window)
                b = S.eca_window(cols[j], cols[i], fx(taumax), fx(lag), window)
                scale = 1.0
            if a is None or (sym != "directed" and b is None):
                out[i, j] = None
            else:
                out[i, j] = (S.symmetrise(a, b if b is not None else F(0), sym), scale)
    return out


def check_escn_sig(rep, Em, mode, method, taumax, lag, sym, window, p_value, rseed):
    """Em: T x N binary event matrix (list of lists of 0/1) used as the observable.
    mode 'p_value': method ES / ECA with the documented p_value option - scores whose significance
    level (fraction of the N_SURR shuffle surrogates with a strictly smaller score) is below
    1 - p_value are set to zero, the others keep exactly the ES / ECA value.
    mode 'pval': method 'ES_pval' / 'ECA_pval' - the similarity is the matrix of significance levels.
    In both modes the network links exactly the pairs with positive similarity.  The surrogates are
    reproduced by the harness: np.random is seeded, every surrogate shuffles each column of the
    previous surrogate in column order (the documented Monte-Carlo scheme) and is scored with the
    counting rules of specs/eventseries.py on index timestamps."""
    from pyunicorn.core import GeoGrid
    from pyunicorn.climate import ClimateData
    from pyunicorn.climate.eventseries_climatenetwork import EventSeriesClimateNetwork
    arr = np.array(Em, dtype=float)
    T, N = arr.shape
    W = {"kind": "escn_sig", "E": arr.astype(int).tolist(), "mode": mode, "method": method,
         "taumax": "inf" if taumax is None else float(taumax), "lag": float(lag), "sym": sym,
         "window": window, "p_value": p_value, "n_surr": N_SURR, "rseed": int(rseed)}
    kw = dict(taumax=fl(taumax), lag=float(lag), symmetrization=sym, window_type=window, silence_level=3,
              n_surr=N_SURR)

    def make():
        grid = GeoGrid(time_seq=np.arange(T, dtype=float), lat_seq=np.linspace(-40., 40., N),
                       lon_seq=np.linspace(5., 150., N))
        cd = ClimateData(observable=arr.copy(), grid=grid, time_cycle=1, silence_level=3)
        np.random.seed(rseed)
        if mode == "pval":
            return EventSeriesClimateNetwork(cd, method=method + "_pval", **kw)
        return EventSeriesClimateNetwork(cd, method=method, p_value=p_value, **kw)
    rep.case()
    net, exc = call(make)
    if exc is not None:
        rep.fail("EventSeriesClimateNetwork/%s-construct" % ("pval-method" if mode == "pval" else "p_value"),
                 W, repr(exc))
        rep.case(("escn_sig", arr.tobytes(), mode, method, sym, window, p_value, rseed), nontrivial=True)
        return
    cols0 = [ev_times(arr[:, i], None) for i in range(N)]
    E0 = _exact_entries(cols0, method, taumax, lag, sym, window)
    # surrogates: cumulative column shuffles in column order, n_surr times
    rs = np.random.RandomState(rseed)
    cur = arr.copy()
    less = {k: 0 for k in E0}
    tied = {k: 0 for k in E0}       # surrogates whose exact score EQUALS the original's: the library compares float64 sums
    #                                 (a/n + b/n vs c/n + d/n with a+b == c+d), which may break such a tie either way by one
    #                                 ulp - the level is asserted up to these ties
    undef_sur = set()
    for _ in range(N_SURR):
        for i in range(N):
            col = cur[:, i].copy()
            rs.shuffle(col)
            cur[:, i] = col
        cols = [ev_times(cur[:, i], None) for i in range(N)]
        En = _exact_entries(cols, method, taumax, lag, sym, window)
        for k, v0 in E0.items():
            if v0 is not None and En[k] is None:
                undef_sur.add(k)        # a surrogate without a defined score: level not asserted
            elif v0 is not None:
                # same numbers of events, hence the same ES normalisation: compare unscaled
                if En[k][0] < v0[0]:
                    less[k] += 1
                elif En[k][0] == v0[0]:
                    tied[k] += 1
    rep.case()
    sim = np.array(net.similarity_measure(), dtype=float)
    A = np.array(net.adjacency).astype(int)
    bad_s, bad_a, defined = [], [], False
    for (i, j), v0 in E0.items():
        if v0 is None or (i, j) in undef_sur:
            continue          # undefined score (of the data or of a surrogate): not asserted (see UNDEF_NOTE)
        defined = True
        sigs = [(less[i, j] + t) / float(N_SURR) for t in range(tied[i, j] + 1)]
        sig = sigs[0]
        if mode == "pval":
            wants = sigs
        else:
            wants = sorted({0.0 if sg < 1.0 - p_value else abs(float(v0[0])) / v0[1] for sg in sigs})
        if not any(agree(sim[i, j], wv, 1e-6) for wv in wants):
            bad_s.append((i, j, sim[i, j], wants[0], "significance %g (+ %d exact ties)" % (sig, tied[i, j])))
        if not any(A[i, j] == (1 if wv > 0 else 0) for wv in wants):
            bad_a.append((i, j, int(A[i, j]), 1 if wants[0] > 0 else 0))
    name = "pval-method" if mode == "pval" else "p_value"
    gotE = np.asarray(net.get_event_matrix())
    if gotE.shape != arr.shape or not np.array_equal(gotE.astype(int), arr.astype(int)):
        rep.fail("EventSeriesClimateNetwork/%s-event-matrix" % name, W,
                 "the surrogates changed the stored event matrix: %s" % (gotE.T.tolist(),))
    if bad_s:
        rep.fail("EventSeriesClimateNetwork/%s-similarity" % name, W, "(i,j,got,expected,why): %r" % (bad_s[:3],))
    if bad_a:
        rep.fail("EventSeriesClimateNetwork/%s-adjacency" % name, W, "(i,j,got,expected): %r ; similarity %s"
                 % (bad_a[:3], sim.tolist()))
    if A.diagonal().any():
        rep.fail("EventSeriesClimateNetwork/%s-adjacency" % name, W, "self-loops")
    rep.case(("escn_sig", arr.tobytes(), mode, method, sym, window, p_value, rseed), nontrivial=defined,
             sample=W if defined and mode == "pval" else None)


def check_escn_wide(rep, obs, thr):
    """More nodes than samples (the usual shape of gridded climate data): obs is T x N with N > T,
    documented layout [time, variables].  The event matrix must be the T x N matrix of samples
    beyond each node's threshold, the network must have N nodes."""
    from pyunicorn.core import GeoGrid
    from pyunicorn.climate import ClimateData
    from pyunicorn.climate.eventseries_climatenetwork import EventSeriesClimateNetwork
    T, N = len(obs), len(obs[0])
    arr = np.array([[float(v) for v in row] for row in obs])
    W = {"kind": "escn_wide", "obs": arr.tolist(), "thr": [thr[0], float(thr[1]), thr[2]]}
    Em = np.array([S.threshold_events([row[i] for row in obs], thr[0], F(thr[1]), thr[2])[2]
                   for i in range(N)]).T
    rep.case(("escn_wide", arr.tobytes(), repr(thr)), nontrivial=bool(Em.any() and not Em.all()))

    def make_es():
        return ES()(arr.copy(), taumax=2.0, threshold_method=thr[0], threshold_values=float(thr[1]),
                    threshold_types=thr[2])
    es, exc = call(make_es)
    got = None if exc is not None else np.asarray(es.get_event_matrix())
    if exc is not None or got.shape != Em.shape or not np.array_equal(got.astype(int), Em):
        rep.fail("EventSeries.__init__/threshold-more-variables-than-samples", W,
                 "data[time, variables] of shape %s: expected the %s event matrix %s, got %s"
                 % (arr.shape, Em.shape, Em.tolist(), repr(exc) if exc is not None else got.astype(int).tolist()))

    def make():
        grid = GeoGrid(time_seq=np.arange(T, dtype=float), lat_seq=np.linspace(-40., 40., N),
                       lon_seq=np.linspace(5., 150., N))
        cd = ClimateData(observable=arr.copy(), grid=grid, time_cycle=1, silence_level=3)
        return EventSeriesClimateNetwork(cd, method="ES", taumax=2.0, threshold_method=thr[0],
                                         threshold_values=float(thr[1]), threshold_types=thr[2],
                                         silence_level=3)
    rep.case()
    net, exc = call(make)
    if exc is not None:
        rep.fail("EventSeriesClimateNetwork/construct-more-nodes-than-samples", W, repr(exc))
        return
    got = np.asarray(net.get_event_matrix())
    if net.N != N or got.shape != Em.shape or not np.array_equal(got.astype(int), Em):
        rep.fail("EventSeriesClimateNetwork/construct-more-nodes-than-samples", W,
                 "N=%r, event matrix %s, expected N=%d and %s" % (net.N, got.astype(int).tolist(), N, Em.tolist()))


# ------------------------------------------------------------------ jobs

def bits(v, T):
    return np.array([(v >> k) & 1 for k in range(T)], dtype=int)


def job_pairs(rep, T, lo, hi):
    tsn = nonuniform_ts(T)
    for xb in range(lo, hi):
        x = bits(xb, T)
        for yb in range(1 << T):
            y = bits(yb, T)
            nt_es = nt_eca = False
            for ci, (tm, lag) in enumerate(ES_CFGS):
                for pi, ts in enumerate((None, tsn)):
                    if pi and T >= 8 and (xb + yb + ci) % 2:
                        continue      # longest length: timestamp path on every second setting
                    rot = (xb + 3 * yb + ci + pi) % 4 == 0
                    nt_es |= check_es_pair(rep, x, y, ts, tm, lag, relations=rot, matrix=rot)
            for ci, (tm, lag) in enumerate(ECA_CFGS):
                for pi, ts in enumerate((None, tsn)):
                    if pi and T >= 8 and (xb + yb + ci) % 2:
                        continue      # longest length: timestamp path on every second setting
                    rot = (xb + 3 * yb + ci + pi) % 4 == 0
                    nt_eca |= check_eca_pair(rep, x, y, ts, tm, lag, relations=rot,
                                             matrix="rotate" if rot else False)
            if nt_es:
                rep.nontrivial.add(("es", T, xb, yb))
            if nt_eca:
                rep.nontrivial.add(("eca", T, xb, yb))
            if nt_es and len(rep.samples) < 2 and (xb * 7 + yb) % 97 == 0:
                rep.samples.append({"kind": "pair", "x": x.tolist(), "y": y.tolist()})


def rand_ts(rng, T):
    t = [F(int(rng.randint(-20, 20)), 4)]
    for _ in range(T - 1):
        t.append(t[-1] + F(int(rng.randint(1, 13)), 4))
    return t


def job_randpairs(rep, seed, count):
    rng = np.random.RandomState(seed)
    for c in range(count):
        T = int(rng.randint(10, 61))
        p, q = rng.choice([0.1, 0.3, 0.5, 0.8], size=2)
        x = (rng.rand(T) < p).astype(int)
        y = (rng.rand(T) < q).astype(int)
        if c % 5 == 0:
            y = np.roll(x, int(rng.randint(0, 3)))      # strongly synchronised / simultaneous
        ts = None if c % 3 == 0 else rand_ts(rng, T)
        tm = [None, F(1), F(5, 2), F(4), F(0)][int(rng.randint(5))]
        lag = [F(0), F(1, 2), F(1), F(2), F(-3, 4)][int(rng.randint(5))]
        if check_es_pair(rep, x, y, ts, tm, lag):
            rep.nontrivial.add(("es-rand", seed, c))
        tm2 = tm if tm is not None else F(int(rng.randint(0, 9)), 2)
        if check_eca_pair(rep, x, y, ts, tm2, abs(lag)):
            rep.nontrivial.add(("eca-rand", seed, c))


def job_matrices(rep, seed, count):
    rng = np.random.RandomState(seed)
    for c in range(count):
        N = int(rng.randint(2, 7))
        T = int(rng.randint(4, 25))
        dens = rng.choice([0.2, 0.4, 0.6, 0.85], size=N)
        Em = (rng.rand(T, N) < dens).astype(int)
        for i in range(N):            # every column gets an event unless this is an "empty column" case
            if not Em[:, i].any() and c % 7:
                Em[int(rng.randint(T)), i] = 1
        if c % 7 == 0:
            Em[:, int(rng.randint(N))] = 0
        if set(np.unique(Em).tolist()) != {0, 1}:
            continue
        ts = None if c % 2 == 0 else rand_ts(rng, T)
        tm = [None, F(1), F(2), F(7, 2), F(0)][int(rng.randint(5))]
        lag = [F(0), F(0), F(1, 2), F(1)][int(rng.randint(4))]
        check_matrix(rep, Em, ts, tm, lag)


def job_threshold_exh(rep, L, alpha, lo, hi):
    qs = [F(0), F(1, 4), F(1, 2), F(3, 4), F(1)]
    for idx, vals in enumerate(itertools.product(range(alpha), repeat=L)):
        if not lo <= idx < hi:
            continue
        data = [[F(v)] for v in vals]
        for typ in ("above", "below", None):
            for q in qs:
                check_threshold(rep, data, "quantile", q, typ)
            for v2 in range(2 * min(vals), 2 * max(vals) + 1):
                check_threshold(rep, data, "value", F(v2, 2), typ)
            check_threshold(rep, data, "quantile", None, typ)
            check_threshold(rep, data, "value", None, typ)


def job_threshold_rand(rep, seed, count):
    rng = np.random.RandomState(seed)
    for c in range(count):
        N = int(rng.randint(1, 5))
        T = int(rng.randint(N + 2, 31))
        exact = c % 3 != 0
        if exact:
            den = [1, 2, 8][int(rng.randint(3))]
            data = [[F(int(v), den) for v in rng.randint(-6, 7, size=N)] for _ in range(T)]
        else:
            data = [[F(float(v)) for v in rng.randn(N)] for _ in range(T)]
        per = c % 2 == 0
        m = [str(rng.choice(["quantile", "value"])) for _ in range(N)]
        t = [str(rng.choice(["above", "below"])) for _ in range(N)]
        v = []
        for i in range(N):
            col = sorted(row[i] for row in data)
            if m[i] == "quantile":
                v.append(F(int(rng.randint(0, 9)), 8) if exact else F(float(rng.choice([0.1, 0.3, 0.5, 0.9, 0.95]))))
            else:
                a = col[int(rng.randint(T))]
                b = col[int(rng.randint(T))]
                v.append((a + b) / 2)
        if per:
            methods, values, types = m, v, t
        else:
            methods, values, types = m[0], v[0], t[0]
            if methods == "value":          # one value must lie inside every variable's range
                lo_ = max(min(row[i] for row in data) for i in range(N))
                hi_ = min(max(row[i] for row in data) for i in range(N))
                if lo_ > hi_:
                    methods, values = "quantile", F(3, 4)
                else:
                    values = (lo_ + hi_) / 2
        dflt = c % 5
        if dflt == 1:
            types = None
        elif dflt == 2:
            values = None
        check_threshold(rep, data, methods, values, types, via="static" if c % 4 else "constructor", exact=exact)


def job_escn(rep, seed, count):
    rng = np.random.RandomState(seed)
    for c in range(count):
        N = int(rng.randint(2, 6))
        T = int(rng.randint(N + 3, 21))
        method = "ES" if c % 2 == 0 else "ECA"
        sym = (ES_SYMS if method == "ES" else ECA_SYMS)[int(rng.randint(6 if method == "ES" else 4))]
        window = WINDOWS[int(rng.randint(3))]
        lag = [F(0), F(0), F(1)][int(rng.randint(3))]
        if method == "ES":
            tm = [None, F(1), F(3)][int(rng.randint(3))]
        else:
            tm = F(int(rng.randint(0, 4)))
        if c % 3 == 0:
            obs = [[F(int(v)) for v in row] for row in (rng.rand(T, N) < 0.5).astype(int)]
            thr = None
            flat = {v for row in obs for v in row}
            if flat != {F(0), F(1)}:
                continue
        else:
            obs = [[F(int(v)) for v in row] for row in rng.randint(0, 7, size=(T, N))]
            if c % 3 == 1:
                thr = ("quantile", F(int(rng.randint(2, 7)), 8), str(rng.choice(["above", "below"])))
            else:
                lo_ = max(min(row[i] for row in obs) for i in range(N))
                hi_ = min(max(row[i] for row in obs) for i in range(N))
                if lo_ > hi_:
                    continue
                thr = ("value", (lo_ + hi_) / 2, str(rng.choice(["above", "below"])))
        # ECA needs an event in every series (see UNDEF_NOTE)
        if thr is None:
            Em = np.array([[int(v) for v in row] for row in obs])
        else:
            Em = np.array([S.threshold_events([row[i] for row in obs], thr[0], thr[1], thr[2])[2]
                           for i in range(N)]).T
        if method == "ECA" and not Em.any(axis=0).all():
            rep.skip(UNDEF_NOTE)
            continue
        check_escn(rep, obs, method, tm, lag, sym, window, thr)


def job_escn_sig(rep, seed, count):
    """significance options of EventSeriesClimateNetwork on seeded binary observables"""
    rng = np.random.RandomState(seed)
    for c in range(count):
        N = int(rng.randint(2, 5))
        T = int(rng.randint(10, 19))
        method = "ES" if c % 2 == 0 else "ECA"
        sym = (ES_SYMS if method == "ES" else ECA_SYMS)[int(rng.randint(6 if method == "ES" else 4))]
        window = WINDOWS[int(rng.randint(3))]
        lag = [F(0), F(0), F(1)][int(rng.randint(3))]
        tm = [None, F(1), F(3)][int(rng.randint(3))] if method == "ES" else F(int(rng.randint(0, 4)))
        Em = (rng.rand(T, N) < rng.choice([0.3, 0.45, 0.6])).astype(int)
        for i in range(N):            # at least four events per series: ES has inner events
            while Em[:, i].sum() < 4:
                Em[int(rng.randint(T)), i] = 1
        if c % 5 == 0:
            Em[:, 1] = np.roll(Em[:, 0], 1)          # a strongly synchronised pair
        if set(np.unique(Em).tolist()) != {0, 1}:
            continue
        mode = "pval" if c % 3 == 2 else "p_value"
        p_value = [1.0, 0.5, 0.25, 0.875, 0.0, 0.125][int(rng.randint(6))] if mode == "p_value" else None
        check_escn_sig(rep, Em.tolist(), mode, method, tm, lag, sym, window, p_value,
                       int(rng.randint(1, 2 ** 31 - 1)))


def job_escn_wide(rep, seed, count):
    """continuous observables with more nodes than samples"""
    rng = np.random.RandomState(seed)
    for c in range(count):
        T = int(rng.randint(5, 9))
        N = T + int(rng.randint(1, 4))
        obs = [[F(int(v)) for v in row] for row in rng.randint(0, 9, size=(T, N))]
        thr = ("quantile", F(int(rng.randint(3, 7)), 8), str(rng.choice(["above", "below"])))
        check_escn_wide(rep, obs, thr)


REJECTS = [
    # (check suffix, how to call) - every entry is an argument set for which the docstrings state
    # an error (no stated quantile / value / method / window exists, so no event matrix or rate
    # can be "exactly the samples beyond it")
    ("make_event_matrix/rejects/quantile-above-1", lambda E, d, b: E.make_event_matrix(
        d, threshold_method="quantile", threshold_values=1.5, threshold_types="above")),
    ("make_event_matrix/rejects/quantile-below-0", lambda E, d, b: E.make_event_matrix(
        d, threshold_method="quantile", threshold_values=-0.25, threshold_types="above")),
    ("make_event_matrix/rejects/value-above-range", lambda E, d, b: E.make_event_matrix(
        d, threshold_method="value", threshold_values=float(d.max()) + 1.0, threshold_types="above")),
    ("make_event_matrix/rejects/value-below-range", lambda E, d, b: E.make_event_matrix(
        d, threshold_method="value", threshold_values=float(d.min()) - 1.0, threshold_types="below")),
    ("make_event_matrix/rejects/unknown-method", lambda E, d, b: E.make_event_matrix(
        d, threshold_method="percentile", threshold_values=0.5, threshold_types="above")),
    ("make_event_matrix/rejects/unknown-type", lambda E, d, b: E.make_event_matrix(
        d, threshold_method="quantile", threshold_values=0.5, threshold_types="over")),
    ("make_event_matrix/rejects/methods-wrong-length", lambda E, d, b: E.make_event_matrix(
        d, threshold_method=["quantile"] * (d.shape[1] + 1), threshold_values=0.5, threshold_types="above")),
    ("make_event_matrix/rejects/values-wrong-length", lambda E, d, b: E.make_event_matrix(
        d, threshold_method="quantile", threshold_values=[0.5] * (d.shape[1] + 1), threshold_types="above")),
    ("make_event_matrix/rejects/types-wrong-length", lambda E, d, b: E.make_event_matrix(
        d, threshold_method="quantile", threshold_values=0.5, threshold_types=["above"] * (d.shape[1] + 1))),
    ("EventSeries.__init__/rejects/non-binary-without-method", lambda E, d, b: E(d)),
    ("EventSeries.__init__/rejects/timestamps-wrong-length", lambda E, d, b: E(
        b, timestamps=np.arange(b.shape[0] + 1, dtype=float))),
    ("event_series_analysis/rejects/unknown-method", lambda E, d, b: E(b, taumax=2.0).event_series_analysis(
        method="EC")),
    ("event_series_analysis/rejects/ES-unknown-symmetrization", lambda E, d, b: E(
        b, taumax=2.0).event_series_analysis(method="ES", symmetrization="sum")),
    ("event_series_analysis/rejects/ECA-symmetrization-not-offered", lambda E, d, b: E(
        b, taumax=2.0).event_series_analysis(method="ECA", symmetrization="antisym")),
    ("event_series_analysis/rejects/ECA-unknown-window", lambda E, d, b: E(
        b, taumax=2.0).event_series_analysis(method="ECA", window_type="centred")),
    ("event_series_analysis/rejects/ECA-infinite-taumax-default", lambda E, d, b: E(
        b).event_series_analysis(method="ECA")),
    ("event_series_analysis/rejects/ECA-infinite-taumax", lambda E, d, b: E(
        b, taumax=float("inf")).event_series_analysis(method="ECA")),
    ("event_coincidence_analysis/rejects/unknown-window", lambda E, d, b: E(
        b, taumax=2.0)._eca_coincidence_rate(b[:, 0], b[:, 1], window_type="centred")),
]


def job_rejects(rep, seed, count):
    """documented errors: the call must raise, whatever it would otherwise return"""
    rng = np.random.RandomState(seed)
    E = ES()
    for c in range(count):
        N = int(rng.randint(2, 5))
        T = int(rng.randint(N + 3, 16))
        d = rng.randint(0, 9, size=(T, N)).astype(float)
        d[0, :] = 0.0
        d[1, :] = 8.0
        b = (rng.rand(T, N) < 0.5).astype(int)
        b[0, :] = 0
        b[1, :] = 1
        for name, fn in REJECTS:
            rep.case(("rejects", name, seed, c), nontrivial=True)
            res, exc = call(fn, E, d.copy(), b.copy())
            if exc is None:
                rep.fail(name, {"kind": "rejects", "check": name, "data": d.tolist(), "events": b.tolist()},
                         "returned %s instead of raising" % (np.asarray(res).tolist()
                                                             if not isinstance(res, tuple) else repr(res),))


def job_threshold_dtype_exh(rep, L, lo, hi, all_dtypes):
    kinds = INT_DTYPES + LOWP_DTYPES
    qs = [F(k, 8) for k in range(9)]
    for idx, vals in enumerate(itertools.product(range(-2, 3), repeat=L)):
        if not lo <= idx < hi:
            continue
        dts = kinds if all_dtypes else [kinds[idx % 7], kinds[(3 * idx + 1) % 7]]
        for dt in dict.fromkeys(dts):
            col = [v + 2 for v in vals] if dt == "uint8" else list(vals)      # unsigned: 0..4
            data = [[v] for v in col]
            for typ in ("above", "below", None):
                for q in qs:
                    check_threshold_dtype(rep, data, dt, "quantile", q, typ)
                for v2 in range(2 * min(col), 2 * max(col) + 1):
                    check_threshold_dtype(rep, data, dt, "value", F(v2, 2), typ)
                check_threshold_dtype(rep, data, dt, "quantile", None, typ)
                check_threshold_dtype(rep, data, dt, "value", None, typ)


def job_threshold_dtype_rand(rep, seed, count):
    rng = np.random.RandomState(seed)
    kinds = INT_DTYPES + LOWP_DTYPES + ["float64"]
    for c in range(count):
        dt = kinds[c % len(kinds)]
        N = int(rng.randint(1, 5))
        T = int(rng.randint(N + 2, 31))
        exact = True
        integer = dt in INT_DTYPES
        if integer:
            info = np.iinfo(dt)
            if (c // len(kinds)) % 3 == 0:
                # wide range, but max - min <= iinfo.max: NumPy's integer interpolation b - a of
                # np.quantile wraps around beyond that (dedicated probe narrow-int-quantile-overflow)
                hi_ = min(int(info.max), 30000) if dt == "uint8" else min(int(info.max) // 2, 15000)
                lo_ = 0 if dt == "uint8" else -hi_
            else:
                lo_, hi_ = (0, 12) if dt == "uint8" else (-6, 6)
            data = rng.randint(lo_, hi_ + 1, size=(T, N)).astype(np.float64)
        elif (c // len(kinds)) % 2 == 0:
            den = 2 if dt == "float16" else 8
            data = rng.randint(-6 * den, 6 * den + 1, size=(T, N)) / float(den)
        else:
            data = rng.randn(T, N).astype(dt).astype(np.float64)
            if c % 4 == 0:
                data = np.round(data, 1).astype(dt).astype(np.float64)      # many ties
            exact = False
        m = [str(rng.choice(["quantile", "value"])) for _ in range(N)]
        t = [str(rng.choice(["above", "below"])) for _ in range(N)]
        v = []
        for i in range(N):
            col = sorted(data[:, i].tolist())
            if m[i] == "quantile":
                if exact and rng.rand() < 0.8:
                    v.append(F(int(rng.randint(0, 9)), 8))
                else:
                    v.append(F(float(rng.choice([0.1, 0.15, 0.3, 0.5, 0.65, 0.9, 0.95]))))
                    exact = False
            elif col[0] == col[-1]:
                v.append(F(col[0]))
            elif integer:
                k = int(rng.randint(int(col[0]), int(col[-1])))
                v.append(F(k) + F(int(rng.choice([1, 2, 2, 3])), 4))       # non-integer, both signs
            else:
                how = int(rng.randint(4))
                s_ = col[int(rng.randint(T))]
                if how == 0:
                    v.append((F(s_) + F(col[int(rng.randint(T))])) / 2)
                elif how == 1:
                    v.append(F(s_))                                        # exactly on a sample
                else:       # the float64 neighbour of a sample, inside the variable's range
                    up = s_ < col[-1] and (how == 2 or s_ == col[0])
                    v.append(F(float(np.nextafter(s_, np.inf if up else -np.inf))))
        per = c % 2 == 0
        if per:
            methods, values, types = m, v, t
        else:
            methods, values, types = m[0], v[0], t[0]
            if methods == "value":          # one value must lie inside every variable's range
                lo_ = max(float(data[:, i].min()) for i in range(N))
                hi_ = min(float(data[:, i].max()) for i in range(N))
                if lo_ > hi_:
                    methods, values = "quantile", F(3, 4)
                elif lo_ == hi_:
                    values = F(lo_)
                elif integer:
                    values = F(int(rng.randint(int(lo_), int(hi_)))) + F(1, 2)
                else:
                    values = (F(lo_) + F(hi_)) / 2
        dflt = c % 5
        if dflt == 1:
            types = None
        elif dflt == 2:
            values = None
        elif dflt == 3 and per:
            types = ["above" if i % 2 else "below" for i in range(N)]       # mixed directions
        check_threshold_dtype(rep, data.tolist(), dt, methods, values, types,
                              via="static" if c % 4 else "constructor", exact=exact)


def job_narrow_int_probe(rep):
    """Dedicated probe (one case): quantile threshold of int8 data whose range exceeds 127.  The
    general dtype family keeps max - min <= iinfo(dtype).max; this single case documents what
    happens beyond."""
    E = ES()
    col = [-84, -60, -44, 116, 98, 122]
    arr = np.array([[v] for v in col], dtype=np.int8)
    W = {"kind": "narrow_int_probe", "data": [[v] for v in col], "dtype": "int8", "methods": "quantile",
         "values": 0.5, "types": "above"}
    rep.case(("narrow-int-probe",), nontrivial=True)
    got, exc = call(E.make_event_matrix, arr, threshold_method="quantile", threshold_values=0.5,
                    threshold_types="above")
    thr, _, ev = S.threshold_events([F(v) for v in col], "quantile", F(1, 2), "above")
    if exc is not None or np.asarray(got)[:, 0].astype(int).tolist() != ev:
        rep.fail("make_event_matrix/narrow-int-quantile-overflow", W,
                 "int8 samples %s, median (0.5-quantile) = %s, 'above': expected events %s, got %s"
                 % (col, float(thr), ev, repr(exc) if exc is not None else np.asarray(got)[:, 0].astype(int).tolist()))


def fine_ts(rng, T, mode):
    """'grid': 0,1,2,...; 'dyadic': random gaps k/4; 'near': as dyadic, but about every fourth gap
    is 1..3 x 2**-30 (distinct, nearly simultaneous stamps)."""
    if mode == "grid":
        return [F(k) for k in range(T)]
    t = [F(int(rng.randint(-80, 80)), 4)]
    for _ in range(T - 1):
        if mode == "near" and rng.rand() < 0.25:
            t.append(t[-1] + TINY * int(rng.randint(1, 4)))
        else:
            t.append(t[-1] + F(int(rng.randint(1, 13)), 4))
    return t


def jitter_ts(rng, ts):
    """Second timestamp vector: every stamp moved by j x 2**-30, j in -2..2 (strictly increasing)."""
    out = [t + int(rng.randint(-2, 3)) * TINY for t in ts]
    for k in range(1, len(out)):
        if out[k] <= out[k - 1]:
            out[k] = out[k - 1] + TINY
    return out


def job_scaled_pairs(rep, seed, count):
    rng = np.random.RandomState(seed)
    for c in range(count):
        T = int(rng.randint(8, 37))
        p, q = rng.choice([0.2, 0.35, 0.5, 0.8], size=2)
        x = (rng.rand(T) < p).astype(int)
        y = (rng.rand(T) < q).astype(int)
        if c % 4 == 0:
            y = np.roll(x, int(rng.randint(0, 3)))
        mode = ["grid", "dyadic", "near"][c % 3]
        ts1 = fine_ts(rng, T, mode)
        ts2 = jitter_ts(rng, ts1) if (mode == "near" or c % 5 == 0) else ts1
        tm = [None, None, F(0), TINY, F(1), F(5, 2), F(4)][int(rng.randint(7))]
        lag = [F(0), F(0), TINY, F(1, 2), F(1), F(-3, 4)][int(rng.randint(6))]
        tm2 = [F(0), TINY, 2 * TINY, F(1), F(5, 2), F(4)][int(rng.randint(6))]
        if check_scaled_pair(rep, x, y, ts1, ts2, tm, tm2, lag):
            rep.nontrivial.add(("scaled-pair", seed, c))
            if c == 2 and len(rep.samples) < 1:
                rep.samples.append({"kind": "scaled_pair", "x": x.tolist(), "y": y.tolist(),
                                    "ts1": [float(t_) for t_ in ts1], "ts2": [float(t_) for t_ in ts2],
                                    "scales": ["2**%d" % e for e in SCALE_EXPS]})


def job_scaled_matrices(rep, seed, count):
    rng = np.random.RandomState(seed)
    for c in range(count):
        N = int(rng.randint(2, 5))
        T = int(rng.randint(6, 25))
        dens = rng.choice([0.3, 0.5, 0.7], size=N)
        Em = (rng.rand(T, N) < dens).astype(int)
        for i in range(N):
            if not Em[:, i].any():
                Em[int(rng.randint(T)), i] = 1
        if set(np.unique(Em).tolist()) != {0, 1}:
            continue
        ts = fine_ts(rng, T, ["grid", "dyadic", "near"][c % 3])
        tm = [None, F(0), TINY, F(1), F(2), F(7, 2)][int(rng.randint(6))]
        lag = [F(0), F(0), TINY, F(1, 2), F(1)][int(rng.randint(5))]
        if check_scaled_matrix(rep, Em, ts, tm, lag):
            rep.nontrivial.add(("scaled-matrix", seed, c))


JOBS = {"pairs": job_pairs, "randpairs": job_randpairs, "matrices": job_matrices,
        "threshold_exh": job_threshold_exh, "threshold_rand": job_threshold_rand, "escn": job_escn,
        "threshold_dtype_exh": job_threshold_dtype_exh, "threshold_dtype_rand": job_threshold_dtype_rand,
        "scaled_pairs": job_scaled_pairs, "scaled_matrices": job_scaled_matrices,
        "narrow_int_probe": job_narrow_int_probe, "escn_sig": job_escn_sig, "escn_wide": job_escn_wide,
        "rejects": job_rejects}


def run_job(spec):
    args, name, params = spec
    rep = Report(PROP, args, "", "")
    if os.environ.get("C16_TIMING"):
        print("start", name, params, file=sys.stderr, flush=True)
    try:
        JOBS[name](rep, *params)
        if os.environ.get("C16_TIMING"):
            print("done %.1fs" % rep.elapsed(), name, params, file=sys.stderr, flush=True)
    except Exception as e:  # noqa: BLE001
        import traceback
        return {"crash": "%s%r: %s" % (name, params, traceback.format_exc()[-1500:])}
    return {"evaluations": rep.evaluations, "nontrivial": rep.nontrivial, "samples": rep.samples,
            "failures": rep.failures, "by_check": rep.by_check, "nfail": rep.nfail, "skipped": rep.skipped}


def merge(rep, r):
    rep.evaluations += r["evaluations"]
    rep.nontrivial |= r["nontrivial"]
    for s in r["samples"]:
        if len(rep.samples) < 8 and s.get("kind") not in [q.get("kind") for q in rep.samples[-2:]]:
            rep.samples.append(s)
    for f in r["failures"]:
        have = sum(1 for g in rep.failures if g["check"] == f["check"])
        if have < 3 and len(rep.failures) < rep.MAX_FAIL:
            rep.failures.append(f)
    for k, v in r["by_check"].items():
        rep.by_check[k] = rep.by_check.get(k, 0) + v
    rep.nfail += r["nfail"]
    for s in r["skipped"]:
        rep.skip(s)


def plan(args):
    quick = args.tier == "quick"
    Tmax = 6 if quick else 8
    jobs = []
    for T in range(Tmax, 1, -1):
        n = 1 << T
        step = max(1, n // (32 if T == Tmax else 8))
        for lo in range(0, n, step):
            jobs.append((args, "pairs", (T, lo, min(n, lo + step))))
    s = args.seed * 1000
    nr = 8 if quick else 16
    for k in range(nr):
        jobs.append((args, "randpairs", (s + k, 25 if quick else 150)))
        jobs.append((args, "matrices", (s + 100 + k, 25 if quick else 150)))
        jobs.append((args, "threshold_rand", (s + 200 + k, 150 if quick else 1000)))
        jobs.append((args, "escn", (s + 300 + k, 40 if quick else 250)))
        jobs.append((args, "threshold_dtype_rand", (s + 400 + k, 300 if quick else 2000)))
        jobs.append((args, "scaled_pairs", (s + 500 + k, 30 if quick else 200)))
        jobs.append((args, "scaled_matrices", (s + 600 + k, 20 if quick else 120)))
        jobs.append((args, "escn_sig", (s + 700 + k, 6 if quick else 40)))
    jobs.append((args, "escn_wide", (s + 800, 6 if quick else 40)))
    jobs.append((args, "rejects", (s + 900, 3 if quick else 20)))
    L, alpha = (5, 3) if quick else (6, 4)
    tot = alpha ** L
    step = -(-tot // 8)
    for lo in range(0, tot, step):
        jobs.append((args, "threshold_exh", (L, alpha, lo, min(tot, lo + step))))
    jobs.append((args, "narrow_int_probe", ()))
    L2 = 4 if quick else 5
    tot = 5 ** L2
    step = -(-tot // 16)
    for lo in range(0, tot, step):
        jobs.append((args, "threshold_dtype_exh", (L2, lo, min(tot, lo + step), True)))
    return jobs


def replay(rep, w):
    k = w.get("kind")
    if k == "pair":
        x, y = np.array(w["x"], dtype=int), np.array(w["y"], dtype=int)
        ts = None if w["ts"] is None else [F(v) for v in w["ts"]]
        tm, lag = frac(w["taumax"]), F(w["lag"])
        if w.get("method", "ES") == "ES":
            check_es_pair(rep, x, y, ts, tm, lag)
        else:
            check_eca_pair(rep, x, y, ts, tm, lag)
    elif k == "matrix":
        ts = None if w["ts"] is None else [F(v) for v in w["ts"]]
        check_matrix(rep, np.array(w["E"], dtype=int), ts, frac(w["taumax"]), F(w["lag"]))
    elif k == "threshold":
        data = [[F(v) for v in row] for row in w["data"]]
        vals = w["values"]
        if isinstance(vals, list):
            vals = [F(v) for v in vals]
        elif vals is not None:
            vals = F(vals)
        check_threshold(rep, data, w["methods"], vals, w["types"], via=w["via"], exact=w["exact"])
    elif k == "threshold_dtype":
        vals = w["values"]
        if isinstance(vals, list):
            vals = [F(v) for v in vals]
        elif vals is not None:
            vals = F(vals)
        check_threshold_dtype(rep, w["data"], w["dtype"], w["methods"], vals, w["types"], via=w["via"],
                              exact=w["exact"])
    elif k == "narrow_int_probe":
        job_narrow_int_probe(rep)
    elif k in ("scaled_pair", "scaled_matrix"):
        fr = lambda q: None if q is None else F(q[0], q[1])  # noqa: E731
        ts1 = [fr(q) for q in w["ts1"]]
        if k == "scaled_pair":
            ts2 = [fr(q) for q in w["ts2"]]
            check_scaled_pair(rep, np.array(w["x"], dtype=int), np.array(w["y"], dtype=int), ts1, ts2,
                              fr(w["taumax"]), fr(w["taumax_eca"]), fr(w["lag"]))
        else:
            check_scaled_matrix(rep, np.array(w["E"], dtype=int), ts1, fr(w["taumax"]), fr(w["lag"]))
    elif k == "escn":
        obs = [[F(v) for v in row] for row in w["obs"]]
        thr = None if w["thr"] is None else (w["thr"][0], F(w["thr"][1]), w["thr"][2])
        check_escn(rep, obs, w["method"], frac(w["taumax"]), F(w["lag"]), w["sym"], w["window"], thr)
    elif k == "escn_sig":
        check_escn_sig(rep, w["E"], w["mode"], w["method"], frac(w["taumax"]), F(w["lag"]), w["sym"],
                       w["window"], w["p_value"], w["rseed"])
    elif k == "rejects":
        fn = dict(REJECTS)[w["check"]]
        rep.case(("rejects", w["check"]), nontrivial=True)
        res, exc = call(fn, ES(), np.array(w["data"], dtype=float), np.array(w["events"], dtype=int))
        if exc is None:
            rep.fail(w["check"], w, "returned %r instead of raising" % (res,))
    elif k == "escn_wide":
        obs = [[F(v) for v in row] for row in w["obs"]]
        check_escn_wide(rep, obs, (w["thr"][0], F(w["thr"][1]), w["thr"][2]))
    else:
        raise ValueError("unknown witness kind %r" % (k,))


def main():
    args = parse_args()
    rep = Report(PROP, args, SCOPE, RULE)
    try:
        import pyunicorn.eventseries  # noqa: F401
        import pyunicorn.climate  # noqa: F401
    except Exception as e:  # noqa: BLE001
        print("cannot import pyunicorn: %r" % (e,), file=sys.stderr)
        sys.exit(3)
    if args.replay:
        with open(args.replay) as f:
            replay(rep, json.load(f)["witness"])
        rep.finish()
        return
    jobs = plan(args)
    crashes = []
    with mp.Pool(min(8, mp.cpu_count() or 1)) as pool:
        for r in pool.imap_unordered(run_job, jobs):
            if "crash" in r:
                crashes.append(r["crash"])
            else:
                merge(rep, r)
    if crashes:
        print("harness crashed in a job:\n" + "\n".join(crashes[:3]), file=sys.stderr)
        rep.finish()
        sys.exit(3)
    rep.finish()


if __name__ == "__main__":
    main()
