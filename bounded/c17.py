#!/usr/bin/env python
"""Bounded stand-in for C17: random models and rewirings keep their documented invariants.

For every case (generator / randomisation, parameters, input graph, RNG seed) the real code is
run with `random.seed(s); numpy.random.seed(s)` (igraph draws from Python's `random`; the own
Barabasi-Albert implementation, the Cython rewiring / cross-link kernels and
set_random_links_by_distance draw from numpy's global RNG) and its *output adjacency* is checked
against the invariants written in the docstrings, evaluated by plain NumPy on the matrices:

 ErdosRenyi            simple graph on n_nodes; n_links variant: exactly n_links links;
                       p = 0 / p = 1: empty / complete.
 BarabasiAlbert        simple, exactly m (N - m) links, every new node j > m has exactly m links
                       to earlier nodes (docstring: "exactly n_links_each * (n_nodes-n_links_each)").
 BarabasiAlbert_igraph simple, every node has at most m links to earlier nodes.
 Configuration         simple, degree_i <= requested degree_i.
 WattsStrogatz         (N > 2k) simple, exactly N k links, p = 0: ring lattice.
 randomly_rewire       simple, N / n_links / (in-,out-)degree sequence / node weights unchanged,
                       embedded graph = adjacency.
 geomodel I/II/III     simple, degree sequence unchanged, frame (N, weights, grid); with
                       iterations = 1: exactly one swap of two disjoint links whose lengths satisfy
                       I: a bijection old->new link with |dl| < eps; II/III: at each of the four
                       nodes the replaced link's length changes by < eps; III: multiset of
                       degree pairs of links unchanged.  iterations = T in one call: <= 2T links
                       replaced, L1 distance of sorted link-length vectors < 2 T eps, (II/III) node
                       link-length sums move by < T eps, (III) degree-pair multiset.
 set_random_links_by_distance   symmetric, loop-free, 0/1, N and weights kept; exp(a+b d) >= 1
                       everywhere -> complete, exp(..) = 0 -> empty.
 RandomlySetCrossLinks(_sparse) simple; cross block has exactly the documented number of links;
                       everything outside the cross block, N, weights and the input network
                       unchanged.
 RandomlyRewireCrossLinks       simple; cross degrees of both groups (row / column sums of the
                       cross block) and hence degrees unchanged; outside block / input untouched.

Rejection loops do not terminate when no admissible choice exists (termination is not claimed by
the property), so rewiring cases are only run when an admissible swap exists in the start
configuration (the reverse swap is then always admissible); a hung worker is reported as
"harness/hang".  Float tolerance for the length conditions: distances are float32 in the kernel;
the check uses |dl| < eps + 1e-5 * max|D| (eps values are dyadic).
"""
import os
import sys
import json
import time
import random as pyrandom
import itertools
import multiprocessing as mp
from collections import Counter
from fractions import Fraction

import numpy as np

from bounded.common import (parse_args, Report, jsonable, all_undirected_graphs,
                            random_graph, quiet)


# ------------------------------------------------------------------ definition-level helpers

def seed_all(s):
    pyrandom.seed(int(s))
    np.random.seed(int(s) % (2 ** 32))


def as_dense(M):
    if hasattr(M, "toarray"):
        M = M.toarray()
    return np.asarray(M)


def not_simple(M, n):
    """None if M is the adjacency matrix of a simple undirected graph on n nodes."""
    if M.ndim != 2 or M.shape != (n, n):
        return f"shape {M.shape} expected {(n, n)}"
    if not np.isin(M, (0, 1)).all():
        return f"entries outside {{0,1}}: {np.unique(M).tolist()}"
    if np.diag(M).any():
        return "self-loops on the diagonal"
    if not np.array_equal(M, M.T):
        return "not symmetric"
    return None


def links(A):
    return {(int(i), int(j)) for i, j in zip(*np.nonzero(np.triu(A, 1)))}


def net_consistent(net, A, directed=False):
    """embedded graph and counters agree with the adjacency matrix A that was observed."""
    n = A.shape[0]
    g = net.graph
    el = g.get_edgelist()
    if directed:
        es = {(int(a), int(b)) for a, b in el}
        want = {(int(i), int(j)) for i, j in zip(*np.nonzero(A))}
        nl = int(A.sum())
    else:
        es = {(min(a, b), max(a, b)) for a, b in el}
        want = links(A)
        nl = int(A.sum()) // 2
    if int(net.N) != n or g.vcount() != n:
        return f"N={net.N} vcount={g.vcount()} expected {n}"
    if int(net.n_links) != nl or g.ecount() != nl or es != want or len(el) != len(es):
        return f"n_links={net.n_links} ecount={g.ecount()} edge set differs from adjacency"
    if n > 1 and abs(net.link_density - A.sum() / (n * (n - 1))) > 1e-12:
        return f"link_density={net.link_density}"
    return None


def deg_pairs(A):
    d = A.sum(axis=1)
    return Counter(tuple(sorted((int(d[i]), int(d[j])))) for i, j in links(A))


def f32sym(D):
    D = np.asarray(D, dtype=np.float32)
    return D


# ---- admissibility guard for the geographical rewiring (uses the kernel's edge orientation)

def _c1(D, eps, s, t, k, l):
    a = abs
    return (a(D[s, t] - D[k, t]) < eps and a(D[k, l] - D[s, l]) < eps) or \
           (a(D[s, t] - D[s, l]) < eps and a(D[k, l] - D[k, t]) < eps)


def _c2(D, eps, s, t, k, l):
    a = abs
    return a(D[s, t] - D[s, l]) < eps and a(D[t, s] - D[t, k]) < eps and \
        a(D[k, l] - D[k, t]) < eps and a(D[l, k] - D[l, s]) < eps


def admissible_swap_exists(A, D, eps, edges, model):
    """Is there an ordered pair of table edges for which the documented swap is allowed, with a
    0.1 % safety margin on eps (so that float32 rounding cannot make the kernel disagree)?"""
    D = np.asarray(D, dtype=float)
    e = eps * (1 - 1e-3) - 1e-5 * float(np.abs(D).max() if D.size else 0)
    deg = A.sum(axis=1)
    cond = _c1 if model == 1 else _c2
    for (s, t), (k, l) in itertools.permutations(edges, 2):
        if len({s, t, k, l}) < 4 or A[s, l] or A[t, k]:
            continue
        if model == 3 and not (deg[s] == deg[k] and deg[t] == deg[l]):
            continue
        if cond(D, e, s, t, k, l):
            return True
    return False


def cross_swap_exists(CA):
    cl = list(zip(*np.nonzero(CA)))
    for (a, b), (c, d) in itertools.permutations(cl, 2):
        if not CA[a, d] and not CA[c, b]:
            return True
    return False


# ------------------------------------------------------------------ case runners
# every runner returns (fails, nontrivial) ; fails = [(check, detail)]

def run_generator(c):
    from pyunicorn.core.network import Network
    fails = []
    kind = c["kind"]
    seed_all(c["seed"])
    nontrivial = True
    if kind in ("ER_p", "ER_m"):
        n = c["n"]
        if kind == "ER_p":
            M = as_dense(Network.ErdosRenyi(n_nodes=n, link_probability=c["p"], silence_level=3))
        else:
            M = as_dense(Network.ErdosRenyi(n_nodes=n, n_links=c["m"], silence_level=3))
        ns = not_simple(M, n)
        if ns:
            fails.append(("ErdosRenyi/simple", ns))
        else:
            nl = int(M.sum()) // 2
            if kind == "ER_m" and nl != c["m"]:
                fails.append(("ErdosRenyi/n_links", f"{nl} links, requested {c['m']}"))
            if kind == "ER_p" and c["p"] == 0 and nl != 0:
                fails.append(("ErdosRenyi/p-extremes", f"p=0 gave {nl} links"))
            if kind == "ER_p" and c["p"] == 1 and nl != n * (n - 1) // 2:
                fails.append(("ErdosRenyi/p-extremes", f"p=1 gave {nl} links"))
            nontrivial = 0 < nl
        if c.get("via_model") and not ns:
            seed_all(c["seed"])
            kw = {"link_probability": c["p"]} if kind == "ER_p" else {"n_links": c["m"]}
            net = Network.Model("ErdosRenyi", n_nodes=n, silence_level=3, **kw)
            A2 = np.asarray(net.adjacency)
            msg = not_simple(A2, n) or net_consistent(net, A2)
            if msg:
                fails.append(("ErdosRenyi/model-network", msg))
            elif kind == "ER_m" and int(net.n_links) != c["m"]:
                fails.append(("ErdosRenyi/n_links", f"Model(): {net.n_links} links, requested {c['m']}"))
    elif kind == "BA":
        n, m = c["n"], c["m"]
        if c.get("via_model"):
            net = Network.Model("BarabasiAlbert", n_nodes=n, n_links_each=m)
            M = np.asarray(net.adjacency)
            msg = net_consistent(net, M) if not not_simple(M, n) else None
            if msg:
                fails.append(("BarabasiAlbert/model-network", msg))
        else:
            M = as_dense(Network.BarabasiAlbert(n_nodes=n, n_links_each=m))
        ns = not_simple(M, n)
        if ns:
            fails.append(("BarabasiAlbert/simple", ns))
        else:
            nl = int(M.sum()) // 2
            if nl != m * (n - m):
                fails.append(("BarabasiAlbert/n_links", f"{nl} links, documented {m}*({n}-{m})={m*(n-m)}"))
            back = [int(M[j, :j].sum()) for j in range(n)]
            if any(back[j] != m for j in range(m + 1, n)) or any(back[j] != 1 for j in range(1, min(m + 1, n))):
                fails.append(("BarabasiAlbert/new-node-links", f"links to earlier nodes per node: {back}, m={m}"))
            nontrivial = n > m + 1
    elif kind == "BA_igraph":
        n, m = c["n"], c["m"]
        M = as_dense(Network.BarabasiAlbert_igraph(n_nodes=n, n_links_each=m))
        ns = not_simple(M, n)
        if ns:
            fails.append(("BarabasiAlbert_igraph/simple", ns))
        else:
            back = [int(M[j, :j].sum()) for j in range(n)]
            if any(b > m for b in back):
                fails.append(("BarabasiAlbert_igraph/new-node-links", f"links to earlier nodes {back} exceed m={m}"))
            nontrivial = n > 2
    elif kind == "Configuration":
        deg = c["degree"]
        n = len(deg)
        try:
            M = as_dense(Network.Configuration(deg if c["seed"] % 2 else np.array(deg)))
        except Exception:                                          # noqa
            if sum(deg) % 2 == 0:
                raise
            return fails, False         # a sequence with an odd sum has no realisation: refusing it is fine
        ns = not_simple(M, n)
        if ns:
            fails.append(("Configuration/simple", ns))
        else:
            got = M.sum(axis=1)
            if (got > np.asarray(deg)).any():
                fails.append(("Configuration/degree-bound", f"degrees {got.tolist()} exceed requested {deg}"))
            nontrivial = int(M.sum()) > 0
    elif kind == "WS":
        n, k, p = c["n"], c["k"], c["p"]
        M = as_dense(Network.WattsStrogatz(N=n, k=k, p=p))
        ns = not_simple(M, n)
        if ns:
            fails.append(("WattsStrogatz/simple", ns))
        else:
            nl = int(M.sum()) // 2
            if nl != n * k:
                fails.append(("WattsStrogatz/n_links", f"{nl} links, expected N*k={n*k}"))
            if p == 0:
                idx = np.arange(n)
                cd = np.abs(idx[:, None] - idx[None, :])
                ring = ((np.minimum(cd, n - cd) <= k) & (cd > 0)).astype(int)
                if not np.array_equal(M, ring):
                    fails.append(("WattsStrogatz/ring-lattice", f"p=0 result {M.tolist()} is not the k-ring"))
            nontrivial = p > 0
    else:
        raise ValueError(kind)
    return fails, nontrivial


def run_model_embedded(c):
    """SpatialNetwork.Model / GeoNetwork.Model: the named generator's graph embedded on the given
    grid - simple, consistent, the prescribed link count (ErdosRenyi n_links, BarabasiAlbert
    m(n-m)), undirected, on the caller's grid object."""
    from pyunicorn.core import SpatialNetwork, GeoNetwork, Grid, GeoGrid
    fails = []
    n = c["n"]
    rs = np.random.RandomState(c["seed"] % (2 ** 32))
    t = np.arange(3.0)
    if c["cls"] == "geo":
        cls, grid = GeoNetwork, GeoGrid(t, rs.uniform(-80, 80, n).round(2), rs.uniform(-180, 180, n).round(2),
                                        silence_level=3)
    else:
        cls, grid = SpatialNetwork, Grid(t, rs.uniform(0, 3, (2, n)).round(3), silence_level=3)
    name = cls.__name__ + ".Model"
    seed_all(c["seed"])
    if c["model"] == "ER":
        net = cls.Model("ErdosRenyi", grid, n_nodes=n, n_links=c["m"], silence_level=3)
        want = c["m"]
    else:
        net = cls.Model("BarabasiAlbert", grid, n_nodes=n, n_links_each=c["m"])
        want = c["m"] * (n - c["m"])
    if type(net) is not cls:
        fails.append((name + "/type", type(net).__name__))
    A = np.asarray(net.adjacency)
    msg = not_simple(A, n) or net_consistent(net, A)
    if msg:
        fails.append((name + "/model-network", msg))
        return fails, True
    if int(net.n_links) != want or int(A.sum()) // 2 != want:
        fails.append((name + "/n_links", f"{net.n_links} links, prescribed {want}"))
    if net.grid is not grid or bool(net.directed):
        fails.append((name + "/frame", "not on the given grid / not undirected"))
    return fails, want > 0


def run_rewire(c):
    from pyunicorn.core.network import Network
    fails = []
    A = np.asarray(c["A"], dtype=np.int64)
    n = A.shape[0]
    directed = bool(c["directed"])
    w = c.get("w")
    net = Network(adjacency=A, directed=directed, node_weights=w, silence_level=3)
    w0 = np.array(net.node_weights)
    seed_all(c["seed"])
    net.randomly_rewire(c["iterations"])
    B = np.asarray(net.adjacency)
    if B.shape != (n, n) or int(net.N) != n:
        fails.append(("randomly_rewire/N", f"N {n} -> {net.N}, adjacency shape {B.shape}"))
        return fails, True
    if not np.isin(B, (0, 1)).all() or np.diag(B).any() or (not directed and not np.array_equal(B, B.T)):
        fails.append(("randomly_rewire/simple", f"result {B.tolist()}"))
        return fails, True
    if not np.array_equal(B.sum(axis=1), A.sum(axis=1)) or not np.array_equal(B.sum(axis=0), A.sum(axis=0)):
        fails.append(("randomly_rewire/degree", f"out {A.sum(axis=1).tolist()}->{B.sum(axis=1).tolist()} "
                                                 f"in {A.sum(axis=0).tolist()}->{B.sum(axis=0).tolist()}"))
    msg = net_consistent(net, B, directed)
    if msg:
        fails.append(("randomly_rewire/consistent", msg))
    if int(net.n_links) != (int(A.sum()) if directed else int(A.sum()) // 2):
        fails.append(("randomly_rewire/n_links", f"{net.n_links}"))
    w1 = net.node_weights
    if w1 is None or len(w1) != n or not np.array_equal(w1, w0):
        fails.append(("randomly_rewire/frame", f"node weights {w0.tolist()} -> {None if w1 is None else list(w1)}"))
    return fails, not np.array_equal(A, B)


def _mk_spatial(c, A):
    from pyunicorn.core.grid import Grid
    from pyunicorn.core.geo_grid import GeoGrid
    from pyunicorn.core.spatial_network import SpatialNetwork
    from pyunicorn.core.geo_network import GeoNetwork
    coords = np.asarray(c["coords"], dtype=float)
    t = np.arange(2, dtype=float)
    if c["cls"] == "geo":
        return GeoNetwork(grid=GeoGrid(t, coords[0], coords[1], silence_level=3), adjacency=A,
                          directed=bool(c.get("directed", False)),
                          node_weight_type=c.get("nwt", "surface"), silence_level=3)
    net = SpatialNetwork(grid=Grid(t, coords, silence_level=3), adjacency=A,
                         directed=bool(c.get("directed", False)), silence_level=3)
    return net


def run_geomodel(c):
    fails = []
    A0 = np.asarray(c["A"], dtype=np.int64)
    n = A0.shape[0]
    if A0.sum() < 4:
        return fails, None              # fewer than two links: nothing to rewire
    model = c["model"]
    name = "randomly_rewire_geomodel_" + "I" * model
    eps = float(c["eps"])
    net = _mk_spatial(c, A0)
    if c.get("w") is not None:
        net.node_weights = c["w"]
    w0 = np.array(net.node_weights)
    grid0 = net.grid
    D = np.array(c["D"], dtype=float) if c.get("D") is not None else np.array(net.grid.distance())
    D32 = D.astype(np.float32)
    if not np.array_equal(D32, D32.T):
        return fails, None              # outside "defined": needs a symmetric distance matrix
    Df = D32.astype(float)
    slack = 1e-5 * float(np.abs(Df).max())
    method = getattr(net, name)
    steps = c["steps"] if c["mode"] == "steps" else 1
    iters = 1 if c["mode"] == "steps" else c["iterations"]
    seed_all(c["seed"])
    changed = False
    A = A0
    for step in range(steps):
        edges = [tuple(int(x) for x in e) for e in net.graph.get_edgelist()]
        if iters > 0 and not admissible_swap_exists(A, Df, eps, edges, model):
            if step == 0:
                return fails, None      # operation would not terminate: not defined
            break
        method(distance_matrix=D32 if step % 2 else D, iterations=iters, inaccuracy=eps)
        B = np.asarray(net.adjacency)
        ns = not_simple(B, n)
        if ns:
            fails.append((name + "/simple", f"step {step}: {ns}; result {B.tolist()}"))
            break
        if not np.array_equal(B.sum(axis=1), A.sum(axis=1)):
            fails.append((name + "/degree", f"step {step}: {A.sum(axis=1).tolist()} -> {B.sum(axis=1).tolist()}"))
        msg = net_consistent(net, B)
        if msg:
            fails.append((name + "/consistent", f"step {step}: {msg}"))
        w1 = net.node_weights
        if net.grid is not grid0 or w1 is None or not np.array_equal(w1, w0):
            fails.append((name + "/frame", "grid or node weights changed"))
        removed, added = sorted(links(A) - links(B)), sorted(links(B) - links(A))
        if iters == 0 and (removed or added):
            fails.append((name + "/iterations0", f"network changed: -{removed} +{added}"))
        if len(removed) > 2 * iters or len(removed) != len(added):
            fails.append((name + "/swap-count", f"iterations={iters}: -{removed} +{added}"))
        if model == 3 and deg_pairs(A) != deg_pairs(B):
            fails.append((name + "/degree-pairs", f"step {step}: {dict(deg_pairs(A))} -> {dict(deg_pairs(B))}"))
        if iters == 1:
            # exactly one successful swap is performed per iteration
            nodes = {x for e in removed for x in e}
            if len(removed) != 2 or len(added) != 2 or len(nodes) != 4 or \
                    {x for e in added for x in e} != nodes:
                fails.append((name + "/one-swap", f"step {step}: -{removed} +{added}"))
            else:
                (o1, o2), (n1, n2) = removed, added
                lo = [Df[o1], Df[o2]]
                ln = [Df[n1], Df[n2]]
                e_ = eps + slack
                if model == 1:
                    ok = (abs(lo[0] - ln[0]) < e_ and abs(lo[1] - ln[1]) < e_) or \
                         (abs(lo[0] - ln[1]) < e_ and abs(lo[1] - ln[0]) < e_)
                else:
                    # at every node the replaced link's length moves by < eps
                    ok = True
                    for v in nodes:
                        old = [e for e in removed if v in e][0]
                        new = [e for e in added if v in e][0]
                        ok = ok and abs(Df[old] - Df[new]) < e_
                if not ok:
                    fails.append((name + "/length-condition",
                                  f"step {step}: removed {removed} lengths {lo}, added {added} lengths {ln}, eps={eps}"))
        else:
            so = np.sort([Df[e] for e in links(A)])
            sn = np.sort([Df[e] for e in links(B)])
            if len(so) == len(sn) and np.abs(so - sn).sum() >= 2 * iters * (eps + slack) and iters > 0:
                fails.append((name + "/length-drift", f"L1 of sorted link lengths {np.abs(so - sn).sum()} "
                                                      f">= 2*{iters}*{eps}"))
            if model >= 2 and iters > 0:
                dl = np.abs((Df * B).sum(axis=1) - (Df * A).sum(axis=1))
                if (dl >= iters * (eps + slack) + slack * n).any():
                    fails.append((name + "/node-length-drift", f"node link-length sums moved by {dl.tolist()} "
                                                               f">= {iters}*{eps}"))
        if removed:
            changed = True
        A = B
    return fails, changed


def run_dist(c):
    fails = []
    name = "set_random_links_by_distance"
    A0 = np.asarray(c["A"], dtype=np.int64)
    n = A0.shape[0]
    net = _mk_spatial(c, A0)
    if c.get("w") is not None:
        net.node_weights = c["w"]
    w0 = np.array(net.node_weights)
    grid0 = net.grid
    D = np.asarray(net.grid.distance(), dtype=float)
    seed_all(c["seed"])
    net.set_random_links_by_distance(a=c["a"], b=c["b"])
    B = np.asarray(net.adjacency)
    ns = not_simple(B, n)
    if ns:
        fails.append((name + "/simple", f"{ns}; result {B.tolist()}"))
        return fails, True
    if not c.get("directed"):
        msg = net_consistent(net, B)
        if msg:
            fails.append((name + "/consistent", msg))
    w1 = net.node_weights
    if net.grid is not grid0 or w1 is None or not np.array_equal(w1, w0) or int(net.N) != n:
        fails.append((name + "/frame", "N, grid or node weights changed"))
    with np.errstate(over="ignore"):
        p = np.exp(c["a"] + c["b"] * D)
    off = ~np.eye(n, dtype=bool)
    if (p[off] >= 1).all() and B[off].sum() != n * (n - 1):
        fails.append((name + "/extremes", f"probability >= 1 everywhere but {B.sum()//2} links"))
    if (p[off] == 0).all() and B.sum() != 0:
        fails.append((name + "/extremes", f"probability 0 everywhere but {B.sum()//2} links"))
    # links can only appear where the probability is positive / must appear where it is >= 1
    if (B[off & (p == 0)] != 0).any() or (B[off & (p >= 1)] != 1).any():
        fails.append((name + "/extremes", "link present at probability 0 or absent at probability >= 1"))
    return fails, 0 < B.sum() < n * (n - 1)


def run_cross(c):
    from pyunicorn.core.interacting_networks import InteractingNetworks
    fails = []
    A0 = np.asarray(c["A"], dtype=np.int64)
    n = A0.shape[0]
    l1, l2 = list(c["l1"]), list(c["l2"])
    w = c.get("w")
    net = InteractingNetworks(adjacency=A0, node_weights=w, silence_level=3)
    w0 = np.array(net.node_weights)
    CA0 = A0[np.ix_(l1, l2)]
    n1, n2 = len(l1), len(l2)
    kind = c["kind"]
    seed_all(c["seed"])
    if kind == "cross_set":
        name = "RandomlySetCrossLinks_sparse" if c.get("sparse") else "RandomlySetCrossLinks"
        fn = getattr(InteractingNetworks, name)
        kw = {}
        if c["how"] == "density":
            d = Fraction(c["value"]).limit_denominator(1024)
            kw["cross_link_density"] = float(d)
            want = int(d * n1 * n2)            # floor
            if want > n1 * n2:
                want = int(CA0.sum())
        elif c["how"] == "number":
            kw["number_cross_links"] = int(c["value"])
            want = int(c["value"]) if c["value"] <= n1 * n2 else int(CA0.sum())
        else:
            want = int(CA0.sum())
        try:
            if c["seed"] % 2:
                out = fn(net, np.array(l1), np.array(l2), **kw)
            else:
                out = fn(net, l1, l2, **kw)
        except Exception as e:   # noqa
            if not (c.get("sparse") and c.get("ext")):
                raise
            # (extension cases of the _sparse variant report under their own name)
            return [(name + "/raises", f"{type(e).__name__}: {e}; documented cross-link count {want}")], True
    else:
        name = "RandomlyRewireCrossLinks"
        if c["swaps"] * CA0.sum() >= 1 and not cross_swap_exists(CA0):
            return fails, None
        want = int(CA0.sum())
        out = InteractingNetworks.RandomlyRewireCrossLinks(net, l1, l2, swaps=c["swaps"])
    if type(out) is not InteractingNetworks:
        fails.append((name + "/type", type(out).__name__))
    B = np.asarray(out.adjacency)
    ns = not_simple(B, n)
    if ns:
        fails.append((name + "/simple", f"{ns}; result {B.tolist()}"))
        return fails, True
    msg = net_consistent(out, B)
    if msg:
        fails.append((name + "/consistent", msg))
    CB = B[np.ix_(l1, l2)]
    if int(CB.sum()) != want:
        fails.append((name + "/cross-link-count", f"{int(CB.sum())} cross links, documented {want}"))
    mask = np.zeros((n, n), dtype=bool)
    mask[np.ix_(l1, l2)] = True
    mask |= mask.T
    if not np.array_equal(B[~mask], A0[~mask]):
        fails.append((name + "/internal-untouched", "entries outside the cross block changed: "
                      f"{np.argwhere((B != A0) & ~mask).tolist()}"))
    if not np.array_equal(np.asarray(net.adjacency), A0) or not np.array_equal(net.node_weights, w0):
        fails.append((name + "/input-untouched", "the input network was modified"))
    if out.node_weights is None or not np.array_equal(out.node_weights, w0) or bool(out.directed):
        fails.append((name + "/frame", "node weights / directedness not carried over"))
    if kind == "cross_rewire":
        if not np.array_equal(CB.sum(axis=1), CA0.sum(axis=1)) or not np.array_equal(CB.sum(axis=0), CA0.sum(axis=0)):
            fails.append((name + "/cross-degrees", f"rows {CA0.sum(axis=1).tolist()}->{CB.sum(axis=1).tolist()} "
                                                   f"cols {CA0.sum(axis=0).tolist()}->{CB.sum(axis=0).tolist()}"))
        if not np.array_equal(B.sum(axis=1), A0.sum(axis=1)):
            fails.append((name + "/degree", f"{A0.sum(axis=1).tolist()} -> {B.sum(axis=1).tolist()}"))
        if int(c["swaps"] * CA0.sum()) == 0 and not np.array_equal(B, A0):
            fails.append((name + "/swaps0", "network changed although no swap was requested"))
        return fails, not np.array_equal(B, A0)
    return fails, 0 < want < n1 * n2


RUNNERS = {"ER_p": run_generator, "ER_m": run_generator, "BA": run_generator,
           "BA_igraph": run_generator, "Configuration": run_generator, "WS": run_generator,
           "rewire": run_rewire, "geomodel": run_geomodel, "dist": run_dist,
           "cross_set": run_cross, "cross_rewire": run_cross, "model_embedded": run_model_embedded}

NAMES = {"ER_p": "ErdosRenyi", "ER_m": "ErdosRenyi", "BA": "BarabasiAlbert",
         "BA_igraph": "BarabasiAlbert_igraph", "Configuration": "Configuration",
         "WS": "WattsStrogatz", "rewire": "randomly_rewire", "dist": "set_random_links_by_distance",
         "cross_set": "RandomlySetCrossLinks", "cross_rewire": "RandomlyRewireCrossLinks",
         "model_embedded": "SpatialOrGeoNetwork.Model"}


def run_one(c):
    try:
        with quiet():
            fails, nontrivial = RUNNERS[c["kind"]](c)
    except Exception as e:   # noqa
        nm = NAMES.get(c["kind"]) or "randomly_rewire_geomodel_" + "I" * c.get("model", 1)
        fails, nontrivial = [(nm + "/raises", f"{type(e).__name__}: {e}")], True
    return fails, nontrivial


CUR = mp.Array("i", 64, lock=False)      # per worker: index of the case being run (-1 idle)
for _i in range(64):
    CUR[_i] = -1


def run_chunk(chunk):
    """chunk = [(global index, case)]"""
    ident = mp.current_process()._identity
    slot = (ident[0] if ident else 0) % 64
    out = []
    for i, c in chunk:
        CUR[slot] = i
        out.append(run_one(c))
        CUR[slot] = -1
    return out


# ------------------------------------------------------------------ scope

def lattice_coords(n, geo):
    """Points on a small square lattice (many exactly equal distances)."""
    side = int(np.ceil(np.sqrt(n)))
    pts = [(i // side, i % side) for i in range(n)]
    xy = np.array(pts, dtype=float).T
    if geo:
        return np.vstack([xy[0] * 10 - 10, xy[1] * 10])      # lat, lon in degrees
    return xy


def ring_with_chords(rs, n, k, extra):
    idx = np.arange(n)
    cd = np.abs(idx[:, None] - idx[None, :])
    A = ((np.minimum(cd, n - cd) <= k) & (cd > 0)).astype(np.int8)
    for _ in range(extra):
        i, j = rs.randint(n, size=2)
        if i != j:
            A[i, j] = A[j, i] = 1 - A[i, j]
    return A


def make_cases(tier, seed):
    rs = np.random.RandomState(seed)
    quick = tier == "quick"
    S = 8 if quick else 40                       # seeds per configuration
    cases = []

    def sd():
        return int(rs.randint(2 ** 31 - 1))

    # --- generators
    for n in (range(1, 8) if quick else range(1, 13)):
        M = n * (n - 1) // 2
        for m in sorted({0, min(1, M), M // 2, max(M - 1, 0), M} if quick else set(range(M + 1)) if n <= 6 else
                        {0, 1, M // 3, M // 2, M - 1, M}):
            for _ in range(S if n > 1 else 1):
                cases.append({"kind": "ER_m", "n": n, "m": int(m), "seed": sd(), "via_model": n > 1 and m % 2 == 0})
        for p in (0, 0.1, 0.5, 0.9, 1):
            for _ in range(S if n > 1 else 1):
                cases.append({"kind": "ER_p", "n": n, "p": p, "seed": sd(), "via_model": n > 1 and p == 0.5})
    for n in (range(2, 10) if quick else range(2, 16)):
        for m in range(1, n):
            for i in range(S):
                cases.append({"kind": "BA", "n": n, "m": m, "seed": sd(), "via_model": i == 0 and n > 2})
                cases.append({"kind": "BA_igraph", "n": n, "m": m, "seed": sd()})
    for n, m in ((30, 3), (50, 5), (40, 1)) if quick else ((30, 3), (50, 5), (40, 1), (120, 7), (200, 2)):
        for _ in range(S):
            cases.append({"kind": "BA", "n": n, "m": m, "seed": sd()})
            cases.append({"kind": "BA_igraph", "n": n, "m": m, "seed": sd()})
    # configuration model: all graphical-or-not even-sum sequences are accepted by igraph's
    # default ("configuration") method; use degree sequences of real graphs and regular ones
    for n in (range(1, 7) if quick else range(1, 10)):
        for _ in range(4 if quick else 12):
            G = random_graph(rs, n, rs.uniform(0, 1))
            for _ in range(S):
                cases.append({"kind": "Configuration", "degree": G.sum(axis=1).astype(int).tolist(), "seed": sd()})
    for n, d in ((8, 3), (10, 4), (6, 5), (20, 3)):
        for _ in range(S):
            cases.append({"kind": "Configuration", "degree": [d] * n, "seed": sd()})
    # sequences with an odd sum (no graph has them): refused, or answered with a graph that still never exceeds a request
    for deg in ([3] * 5, [4, 2, 2, 1, 1, 1], [5] + [2] * 20, [1, 1, 1], [3, 2, 2, 2, 2]):
        for _ in range(3 * S):
            cases.append({"kind": "Configuration", "degree": list(deg), "seed": sd()})
    for n in (range(3, 10) if quick else range(3, 16)):
        for k in range(1, (n - 1) // 2 + 1):
            for p in (0, 0.2, 1):
                for _ in range(1 if p == 0 else S):
                    cases.append({"kind": "WS", "n": n, "k": k, "p": p, "seed": sd()})

    # --- Network.randomly_rewire : all graphs n<=4 (5 in thorough), directed samples, random
    graphs = [A for n in (2, 3, 4) for A in all_undirected_graphs(n)]
    g5 = list(all_undirected_graphs(5))
    graphs += g5
    if not quick:
        graphs += [random_graph(rs, 6, rs.uniform(0.2, 0.8)) for _ in range(3000)]
    for A in graphs:
        for it in (1, 10):
            for _ in range(2 if quick else 4):
                n = A.shape[0]
                cases.append({"kind": "rewire", "A": A.tolist(), "directed": False, "iterations": it,
                              "w": (rs.randint(1, 9, n) / 2.0).tolist() if it == 10 else None, "seed": sd()})
    for _ in range(500 if quick else 6000):
        n = int(rs.randint(4, 13))
        directed = bool(rs.randint(2))
        A = random_graph(rs, n, rs.uniform(0.1, 0.7), directed)
        if rs.randint(2):
            A[-1, :] = 0
            A[:, -1] = 0                       # isolated last node (finding #24)
        cases.append({"kind": "rewire", "A": A.tolist(), "directed": directed,
                      "iterations": int(rs.choice([0, 1, 5, 50])),
                      "w": (rs.randint(1, 9, n) / 2.0).tolist(), "seed": sd()})

    # --- geographical models
    def geo_case(A, cls, model, eps, mode, coords=None, D=None, iterations=1, steps=1, w=None):
        return {"kind": "geomodel", "A": np.asarray(A).tolist(), "cls": cls, "model": model,
                "eps": float(eps), "mode": mode, "iterations": int(iterations), "steps": int(steps),
                "coords": np.asarray(coords).tolist(), "D": None if D is None else np.asarray(D).tolist(),
                "w": w, "seed": sd(), "nwt": "surface"}
    small = [A for A in all_undirected_graphs(4)] + g5
    if not quick:
        small += [random_graph(rs, 6, rs.uniform(0.2, 0.8)) for _ in range(3000)]
    for gi, A in enumerate(small):
        if A.sum() < 4:
            continue
        n = A.shape[0]
        for model in (1, 2, 3):
            cls = "geo" if (gi + model) % 2 else "spatial"
            for eps in ((0.125, 64.0) if cls == "spatial" else (2.0 ** -6, 4.0)):
                cases.append(geo_case(A, cls, model, eps, "steps", coords=lattice_coords(n, cls == "geo"),
                                      steps=3 if quick else 6))
                if not quick or gi % 3 == 0:
                    cases.append(geo_case(A, cls, model, eps, "bulk", coords=lattice_coords(n, cls == "geo"),
                                          iterations=int(rs.choice([2, 5, 20]))))
    for i in range(2400 if quick else 30000):
        n = int(rs.randint(6, 13))
        cls = "geo" if i % 2 else "spatial"
        model = 1 + (i // 2) % 3
        steps_mode = (i // 6) % 3 != 0
        if model == 3 and rs.randint(2):            # near-regular graphs: equal degrees are common
            A = ring_with_chords(rs, n, int(rs.randint(1, 3)), int(rs.randint(0, 3)))
        else:
            A = random_graph(rs, n, rs.uniform(0.2, 0.6))
        custom = i % 5 == 0
        D = None
        if cls == "geo":
            coords = np.vstack([rs.uniform(-80, 80, n), rs.uniform(-180, 180, n)]).round(2)
            eps = float(rs.choice([2.0 ** -4, 0.125, 0.25, 0.5, 1.0, 4.0]))
        else:
            coords = rs.randint(0, 5, (2, n)).astype(float) if i % 4 == 1 else rs.uniform(0, 4, (2, n)).round(3)
            # eps near a random quantile of the link-length differences (boundary cases are common)
            dd = np.sqrt(((coords[:, :, None] - coords[:, None, :]) ** 2).sum(axis=0))[np.triu_indices(n, 1)]
            q = np.quantile(np.abs(dd[:, None] - dd[None, :]), rs.uniform(0.05, 0.6))
            eps = float(2.0 ** np.round(np.log2(max(q, 2.0 ** -6)))) if rs.randint(4) else 16.0
        if custom:                                  # arbitrary symmetric dyadic "distance" matrix
            D = np.triu(rs.randint(0, 17, (n, n)) / 4.0, 1)
            D = D + D.T
            eps = float(rs.choice([0.25, 0.5, 1.0, 2.0, 8.0]))
        w = (rs.randint(1, 9, n) / 2.0).tolist() if i % 2 else None
        if steps_mode:
            cases.append(geo_case(A, cls, model, eps, "steps", coords=coords, D=D, steps=4 if quick else 8, w=w))
        else:
            cases.append(geo_case(A, cls, model, eps, "bulk", coords=coords, D=D,
                                  iterations=int(rs.choice([0, 1, 3, 10, 40])), w=w))

    # --- set_random_links_by_distance
    for i in range(480 if quick else 6000):
        n = int(rs.randint(2, 10))
        cls = "geo" if i % 2 else "spatial"
        coords = np.vstack([rs.uniform(-80, 80, n), rs.uniform(-180, 180, n)]).round(2) if cls == "geo" \
            else rs.uniform(0, 3, (2, n)).round(3)
        a, b = [(0., 0.), (-2000., 0.), (0., 5.), (0., -4.), (-0.5, -1.), (0.5, -2.), (-1., 0.),
                (float(rs.uniform(-2, 1)), float(rs.uniform(-3, 0.5)))][min(i % 16, 7)]
        directed = i % 11 == 0
        A = random_graph(rs, n, 0.4, directed)
        cases.append({"kind": "dist", "cls": cls, "coords": coords.tolist(), "A": A.tolist(), "a": a, "b": b,
                      "directed": directed, "w": (rs.randint(1, 9, n) / 2.0).tolist() if i % 3 else None,
                      "nwt": "surface", "seed": sd()})

    # --- cross links
    def groups(n):
        perm = rs.permutation(n)
        n1 = int(rs.randint(1, n - 1))
        n2 = int(rs.randint(1, n - n1 + 1))
        if rs.randint(3) == 0:
            n2 = n - n1                           # full partition
        return perm[:n1].tolist(), perm[n1:n1 + n2].tolist()
    cgraphs = [A for n in (3, 4) for A in all_undirected_graphs(n)] + ([] if quick else g5)
    cgraphs = [(A, None) for A in cgraphs]
    for _ in range(600 if quick else 8000):
        n = int(rs.randint(4, 12))
        cgraphs.append((random_graph(rs, n, rs.uniform(0.1, 0.9)), (rs.randint(1, 9, n) / 2.0).tolist()))
    for gi, (A, w) in enumerate(cgraphs):
        n = A.shape[0]
        for _ in range(1 if quick else 2):
            l1, l2 = groups(n)
            base = {"A": A.tolist(), "l1": l1, "l2": l2, "w": w}
            n12 = len(l1) * len(l2)
            for how, val in (("density", float(rs.choice([0, 0.25, 0.5, 0.75, 1.0]))),
                             ("number", int(rs.randint(0, n12 + 1))), ("number", n12 + int(rs.randint(1, 4))),
                             ("none", None)):
                cases.append(dict(base, kind="cross_set", how=how, value=val, seed=sd(), sparse=False))
            cases.append(dict(base, kind="cross_set", how="number", value=int(rs.randint(0, n12 + 1)),
                              seed=sd(), sparse=True))
            if gi % 3 == 0:
                # the _sparse variant with a density, with more links than pairs (documented: the
                # count of the input network is used) and as a null model (no argument)
                ers = np.random.RandomState(1000003 * seed + gi)
                for how, val in (("density", float(ers.choice([0, 0.25, 0.5, 0.75, 1.0]))),
                                 ("number", n12 + int(ers.randint(1, 4))), ("none", None)):
                    cases.append(dict(base, kind="cross_set", how=how, value=val,
                                      seed=int(ers.randint(1, 2 ** 31 - 1)), sparse=True, ext=True))
            for swaps in (0, 0.5, 1.0, 3.0):
                cases.append(dict(base, kind="cross_rewire", swaps=swaps, seed=sd()))
    # --- (nearly) complete couplings: the rejection loops need thousands of draws per accepted link / swap
    drs = np.random.RandomState(104729 * seed + 5)
    for n1, n2 in ((30, 40), (12, 90)) + (() if quick else ((50, 50), (25, 25))):
        n = n1 + n2 + 3
        A = random_graph(drs, n, 0.15)
        perm = drs.permutation(n)
        base = {"A": A.tolist(), "l1": perm[:n1].tolist(), "l2": perm[n1:n1 + n2].tolist(), "w": None}
        for val in (n1 * n2, n1 * n2 - 1, n1 * n2 - 3):
            cases.append(dict(base, kind="cross_set", how="number", value=int(val), seed=int(drs.randint(1, 2 ** 31 - 1)),
                              sparse=False))
    for m in (10, 14):
        n = 2 * m + 2
        A = np.zeros((n, n), dtype=int)
        l1, l2 = list(range(m)), list(range(m, 2 * m))
        A[np.ix_(l1, l2)] = 1
        for (a, b) in ((0, 0), (1, 1)):
            A[l1[a], l2[b]] = 0
        A = ((A + A.T) > 0).astype(int)
        for swaps in (0.05, 0.5):
            cases.append({"A": A.tolist(), "l1": l1, "l2": l2, "w": None, "kind": "cross_rewire", "swaps": swaps,
                          "seed": int(drs.randint(1, 2 ** 31 - 1))})
    # --- generators embedded on a grid (SpatialNetwork.Model / GeoNetwork.Model)
    ers = np.random.RandomState(7919 * seed + 17)
    for n in (range(2, 8) if quick else range(2, 13)):
        M = n * (n - 1) // 2
        for cls in ("spatial", "geo"):
            for m in sorted({0, 1, M // 2, M}):
                cases.append({"kind": "model_embedded", "cls": cls, "model": "ER", "n": n, "m": int(m),
                              "seed": int(ers.randint(2 ** 31 - 1))})
            if n > 2:
                cases.append({"kind": "model_embedded", "cls": cls, "model": "BA", "n": n,
                              "m": int(ers.randint(1, n - 1)), "seed": int(ers.randint(2 ** 31 - 1))})
    return cases


SCOPE = ("seeded sweeps (3 seeds per configuration quick / 12 thorough): ErdosRenyi n<=7/12 with "
         "n_links in {0,1,M/2,M-1,M} (all m for n<=6 thorough) and p in {0,.1,.5,.9,1}; BarabasiAlbert "
         "(own, igraph, via Model) all 1<=m<n<=9/15 plus (30,3),(50,5),(40,1)[,(120,7),(200,2)]; "
         "Configuration on degree sequences of random graphs n<=6/9 and regular sequences; "
         "WattsStrogatz 3<=N<=9/15, all k with N>2k, p in {0,.2,1}; randomly_rewire on all graphs "
         "n<=4 + 80 sampled/all n=5 graphs + 60/600 random (un)directed graphs n<=12 incl. isolated "
         "last node, iterations {0,1,5,10,50}; geomodels I-III on Spatial/GeoNetwork over all "
         "4-node and 150 sampled/all 5-node graphs on lattice grids (eps small/large) and 150/1500 "
         "random graphs n<=12 (random / integer-lattice / geographic coordinates, custom dyadic "
         "distance matrices), single-swap stepping and bulk iterations {0..40}; "
         "set_random_links_by_distance 60/500 cases incl. probability-0 and >=1 extremes; "
         "RandomlySetCrossLinks(+_sparse)/RandomlyRewireCrossLinks on all 4-node graphs (3,4 thorough) "
         "and 80/800 random graphs n<=11 with random disjoint (possibly non-covering, unsorted) groups "
         "(the _sparse variant on every third graph also with a density, with more links than pairs and "
         "as a null model without arguments: the documented count is the input's cross-link count); "
         "SpatialNetwork.Model / GeoNetwork.Model (ErdosRenyi n_links in {0,1,M/2,M}, BarabasiAlbert) "
         "for n=2..7/12 on random grids: simple, consistent, prescribed link count, on the given grid. "
         "Length conditions: float32 kernel, slack 1e-5*max|D|; everything else exact (integers).")
RULE = ("one evaluation = one call of a generator / randomisation with one RNG seed, all its clauses "
        "checked on the returned adjacency; cases where no admissible swap exists (operation does "
        "not terminate) are not run and not counted; distinct key = full case description; "
        "non-trivial = generators: result has a link (BA: n>m+1, WS: p>0); rewirings: the "
        "adjacency actually changed; cross-link setting: 0 < count < N1*N2.")


def case_key(c):
    return json.dumps(c, sort_keys=True)


def main():
    args = parse_args()
    rep = Report("C17", args, SCOPE, RULE)
    try:
        import pyunicorn.core.interacting_networks   # noqa
        import pyunicorn.core.geo_network            # noqa
    except Exception as e:   # noqa
        print("cannot import pyunicorn:", e, file=sys.stderr)
        sys.exit(3)

    if args.replay:
        with open(args.replay) as f:
            wit = json.load(f)
        wit = wit.get("witness", wit)
        cases = wit["cases"] if "cases" in wit else [wit]
    else:
        cases = make_cases(args.tier, args.seed)

    csize = 25
    indexed = list(enumerate(cases))
    chunks = [indexed[i:i + csize] for i in range(0, len(indexed), csize)]
    nproc = 1 if args.replay else min(8, os.cpu_count() or 1)
    stall = 90.0                      # a case takes milliseconds; no result for 90 s = hang
    pool = mp.get_context("fork").Pool(nproc)
    n_undefined = 0
    try:
        pending = {k: pool.apply_async(run_chunk, (ch,)) for k, ch in enumerate(chunks)}
        last = time.time()
        while pending:
            done = [k for k, ar in pending.items() if ar.ready()]
            if not done:
                if time.time() - last > stall:
                    hung = sorted({CUR[i] for i in range(64) if CUR[i] >= 0})
                    for i in hung:
                        rep.fail("harness/hang", cases[i], "case did not return within "
                                 f"{stall:.0f}s (rejection loop without admissible choice?)")
                    rep.skip(f"{sum(len(chunks[k]) for k in pending)} cases in unfinished chunks "
                             "were not evaluated because workers hung")
                    break
                time.sleep(0.05)
                continue
            last = time.time()
            for k in done:
                res = pending.pop(k).get()
                for (i, c), (fails, nontrivial) in zip(chunks[k], res):
                    if nontrivial is None:
                        n_undefined += 1
                        continue
                    rep.case(case_key(c), nontrivial=bool(nontrivial),
                             sample=c if c["kind"] in ("geomodel", "cross_rewire", "BA") and nontrivial
                             and len(c.get("A", [])) <= 5 else None)
                    for check, detail in fails:
                        rep.fail(check, c, detail)
    finally:
        pool.terminate()
    if n_undefined:
        rep.skip(f"{n_undefined} generated rewiring cases had no admissible swap (operation undefined) and were not run")
    rep.finish()
    sys.exit(0)


if __name__ == "__main__":
    main()
