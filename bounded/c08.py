"""Bounded stand-in for C08: RQA line statistics are exact run-length counts of the matrix.

Run:  cd /verif && PYTHONPATH=/verif .venv/bin/python bounded/c08.py --tier quick --seed 0 --out /tmp/c08.json

Oracle: specs/recurrence_spec.py (direct run-length scan of the matrix returned by
recurrence_matrix(), Fraction-valued scalar measures).  Nothing from pyunicorn is used by the
oracle.  Case families (field `kind` of a witness):

  cube    a prescribed symmetric 0/1 matrix with unit diagonal is *realised by a crafted series*:
          n-dimensional states p_i with p_i[i]=0, p_i[k]=1 if R[i,k] else 2 (k != i); the
          supremum distance of i != j is then exactly 1 (R[i,j]=1) or 2, so threshold 1.5
          reproduces R.  Optional missing states (NaN component, missing_values=True) and the
          sequential mode (sparse_rqa=True) on the same series.
  assign  an arbitrary (also asymmetric / zero-diagonal) 0/1 matrix is written to rp.R of a
          RecurrencePlot that previously held another matrix and had all histograms evaluated
          (so stale caches show); a series realisation is impractical for these matrices.
  series  natural recurrence plots of scalar series (optionally embedded, all metrics), with the
          sequential mode compared for the supremum metric, including thresholds and values
          that are not float32-representable relative to each other (float-width lemma).
"""
import itertools
import json
import math
import sys

import numpy as np

from bounded.common import parse_args, Report, jsonable
from specs import recurrence_spec as S

PROP = "C08"
F32 = lambda v: float(np.float32(v))                      # noqa: E731
RTOL = 1e-7      # library adds its documented `_epsilon = 1e-8` to integer denominators >= 1
ATOL_H = 1e-7    # entropies: same perturbation inside p*log(p)

SCOPE = (
    "RecurrencePlot.diagline_dist / vertline_dist / white_vertline_dist vs. a direct run-length "
    "count of recurrence_matrix(); conservation (sum l*P(l) = off-diagonal recurrences, "
    "sum v*P(v) = recurrences, sum w*P(w) = non-recurrences; '<=' for black lines under missing "
    "values); sparse_rqa=True == sparse_rqa=False (supremum, fixed threshold; with the manhattan / "
    "euclidean metric the sequential histograms and recurrence rate must be refused or equal the "
    "matrix mode: checks sequential/other-metric-refused-or-equal/*); all scalar "
    "measures (DET, L, ENTR, LAM, TT, max lengths, mean recurrence time, white entropy, "
    "rqa_summary, recurrence_rate, recurrence_probability, defaults, aliases) as functions of "
    "the histograms for every l_min=v_min=w_min in 1..N.  Exhaustive: all symmetric 0/1 "
    "matrices with unit diagonal of order 1..5 realised by crafted series (kind=cube), each "
    "also in sequential mode; all of them with every non-empty set of missing states for order "
    "<=4 (order 5: all in thorough, seeded sample in quick); all 0/1 matrices of order <=3 and "
    "all symmetric ones with free diagonal of order 4 (thorough: 5) plus seeded asymmetric "
    "4x4/5x5 by assignment to rp.R (kind=assign; "
    "asymmetric matrices: vertical/white clauses only, diagonal clause skipped because the "
    "library documents counting one triangle twice); all scalar series of length 1..5 over "
    "{0,3,4} and over {0,f32(.7),f32(1.4)} (threshold .7) with embeddings, three metrics, and "
    "over {0,3,4,NaN} with missing_values=True (kind=series).  Random (quick 120 / thorough "
    "1000 each): cube matrices of order 6..60 at densities .05-.95, a third with missing "
    "states, and seeded float32 scalar series of length 6..60 (embedded, tied, with NaN).  "
    "Tolerances: "
    "histograms and max lengths exact; ratios rtol 1e-7 (the library's documented 1e-8 "
    "denominator epsilon), entropies atol 1e-7; a measure with empty denominator is 0."
)
RULE = (
    "one evaluation = one contract clause group on one (matrix, mode) pair: histogram group, "
    "conservation group, scalar group per l_min, sequential-vs-matrix group.  A case is keyed "
    "by (kind, matrix bytes / series, missing set, options); non-trivial = the matrix has at "
    "least one black line of length >= 2 (diagonal or vertical) and at least one white cell."
)


def _imports():
    from pyunicorn.timeseries import RecurrencePlot
    return RecurrencePlot


# ------------------------------------------------------------------ shared RQA comparison

def _frac_close(got, want, rtol=RTOL):
    want = float(want)
    try:
        got = float(got)
    except Exception:
        return False
    if math.isnan(got):
        return False
    return abs(got - want) <= rtol * max(1.0, abs(want))


def rqa_clauses(obj, R, miss=None, lmins=None, resample=False, label="", lags=True):
    """Evaluate every quantification method of the RecurrencePlot-like `obj` against the direct
    count on the matrix R (what obj.recurrence_matrix() returned).  `miss`: list of bools when
    the object does missing-value handling, else None.  Yields (clause, ok, detail)."""
    R = np.asarray(R)
    n = R.shape[0]
    sym = bool((R == R.T).all())
    H = S.histograms(R, miss)
    anymiss = miss is not None and any(miss)
    black = int(R.sum())

    def call(name, *a):
        try:
            return True, getattr(obj, name)(*a)
        except Exception as e:                                   # noqa: BLE001
            return False, f"{type(e).__name__}: {e}"

    # sizes
    yield "N-equals-matrix-order", int(obj.N) == n, f"N={obj.N} order={n}"
    if int(obj.N) != n:
        return

    # histograms
    got = {}
    for name, key in (("diagline_dist", "diag"), ("vertline_dist", "vert"),
                      ("white_vertline_dist", "white")):
        ok, v = call(name)
        if not ok:
            yield name + "/applicable", False, v
            continue
        v = np.asarray(v)
        got[key] = v
        if v.shape != (n,):
            yield name + "/length", False, f"shape {v.shape}"
            continue
        if key == "diag" and not sym:
            # documented: one triangle is scanned and doubled -> only defined for symmetric R
            continue
        want = H[key]
        yield name + "/run-length", v.tolist() == want, f"got {v.tolist()} want {want}"

    # conservation, straight from the matrix
    ar = np.arange(1, n + 1)
    if "vert" in got:
        s = int((got["vert"] * ar).sum())
        if anymiss:
            yield "conserve/black-vertical<=", s <= black, f"{s} > {black}"
        else:
            yield "conserve/black-vertical", s == black, f"sum v*P(v)={s} recurrences={black}"
    if "white" in got:
        s = int((got["white"] * ar).sum())
        yield "conserve/white-vertical", s == n * n - black, f"sum w*P(w)={s} whites={n*n-black}"
    if "diag" in got and sym:
        s = int((got["diag"] * ar).sum())
        off = black - int(np.trace(R))
        if anymiss:
            yield "conserve/diagonal<=", s <= off, f"{s} > {off}"
        else:
            yield "conserve/diagonal", s == off, f"sum l*P(l)={s} off-diagonal recurrences={off}"

    # recurrence rate / probability
    ok, v = call("recurrence_rate")
    yield "recurrence_rate", ok and _frac_close(v, black / float(n * n), 1e-12), f"got {v} want {black/(n*n)}"
    if lags:
        for lag in sorted({0, 1, n - 1}):
            if 0 <= lag < n:
                ok, v = call("recurrence_probability", lag)
                want = sum(int(R[i, i + lag]) for i in range(n - lag)) / float(n - lag)
                yield "recurrence_probability", ok and _frac_close(v, want, 1e-12), f"lag {lag}: got {v} want {want}"

    # scalar measures as functions of the (oracle) histograms
    PD, PV, PW = H["diag"], H["vert"], H["white"]
    max_ok = True        # resampling is only exercised when the max lengths are right (it may not terminate otherwise)
    if sym:
        ok, v = call("max_diaglength")
        max_ok &= bool(ok and int(v) == S.max_length(PD))
        yield "max_diaglength", ok and int(v) == S.max_length(PD), f"got {v} want {S.max_length(PD)}"
    ok, v = call("max_vertlength")
    max_ok &= bool(ok and int(v) == S.max_length(PV))
    yield "max_vertlength", ok and int(v) == S.max_length(PV), f"got {v} want {S.max_length(PV)}"
    ok, v = call("max_white_vertlength")
    yield "max_white_vertlength", ok and int(v) == S.max_length(PW), f"got {v} want {S.max_length(PW)}"

    if lmins is None:
        lmins = range(1, n + 1)
    for lo in lmins:
        tests = []
        if sym:
            tests += [("determinism", S.ratio_points(PD, lo), RTOL),
                      ("average_diaglength", S.average_length(PD, lo), RTOL),
                      ("diag_entropy", S.entropy(PD, lo), None)]
        tests += [("laminarity", S.ratio_points(PV, lo), RTOL),
                  ("average_vertlength", S.average_length(PV, lo), RTOL),
                  ("trapping_time", S.average_length(PV, lo), RTOL),
                  ("vert_entropy", S.entropy(PV, lo), None),
                  ("average_white_vertlength", S.average_length(PW, lo), RTOL),
                  ("mean_recurrence_time", S.average_length(PW, lo), RTOL),
                  ("white_vert_entropy", S.entropy(PW, lo), None)]
        for name, want, rtol in tests:
            ok, v = call(name, lo)
            if not ok:
                yield name + "/applicable", False, v
                continue
            if rtol is None:
                good = isinstance(v, (float, np.floating)) and abs(float(v) - want) <= ATOL_H
            else:
                good = _frac_close(v, want, rtol)
            yield name, good, f"min length {lo}: got {v} want {float(want)}"
        if sym:
            vo = n - lo + 1 if 1 <= n - lo + 1 <= n else lo          # a different v_min than l_min
            ok, v = call("rqa_summary", lo, vo)
            if not ok:
                yield "rqa_summary/applicable", False, v
            else:
                want = {"RR": black / float(n * n), "DET": S.ratio_points(PD, lo),
                        "L": S.average_length(PD, lo), "LAM": S.ratio_points(PV, vo)}
                good = isinstance(v, dict) and set(v) == set(want) and \
                    all(_frac_close(v[k], want[k]) for k in want)
                yield "rqa_summary", good, f"l_min {lo} v_min {vo}: got {v} want { {k: float(x) for k, x in want.items()} }"

    # documented defaults: l_min = v_min = 2, w_min = 1
    dflt = [("laminarity", S.ratio_points(PV, 2)), ("average_vertlength", S.average_length(PV, 2)),
            ("trapping_time", S.average_length(PV, 2)),
            ("average_white_vertlength", S.average_length(PW, 1)),
            ("mean_recurrence_time", S.average_length(PW, 1))]
    if sym:
        dflt += [("determinism", S.ratio_points(PD, 2)), ("average_diaglength", S.average_length(PD, 2))]
    for name, want in dflt:
        ok, v = call(name)
        yield name + "/default-min-length", ok and _frac_close(v, want), f"got {v} want {float(want)}"
    for name, P, lo in (("vert_entropy", PV, 2), ("white_vert_entropy", PW, 1)) + \
            ((("diag_entropy", PD, 2),) if sym else ()):
        ok, v = call(name)
        yield name + "/default-min-length", ok and abs(float(v) - S.entropy(P, lo)) <= ATOL_H, f"got {v}"

    # the documented `resampled_dist` argument with a pooled histogram in the format the resampling methods return (int32)
    # whose counts are large: sum_l l*P(l) exceeds 2^31 while every count is below it - the measures are the same functions
    # of the histogram (ratios are scale free)
    for key_, P_, names_ in (("vert", PV, ("laminarity", "average_vertlength")),) + \
            ((("diag", PD, ("determinism", "average_diaglength")),) if sym else ()):
        tot_ = sum((l_ + 1) * c_ for l_, c_ in enumerate(P_))
        mx_ = max(P_) if len(P_) else 0
        if mx_ <= 0 or n < 2:
            continue
        K_ = (2 ** 31 - 1) // mx_
        if tot_ * K_ <= 2 ** 31:
            continue
        big = (np.array(P_, dtype=np.int64) * K_).astype(np.int32)
        for name in names_:
            try:
                v = getattr(obj, name)(2, resampled_dist=big.copy())
            except Exception as e:                                   # noqa: BLE001
                yield name + "/pooled-int32-histogram", False, f"{type(e).__name__}: {e}"
                continue
            want = S.ratio_points(P_, 2) if name in ("laminarity", "determinism") else S.average_length(P_, 2)
            yield name + "/pooled-int32-histogram", _frac_close(v, want, 1e-9), f"counts x {K_}: got {v} want {float(want)}"

    if sym:
        ok, v = call("rqa_summary")
        want = {"RR": black / float(n * n), "DET": S.ratio_points(PD, 2),
                "L": S.average_length(PD, 2), "LAM": S.ratio_points(PV, 2)}
        yield "rqa_summary/default-min-length", ok and isinstance(v, dict) and set(v) == set(want) and \
            all(_frac_close(v[k], want[k]) for k in want), f"got {v}"

    if resample and max_ok and got.get("vert") is not None and got["vert"].tolist() == PV and \
            (not sym or (got.get("diag") is not None and got["diag"].tolist() == PD)):
        for name, P in (("resample_vertline_dist", PV),) + ((("resample_diagline_dist", PD),) if sym else ()):
            ok, v = call(name, 7)
            if not ok:
                yield name + "/applicable", False, v
                continue
            v = np.asarray(v)
            good = v.shape == (n,) and (v >= 0).all() and \
                all(P[i] > 0 for i in np.nonzero(v)[0]) and \
                (int(v.sum()) == 7 if S.max_length(P) > 0 else v.tolist() == list(P))
            yield name, bool(good), f"got {v.tolist()} from {P}"


def nontrivial_matrix(R):
    R = np.asarray(R)
    n = R.shape[0]
    if n < 2 or R.sum() == n * n:
        return False
    H = S.histograms(R)
    return any(H["diag"][1:]) or any(H["vert"][1:])


# ------------------------------------------------------------------ case construction

def cube_series(R, missing=None):
    R = np.asarray(R)
    n = R.shape[0]
    X = np.where(R != 0, 1.0, 2.0)
    X[np.arange(n), np.arange(n)] = 0.0
    if missing:
        for i in missing:
            X[i, 0] = np.nan
    return X


def run_case(rep, RP, w):
    kind = w["kind"]
    fails0 = rep.nfail

    def emit(prefix, gen):
        groups = set()
        for clause, ok, detail in gen:
            groups.add(clause.split("/")[0])
            if not ok:
                rep.fail(prefix + clause, w, detail)
        return len(groups)

    if kind in ("cube", "assign"):
        R0 = np.array(w["R"], dtype=np.int8)
        n = R0.shape[0]
        missing = w.get("missing") or []
        miss = [i in missing for i in range(n)]
        mv = bool(w.get("missing_values", bool(missing)))
        if kind == "cube":
            X = cube_series(R0, missing)
            rp = RP(X, threshold=1.5, metric="supremum", missing_values=mv, silence_level=3)
            R = rp.recurrence_matrix()
            want = R0.copy()
            if missing:
                want[missing, :] = 0
                want[:, missing] = 0
            if R is None or R.tolist() != want.tolist():
                rep.fail("cube/realisation", w, f"crafted series gives {None if R is None else R.tolist()}")
                return
        else:
            x = np.zeros(n)
            if missing:
                x[missing] = np.nan
            rp = RP(x, threshold=1.0, missing_values=mv, silence_level=3)
            prev = np.array(w["prev"], dtype=np.int8)
            rp.R = prev
            rp.diagline_dist(); rp.vertline_dist(); rp.white_vertline_dist()      # noqa: E702
            rp.determinism(); rp.laminarity()                                      # noqa: E702
            rp.R = R0.copy()
            R = rp.recurrence_matrix()
            if R.tolist() != R0.tolist():
                rep.fail("assign/recurrence_matrix-returns-R", w, "recurrence_matrix() differs from assigned R")
                return
        g = emit("", rqa_clauses(rp, R, miss if mv else None, resample=(n <= 3)))
        for _ in range(g):
            rep.case()
        key = (kind, R0.tobytes(), tuple(missing), mv)
        rep.case(key, nontrivial=nontrivial_matrix(R),
                 sample={"kind": kind, "R": R.tolist(), "missing": missing,
                         "diagline_dist": rp.diagline_dist().tolist(),
                         "vertline_dist": rp.vertline_dist().tolist()})
        if kind == "cube" and w.get("sparse", True):
            sparse_compare(rep, RP, w, X, 1.5, mv, rp, R, miss if mv else None)
        if kind == "cube" and w.get("stale", False):
            # same object, new threshold: everything recurrent (non-missing) afterwards
            rp.set_fixed_threshold(2.5)
            R2 = rp.recurrence_matrix()
            emit("stale-after-set_fixed_threshold/", rqa_clauses(rp, R2, miss if mv else None, lmins=[1, 2]))
            rep.case()
    elif kind == "series":
        x = np.array(w["x"], dtype=np.float64)
        kw = {}
        if w.get("dim"):
            kw.update(dim=w["dim"], tau=w["tau"])
        mv = bool(w.get("missing_values", False))
        rp = RP(x, threshold=w["threshold"], metric=w["metric"], missing_values=mv,
                silence_level=3, **kw)
        R = rp.recurrence_matrix()
        states = S.embed(x, w["dim"], w["tau"]) if w.get("dim") else S.as_states(x)
        miss = S.is_missing(states) if mv else None
        g = emit("", rqa_clauses(rp, R, miss))
        for _ in range(g):
            rep.case()
        key = ("series", x.tolist(), w.get("dim"), w.get("tau"), w["metric"], w["threshold"], mv)
        rep.case(repr(key), nontrivial=nontrivial_matrix(R))
        if w["metric"] == "supremum":
            sparse_compare(rep, RP, w, x, w["threshold"], mv, rp, R, miss, **kw)
        else:
            # sequential mode is documented for the supremum metric only: switched on for another metric (constructor
            # keyword or the public attribute of a live plot) a line statistic is either refused (NotImplementedError) or
            # describes this plot's own matrix - never silently the supremum plot
            H = S.histograms(np.asarray(R), miss)
            for how in ("attribute", "constructor"):
                rep.case()
                try:
                    if how == "attribute":
                        rp2 = RP(x, threshold=w["threshold"], metric=w["metric"], missing_values=mv, silence_level=3, **kw)
                        rp2.sparse_rqa = True
                    else:
                        rp2 = RP(x, threshold=w["threshold"], metric=w["metric"], missing_values=mv, silence_level=3,
                                 sparse_rqa=True, **kw)
                except NotImplementedError:
                    continue
                except Exception as e:                               # noqa: BLE001
                    rep.fail("sequential-other-metric/" + how, w, f"{type(e).__name__}: {e}")
                    continue
                for name, key in (("diagline_dist", "diag"), ("vertline_dist", "vert")):
                    try:
                        v = np.asarray(getattr(rp2, name)())
                    except NotImplementedError:
                        continue
                    except Exception as e:                           # noqa: BLE001
                        rep.fail("sequential-other-metric/" + how + "/" + name, w, f"{type(e).__name__}: {e}")
                        continue
                    if v.tolist() != H[key]:
                        rep.fail("sequential-other-metric/" + how + "/" + name, w,
                                 f"neither refused nor the histogram of this plot: got {v.tolist()} want {H[key]}")
    elif kind == "joint":
        # joint recurrence plot: the line statistics describe the CURRENT joint matrix, also after the plot was
        # re-thresholded on the same object through any of its setters
        from pyunicorn.timeseries import JointRecurrencePlot
        x = np.array(w["x"], dtype=np.float64)
        y = np.array(w["y"], dtype=np.float64)
        jrp = JointRecurrencePlot(x, y, threshold=tuple(w["threshold"]), metric=("supremum", "supremum"),
                                  silence_level=3)
        R = jrp.recurrence_matrix()
        g = emit("joint/", rqa_clauses(jrp, R, None, lmins=[1, 2], lags=False))
        for _ in range(g):
            rep.case()
        for setter, arg in w["then"]:
            getattr(jrp, setter)(tuple(arg))
            R2 = jrp.recurrence_matrix()
            emit("joint/stale-after-%s/" % setter, rqa_clauses(jrp, R2, None, lmins=[1, 2], lags=False))
            rep.case()
        rep.case(repr(("joint", w["x"], w["y"], w["threshold"], w["then"])), nontrivial=nontrivial_matrix(R))
    else:
        raise ValueError(kind)
    return rep.nfail == fails0


def sparse_compare(rep, RP, w, X, thr, mv, rp, R, miss, **kw):
    """sparse_rqa=True must give the same histograms / measures as the matrix mode."""
    try:
        sp = RP(X, threshold=thr, metric="supremum", missing_values=mv, sparse_rqa=True,
                silence_level=3, **kw)
        d_s, v_s = sp.diagline_dist().tolist(), sp.vertline_dist().tolist()
    except Exception as e:                                       # noqa: BLE001
        rep.fail("sequential/applicable", w, f"{type(e).__name__}: {e}")
        rep.case()
        return
    H = S.histograms(R, miss)
    d_m, v_m = rp.diagline_dist().tolist(), rp.vertline_dist().tolist()
    if d_s != d_m:
        rep.fail("sequential/diagline_dist-equals-matrix-mode", w, f"sparse {d_s} matrix {d_m}")
    if v_s != v_m:
        rep.fail("sequential/vertline_dist-equals-matrix-mode", w, f"sparse {v_s} matrix {v_m}")
    if d_s != H["diag"]:
        rep.fail("sequential/diagline_dist/run-length", w, f"sparse {d_s} want {H['diag']}")
    if v_s != H["vert"]:
        rep.fail("sequential/vertline_dist/run-length", w, f"sparse {v_s} want {H['vert']}")
    n = len(v_s)
    pairs = [("max_diaglength", ()), ("max_vertlength", ()), ("recurrence_rate", ())]
    for lo in sorted({1, 2, n}):
        pairs += [("determinism", (lo,)), ("average_diaglength", (lo,)), ("diag_entropy", (lo,)),
                  ("laminarity", (lo,)), ("average_vertlength", (lo,)), ("vert_entropy", (lo,)),
                  ("rqa_summary", (lo, lo))]
    anymiss = miss is not None and any(miss)
    for name, a in pairs:
        if name in ("recurrence_rate", "rqa_summary") and anymiss:
            # sequential RR is documented as sum v*P(v)/N^2, which drops lines touching missing
            # samples; equality with the matrix mode is only promised without missing samples
            continue
        try:
            a_s, a_m = getattr(sp, name)(*a), getattr(rp, name)(*a)
        except Exception as e:                                   # noqa: BLE001
            rep.fail("sequential/" + name + "/applicable", w, f"{type(e).__name__}: {e}")
            continue
        if isinstance(a_s, dict):
            ok = set(a_s) == set(a_m) and all(abs(a_s[k] - a_m[k]) <= 1e-12 * max(1, abs(a_m[k])) for k in a_m)
        else:
            ok = abs(float(a_s) - float(a_m)) <= 1e-12 * max(1.0, abs(float(a_m)))
        if not ok:
            rep.fail("sequential/" + name + "-equals-matrix-mode", w, f"{a}: sparse {a_s} matrix {a_m}")
    rep.case()
    # The sequential kernels implement the supremum metric only ("Sequential RQA is currently only
    # available for fixed threshold and the supremum metric"): with another metric the histograms
    # must either be refused or still equal those of the matrix mode under that metric.
    for metric in ("manhattan", "euclidean"):
        try:
            sp2 = RP(X, threshold=thr, metric=metric, missing_values=mv, sparse_rqa=True, silence_level=3, **kw)
            rp2 = RP(X, threshold=thr, metric=metric, missing_values=mv, silence_level=3, **kw)
        except Exception:                                        # noqa: BLE001
            continue
        for name in ("diagline_dist", "vertline_dist", "recurrence_rate"):
            if name == "recurrence_rate" and anymiss:
                continue
            try:
                a_s = getattr(sp2, name)()
            except Exception:                                    # noqa: BLE001
                continue                                         # refused
            a_m = getattr(rp2, name)()
            if not np.allclose(np.asarray(a_s, dtype=float), np.asarray(a_m, dtype=float), rtol=1e-12, atol=0):
                rep.fail("sequential/other-metric-refused-or-equal/" + name, dict(w, sequential_metric=metric),
                         f"{metric}: sparse {np.asarray(a_s).tolist()} matrix {np.asarray(a_m).tolist()}")
        rep.case()



# ------------------------------------------------------------------ parallel driver (shared with c07)

_JOB = {}


def _pool_work(chunk):
    rep = Report(_JOB["prop"], _JOB["args"], "", "")
    for w in chunk:
        try:
            _JOB["run"](rep, _JOB["ctx"], w)
        except Exception as e:                                   # noqa: BLE001
            rep.fail("harness/exception", w, f"{type(e).__name__}: {e}")
    return (rep.evaluations, rep.nontrivial, rep.samples, rep.failures, rep.by_check, rep.nfail, rep.skipped)


def merge(rep, res):
    ev, nt, samples, failures, by_check, nfail, skipped = res
    rep.evaluations += ev
    rep.nontrivial |= nt
    for s_ in samples:
        if len(rep.samples) < 8:
            rep.samples.append(s_)
    for f in failures:
        have = sum(1 for g in rep.failures if g["check"] == f["check"])
        if have < 3 and len(rep.failures) < rep.MAX_FAIL:
            rep.failures.append(f)
    for k, v in by_check.items():
        rep.by_check[k] = rep.by_check.get(k, 0) + v
    rep.nfail += nfail
    for t in skipped:
        rep.skip(t)


def run_all(rep, prop, args, ctx, run, gen, workers, chunk=48):
    """Evaluate run(rep, ctx, w) for every witness of `gen`, on `workers` forked processes."""
    _JOB.update(prop=prop, args=args, ctx=ctx, run=run)

    def chunks():
        buf = []
        for w in gen:
            buf.append(w)
            if len(buf) >= chunk:
                yield buf
                buf = []
        if buf:
            yield buf

    if workers <= 1:
        for c in chunks():
            merge(rep, _pool_work(c))
        return
    import multiprocessing as mp
    with mp.get_context("fork").Pool(workers) as pool:
        for res in pool.imap(_pool_work, chunks()):
            merge(rep, res)


def n_workers():
    import os
    try:
        avail = len(os.sched_getaffinity(0))
    except Exception:                                            # noqa: BLE001
        avail = os.cpu_count() or 1
    return max(1, min(8, avail, int(os.environ.get("VERIF_WORKERS", "8"))))

# ------------------------------------------------------------------ enumeration

def sym_unit_matrices(n):
    pairs = list(itertools.combinations(range(n), 2))
    for bits in range(1 << len(pairs)):
        R = np.eye(n, dtype=np.int8)
        for b, (i, j) in enumerate(pairs):
            if bits >> b & 1:
                R[i, j] = R[j, i] = 1
        yield R


def sym_free_diag_matrices(n):
    pairs = list(itertools.combinations_with_replacement(range(n), 2))
    for bits in range(1 << len(pairs)):
        R = np.zeros((n, n), dtype=np.int8)
        for b, (i, j) in enumerate(pairs):
            if bits >> b & 1:
                R[i, j] = R[j, i] = 1
        yield R


def all_matrices(n):
    for bits in range(1 << (n * n)):
        yield np.array([(bits >> b) & 1 for b in range(n * n)], dtype=np.int8).reshape(n, n)


def nonempty_subsets(n):
    for r in range(1, n + 1):
        for c in itertools.combinations(range(n), r):
            yield list(c)


def random_sym(rng, n, p):
    U = (rng.random_sample((n, n)) < p).astype(np.int8)
    R = np.triu(U, 1)
    R = R + R.T
    np.fill_diagonal(R, 1)
    return R.astype(np.int8)


def cases(tier, seed):
    rng = np.random.RandomState(seed)
    thorough = tier == "thorough"
    # (1) exhaustive cube realisations, order 1..5, matrix and sequential mode
    for n in range(1, 6):
        for k, R in enumerate(sym_unit_matrices(n)):
            yield {"kind": "cube", "R": R.tolist(), "stale": k % 7 == 0}
    # (2) with missing states
    for n in range(1, 5):
        for R in sym_unit_matrices(n):
            for sub in nonempty_subsets(n):
                yield {"kind": "cube", "R": R.tolist(), "missing": sub}
        # handling switched on but nothing missing: must equal the plain kernels
        for R in sym_unit_matrices(n):
            yield {"kind": "cube", "R": R.tolist(), "missing": [], "missing_values": True}
    all5 = list(sym_unit_matrices(5))
    subs5 = list(nonempty_subsets(5))
    if thorough:
        for R in all5:
            for sub in subs5:
                yield {"kind": "cube", "R": R.tolist(), "missing": sub}
    else:
        for _ in range(1200):
            yield {"kind": "cube", "R": all5[rng.randint(len(all5))].tolist(),
                   "missing": subs5[rng.randint(len(subs5))]}
    # (3) assignment of arbitrary matrices (asymmetric, zero diagonal ...)
    prev = None
    gens = [all_matrices(1), all_matrices(2), all_matrices(3), sym_free_diag_matrices(4)]
    if thorough:
        gens.append(sym_free_diag_matrices(5))
    for gen in gens:
        for k, R in enumerate(gen):
            n = R.shape[0]
            p = 1 - R if (prev is None or prev.shape != R.shape) else prev
            w = {"kind": "assign", "R": R.tolist(), "prev": p.tolist()}
            if n >= 2 and k % 5 == 0:
                w["missing"] = [k // 5 % n]
            yield w
            prev = R
    n4 = 3000 if thorough else 300
    for _ in range(n4):      # asymmetric 4x4 / 5x5 sample
        n = 4 + rng.randint(2)
        R = (rng.random_sample((n, n)) < rng.choice([.3, .5, .7])).astype(np.int8)
        yield {"kind": "assign", "R": R.tolist(), "prev": (1 - R).tolist()}
    # (4) natural recurrence plots of scalar series
    alph = [(0.0, 3.0, 4.0), (0.0, F32(0.7), F32(1.4))]
    for ai, A in enumerate(alph):
        for n in range(1, 6):
            for x in itertools.product(A, repeat=n):
                thrs = [1.0, 3.5] if ai == 0 else [0.7]
                for emb in (None, (2, 1), (3, 2)):
                    if emb and n - (emb[0] - 1) * emb[1] < 1:
                        continue
                    for metric in (("supremum",) if (emb is None or ai == 1) else S.METRICS):
                        for thr in thrs:
                            w = {"kind": "series", "x": list(x), "metric": metric, "threshold": thr}
                            if emb:
                                w.update(dim=emb[0], tau=emb[1])
                            yield w
    # scalar series with NaNs
    A = (0.0, 3.0, 4.0, float("nan"))
    for n in range(1, 6 if thorough else 5):
        for x in itertools.product(A, repeat=n):
            if not any(math.isnan(v) for v in x):
                continue
            for emb in (None, (2, 1)):
                if emb and n < 2:
                    continue
                w = {"kind": "series", "x": list(x), "metric": "supremum", "threshold": 3.5,
                     "missing_values": True}
                if emb:
                    w.update(dim=2, tau=1)
                yield w
    # (4b) joint recurrence plots with re-thresholding histories
    for k in range(400 if thorough else 60):
        n = 4 + rng.randint(30)
        x = np.round(rng.standard_normal(n) * 2) / 2
        y = np.round(rng.standard_normal(n) * 2) / 2
        t = [float(rng.choice([0.3, 0.6, 1.1])), float(rng.choice([0.3, 0.6, 1.1]))]
        then = []
        for _ in range(1 + rng.randint(2)):
            m = rng.randint(3)
            if m == 0:
                then.append(["set_fixed_threshold", [float(rng.choice([0.2, 0.8, 1.6, 5.0])), float(rng.choice([0.2, 0.8, 1.6, 5.0]))]])
            elif m == 1:
                then.append(["set_fixed_threshold_std", [float(rng.choice([0.2, 0.5, 1.5])), float(rng.choice([0.2, 0.5, 1.5]))]])
            else:
                then.append(["set_fixed_recurrence_rate", [float(rng.choice([0.1, 0.4, 0.8])), float(rng.choice([0.1, 0.4, 0.8]))]])
        yield {"kind": "joint", "x": x.tolist(), "y": y.tolist(), "threshold": t, "then": then}
    # (5) random larger
    nr = 1000 if thorough else 120
    for k in range(nr):
        n = 6 + rng.randint(55) if k % 4 else 60
        p = rng.choice([.05, .2, .5, .8, .95])
        R = random_sym(rng, n, p)
        w = {"kind": "cube", "R": R.tolist(), "stale": k % 5 == 0}
        if k % 3 == 0:
            m = 1 + rng.randint(max(1, n // 6))
            w["missing"] = sorted(rng.choice(n, size=m, replace=False).tolist())
        yield w
    for k in range(nr):
        n = 6 + rng.randint(55)
        x = np.float32(rng.standard_normal(n)).astype(np.float64)
        if k % 3 == 0:
            x = np.round(x * 2) / 2           # many ties
        w = {"kind": "series", "x": x.tolist(), "metric": S.METRICS[k % 3] if k % 2 else "supremum",
             "threshold": float(rng.choice([0.3, 0.5, 1.0, 0.7]))}
        if k % 2:
            dim, tau = 2 + rng.randint(2), 1 + rng.randint(3)
            if n - (dim - 1) * tau >= 2:
                w.update(dim=int(dim), tau=int(tau))
        if k % 5 == 0:
            x[rng.randint(n)] = np.nan
            w["x"] = x.tolist()
            w["missing_values"] = True
        yield w


def main(argv=None):
    args = parse_args(argv)
    rep = Report(PROP, args, SCOPE, RULE)
    try:
        RP = _imports()
    except Exception as e:                                       # noqa: BLE001
        print("cannot import pyunicorn:", e, file=sys.stderr)
        sys.exit(3)
    if args.replay:
        with open(args.replay) as f:
            w = json.load(f)
        w = w.get("witness", w)
        try:
            run_case(rep, RP, w)
        except Exception as e:                                   # noqa: BLE001
            rep.fail("harness/exception", w, f"{type(e).__name__}: {e}")
        rep.finish()
        return
    rep.skip("diagline_dist on asymmetric matrices (local recurrence rate, assigned): the library "
             "scans one triangle and doubles it, which is only a run-length count of the whole "
             "matrix when R is symmetric; diagonal clauses are evaluated on symmetric R only")
    rep.skip("white_vertline_dist in sequential mode: not offered by the library (needs R)")
    run_all(rep, PROP, args, RP, run_case, cases(args.tier, args.seed), n_workers())
    rep.finish()


if __name__ == "__main__":
    main()
