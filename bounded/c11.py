"""Bounded stand-in for C11: cross/internal measures of interacting networks match sub-blocks.

    cd /verif && PYTHONPATH=/verif .venv/bin/python bounded/c11.py --tier quick --seed 0 --out /tmp/c11.json

Oracle: specs/interacting_spec.py (pure Python; Floyd-Warshall, explicit shortest-path
enumeration, nested loops over the adjacency lists) -- never a pyunicorn call.  The only
library-vs-library clauses are the relational ones the property states itself:
compiled == `_sparse` twin, argument-order symmetry, whole-network limit.

Check names are "<method>/<clause>":
  subblock / definition            library value == spec on the sub-blocks (unit link length)
  subblock-linkattr / definition-linkattr   same with the link attribute "lw" as length/strength
  *-unsorted                       (internal_link_attribute and the strengths built on it only)
                                   the same clause on a node list that is not ascending; these
                                   failed before "fix: internal_link_attribute respects the order
                                   of the node list" and are kept as regression clauses
  sparse-twin                      compiled method == its `_sparse` twin
  arg-symmetry[-linkattr]          f(P,Q) == f(Q,P) (matrices: transposed) on undirected networks
  whole-network[-linkattr]         P = Q = all nodes reproduces the single-network measure
  wrapper                          CoupledClimateNetwork wrapper == spec on (nodes_1, nodes_2)

Family (g) "large cross degree" (networks of a few hundred nodes in which first-group nodes have
126..301 and |Q|-1, |Q| neighbours in the second group, or every first-group node has such a
degree and there are > 65535 cross links; directed and undirected; oracle:
specs/interacting_block_spec.py, the same definitions vectorised on int64 / float64 blocks)
evaluates the same clauses under their own names
  <method>/large-cross-degree               (definition / subblock clause)
  <method>/large-cross-degree-<clause>      (linkattr, unsorted, sparse-twin, arg-symmetry,
                                             whole-network, equal-weight, ...)

Known finding #19 is confined to exactly two names:
  nsi_cross_average_path_length/definition      (pairs whose total weights W_P != W_Q)
  nsi_cross_average_path_length/arg-symmetry    (pairs whose total weights W_P != W_Q)
For pairs with W_P == W_Q (exactly, e.g. unit weights and |P| == |Q|) the defect cannot
show, and the same clauses are reported as .../definition-equal-weight and
.../arg-symmetry-equal-weight; .../whole-network covers P = Q = V.  Failures under these
three names are ordinary violations.
"""
import itertools
import json
import multiprocessing as mp
import sys
import traceback

import numpy as np

from bounded.common import parse_args, Report, quiet
from specs.interacting_spec import Spec, UNDEF, great_circle
from specs.interacting_block_spec import BlockSpec

PROP = "C11"
RTOL = 1e-9      # every kernel / helper involved works in float64
ATOL = 1e-12
RTOL32 = 2e-5    # grid distances of the CoupledClimateNetwork are float32
LA = "lw"

UNDEF_OK = (ZeroDivisionError, FloatingPointError)


# ------------------------------------------------------------------------------------ utilities

def _close(got, exp, rtol=RTOL, atol=ATOL):
    try:
        g = np.asarray(got, dtype=float)
    except Exception:
        return False
    e = np.asarray(exp, dtype=float)
    if g.shape != e.shape:
        return False
    return bool(np.allclose(g, e, rtol=rtol, atol=atol, equal_nan=True))


def _short(x):
    try:
        return np.array2string(np.asarray(x, dtype=float), precision=10, threshold=40).replace("\n", " ")
    except Exception:
        return repr(x)[:200]


class Collector:
    """Gathers evaluations / failures of one task; merged into the Report by the parent."""

    def __init__(self):
        self.evals = 0
        self.failures = []          # (check, witness, detail)
        self.cases = []             # (key, nontrivial, sample)

    def call(self, fn, *a, **k):
        try:
            with np.errstate(all="ignore"):
                return ("ok", fn(*a, **k))
        except Exception as e:       # noqa
            return ("exc", e)

    def expect(self, check, witness, res, exp, rtol=RTOL):
        """One contract evaluation: library result `res` (from .call) against spec `exp`."""
        self.evals += 1
        if exp is UNDEF:
            if res[0] == "exc" and not isinstance(res[1], UNDEF_OK):
                self.failures.append((check, witness, f"definition has no value here, but the call raised "
                                                       f"{type(res[1]).__name__}: {res[1]}"))
            return
        if res[0] == "exc":
            self.failures.append((check, witness, f"raised {type(res[1]).__name__}: {res[1]}; expected {_short(exp)}"))
            return
        if not _close(res[1], exp, rtol=rtol):
            self.failures.append((check, witness, f"got {_short(res[1])} expected {_short(exp)}"))

    def same(self, check, witness, r1, r2, transform=None, what=""):
        """Relational clause between two library results."""
        self.evals += 1
        if r1[0] == "exc" or r2[0] == "exc":
            # both undefined in the same way is fine (0/0); anything else is a failure
            e1 = r1[1] if r1[0] == "exc" else None
            e2 = r2[1] if r2[0] == "exc" else None
            if e1 is not None and e2 is not None and isinstance(e1, UNDEF_OK) and isinstance(e2, UNDEF_OK):
                return
            self.failures.append((check, witness, f"{what} one side raised: {e1!r} / {e2!r}"))
            return
        b = r2[1]
        if transform is not None:
            b = transform(b)
        if not _close(r1[1], b):
            self.failures.append((check, witness, f"{what} {_short(r1[1])} vs {_short(b)}"))


class LargeCollector(Collector):
    """Collector of the "large cross degree" family: the clauses of the check_* functions are
    evaluated unchanged, but reported under their own stable names
        <method>/definition | subblock           ->  <method>/large-cross-degree
        <method>/definition-X | subblock-X | X   ->  <method>/large-cross-degree-X
    and a failing array comparison names the worst entry (the arrays are long)."""
    SUF = "large-cross-degree"

    def _name(self, check):
        meth, _, clause = check.partition("/")
        for pre in ("definition", "subblock"):
            if clause == pre:
                return f"{meth}/{self.SUF}"
            if clause.startswith(pre + "-"):
                clause = clause[len(pre) + 1:]
                break
        return f"{meth}/{self.SUF}-{clause}"

    @staticmethod
    def _worst(got, exp):
        try:
            g = np.asarray(got, dtype=float)
            e = np.asarray(exp, dtype=float)
            if g.shape != e.shape or g.ndim == 0:
                return ""
            with np.errstate(all="ignore"):
                bad = ~np.isclose(g, e, rtol=RTOL, atol=ATOL, equal_nan=True)
            if not bad.any():
                return ""
            dev = np.where(bad, np.abs(np.nan_to_num(g - e, nan=np.inf, posinf=np.inf, neginf=np.inf)), -1.0)
            i = np.unravel_index(int(np.argmax(dev)), g.shape)
            return (f" [{int(bad.sum())} of {g.size} entries differ; worst at index {tuple(int(x) for x in i)}: "
                    f"got {g[i]!r} expected {e[i]!r}]")
        except Exception:            # noqa
            return ""

    def expect(self, check, witness, res, exp, rtol=RTOL):
        n0 = len(self.failures)
        super().expect(self._name(check), witness, res, exp, rtol)
        if len(self.failures) > n0 and res[0] == "ok" and exp is not UNDEF:
            ch, w_, d = self.failures[-1]
            self.failures[-1] = (ch, w_, d + self._worst(res[1], exp))

    def same(self, check, witness, r1, r2, transform=None, what=""):
        n0 = len(self.failures)
        super().same(self._name(check), witness, r1, r2, transform, what)
        if len(self.failures) > n0 and r1[0] == "ok" and r2[0] == "ok":
            ch, w_, d = self.failures[-1]
            b = transform(r2[1]) if transform is not None else r2[1]
            self.failures[-1] = (ch, w_, d + self._worst(r1[1], b))


def build_net(A, directed, w, L):
    from pyunicorn.core import InteractingNetworks
    with quiet():
        net = InteractingNetworks(adjacency=np.array(A, dtype=np.int8), directed=bool(directed),
                                  node_weights=None if w is None else np.array(w, dtype=float),
                                  silence_level=3)
        if L is not None:
            net.set_link_attribute(LA, np.array(L, dtype=float))
    return net


# ------------------------------------------------------------------------------------ one list

def check_internal(col, net, sp, P, wit, nsi_only=False):
    """All one-list (internal_*) methods for the list P."""
    P = list(P)
    directed = sp.directed
    has_L = sp.L is not None
    unsorted = P != sorted(P)
    uns = "-unsorted" if unsorted else ""
    c = col.call
    if not directed:
        col.expect("nsi_internal_degree/definition", wit, c(net.nsi_internal_degree, P), sp.nsi_internal_degree(P))
        col.expect("nsi_internal_local_clustering/definition", wit, c(net.nsi_internal_local_clustering, P),
                   sp.nsi_internal_local_clustering(P))
        col.expect("nsi_internal_closeness_centrality/definition", wit,
                   c(net.nsi_internal_closeness_centrality, P), sp.nsi_internal_closeness_centrality(P))
    if nsi_only:
        return
    col.expect("internal_adjacency/subblock", wit, c(net.internal_adjacency, P), sp.internal_adjacency(P))
    # (a one-node Network cannot be constructed at all -- its link density is 0/0 -- so
    #  subnetwork() is only exercised for lists of at least two nodes)
    r = c(net.subnetwork, P) if len(P) > 1 else ("skip", None)
    if r[0] == "skip":
        pass
    elif r[0] == "ok":
        sub = r[1]
        col.expect("subnetwork/subblock", wit, ("ok", np.asarray(sub.adjacency)), sp.internal_adjacency(P))
        col.expect("subnetwork/node-weights", wit, ("ok", np.asarray(sub.node_weights)), [sp.w[p] for p in P])
    else:
        col.expect("subnetwork/subblock", wit, r, sp.internal_adjacency(P))
    col.expect("internal_path_lengths/subblock", wit, c(net.internal_path_lengths, P), sp.internal_path_lengths(P))
    col.expect("number_internal_links/definition", wit, c(net.number_internal_links, P), sp.number_internal_links(P))
    col.expect("internal_link_density/definition", wit, c(net.internal_link_density, P), sp.internal_link_density(P))
    col.expect("internal_average_path_length/definition", wit, c(net.internal_average_path_length, P),
               sp.internal_average_path_length(P))
    col.expect("internal_closeness/definition", wit, c(net.internal_closeness, P), sp.internal_closeness(P))
    col.expect("internal_degree/definition", wit, c(net.internal_degree, P), sp.internal_degree(P))
    col.expect("internal_indegree/definition", wit, c(net.internal_indegree, P), sp.internal_indegree(P))
    col.expect("internal_outdegree/definition", wit, c(net.internal_outdegree, P), sp.internal_outdegree(P))
    if not directed:
        col.expect("internal_global_clustering/definition", wit, c(net.internal_global_clustering, P),
                   sp.internal_global_clustering(P))
        col.expect("internal_betweenness/definition", wit, c(net.internal_betweenness, P), sp.internal_betweenness(P))
    if has_L:
        col.expect("internal_link_attribute/subblock" + uns, wit, c(net.internal_link_attribute, LA, P),
                   sp.internal_link_attribute(P))
        col.expect("internal_degree/definition-linkattr" + uns, wit, c(net.internal_degree, P, LA),
                   sp.internal_degree(P, True))
        col.expect("internal_indegree/definition-linkattr" + uns, wit, c(net.internal_indegree, P, LA),
                   sp.internal_indegree(P, True))
        col.expect("internal_outdegree/definition-linkattr" + uns, wit, c(net.internal_outdegree, P, LA),
                   sp.internal_outdegree(P, True))
        col.expect("internal_path_lengths/subblock-linkattr", wit, c(net.internal_path_lengths, P, LA),
                   sp.internal_path_lengths(P, True))
        col.expect("internal_average_path_length/definition-linkattr", wit,
                   c(net.internal_average_path_length, P, LA), sp.internal_average_path_length(P, True))
        col.expect("internal_closeness/definition-linkattr", wit, c(net.internal_closeness, P, LA),
                   sp.internal_closeness(P, True))


# ------------------------------------------------------------------------------------ two lists

def check_nsi_capl(col, net, sp, P, Q, wit):
    c = col.call
    WP = sum(sp.w[p] for p in P)
    WQ = sum(sp.w[q] for q in Q)
    eq = "-equal-weight" if WP == WQ else ""
    r_pq = c(net.nsi_cross_average_path_length, P, Q)
    col.expect("nsi_cross_average_path_length/definition" + eq, wit, r_pq, sp.nsi_cross_average_path_length(P, Q))
    if sp.nsi_cross_average_path_length(P, Q) is not UNDEF and sp.nsi_cross_average_path_length(Q, P) is not UNDEF:
        col.same("nsi_cross_average_path_length/arg-symmetry" + eq, wit, r_pq,
                 c(net.nsi_cross_average_path_length, Q, P), what="(P,Q) vs (Q,P):")


def check_cross_nsi(col, net, sp, P, Q, wit, capl=True):
    """n.s.i. two-list methods (undirected networks).  capl=False: evaluate the n.s.i. cross
    average path length only for W_P == W_Q (where known finding #19 cannot show)."""
    c = col.call
    col.expect("nsi_cross_degree/definition", wit, c(net.nsi_cross_degree, P, Q), sp.nsi_cross_degree(P, Q))
    col.expect("nsi_cross_mean_degree/definition", wit, c(net.nsi_cross_mean_degree, P, Q),
               sp.nsi_cross_mean_degree(P, Q))
    col.expect("nsi_cross_local_clustering/definition", wit, c(net.nsi_cross_local_clustering, P, Q),
               sp.nsi_cross_local_clustering(P, Q))
    col.expect("nsi_cross_closeness_centrality/definition", wit, c(net.nsi_cross_closeness_centrality, P, Q),
               sp.nsi_cross_closeness_centrality(P, Q))
    col.expect("nsi_cross_global_clustering/definition", wit, c(net.nsi_cross_global_clustering, P, Q),
               sp.nsi_cross_global_clustering(P, Q))
    r = c(net.nsi_cross_betweenness, P, Q)
    col.expect("nsi_cross_betweenness/definition", wit, r, sp.nsi_cross_betweenness(P, Q))
    col.same("nsi_cross_betweenness/arg-symmetry", wit, r, c(net.nsi_cross_betweenness, Q, P))
    r = c(net.nsi_cross_edge_density, P, Q)
    col.expect("nsi_cross_edge_density/definition", wit, r, sp.nsi_cross_edge_density(P, Q))
    col.same("nsi_cross_edge_density/arg-symmetry", wit, r, c(net.nsi_cross_edge_density, Q, P))
    col.expect("nsi_cross_transitivity/definition", wit, c(net.nsi_cross_transitivity, P, Q),
               sp.nsi_cross_transitivity(P, Q))
    if capl or sum(sp.w[p] for p in P) == sum(sp.w[q] for q in Q):
        check_nsi_capl(col, net, sp, P, Q, wit)


def check_clustering(col, net, sp, P, Q, wit, sparse=True, only=None):
    """Cross clustering / transitivity: compiled method and (sparse=True) its pure-Python
    `_sparse` twin against the definition, and twin agreement.  `only` restricts to one of
    "cross_local_clustering", "cross_global_clustering", "cross_transitivity"."""
    c = col.call
    for meth in ("cross_local_clustering", "cross_global_clustering", "cross_transitivity"):
        if only is not None and meth != only:
            continue
        exp = getattr(sp, meth)(P, Q)
        r = c(getattr(net, meth), P, Q)
        col.expect(meth + "/definition", wit, r, exp)
        if sparse:
            rs = c(getattr(net, meth + "_sparse"), P, Q)
            col.expect(meth + "_sparse/definition", wit, rs, exp)
            col.same(meth + "/sparse-twin", wit, r, rs)


def check_cross(col, net, sp, P, Q, wit, nsi_only=False, sparse=True, capl=True):
    """All two-list methods for the ordered pair (P, Q).  sparse=False leaves out the
    pure-Python `_sparse` clustering twins (O(|P| |Q|^2) sparse-matrix look-ups)."""
    P, Q = list(P), list(Q)
    directed = sp.directed
    has_L = sp.L is not None
    c = col.call
    T = (lambda m: np.asarray(m).T)

    if not directed:
        check_cross_nsi(col, net, sp, P, Q, wit, capl)
    if nsi_only:
        return

    # ---- sub-block extraction
    r = c(net.cross_adjacency, P, Q)
    col.expect("cross_adjacency/subblock", wit, r, sp.cross_adjacency(P, Q))
    rs = c(net.cross_adjacency_sparse, P, Q)
    col.expect("cross_adjacency_sparse/subblock", wit, rs, sp.cross_adjacency(P, Q))
    col.same("cross_adjacency/sparse-twin", wit, r, rs)
    rp = c(net.cross_path_lengths, P, Q)
    col.expect("cross_path_lengths/subblock", wit, rp, sp.cross_path_lengths(P, Q))
    if not directed:
        col.same("cross_adjacency/arg-symmetry", wit, r, c(net.cross_adjacency, Q, P), T)
        col.same("cross_adjacency_sparse/arg-symmetry", wit, rs, c(net.cross_adjacency_sparse, Q, P), T)
        col.same("cross_path_lengths/arg-symmetry", wit, rp, c(net.cross_path_lengths, Q, P), T)
    if has_L:
        r = c(net.cross_link_attribute, LA, P, Q)
        col.expect("cross_link_attribute/subblock", wit, r, sp.cross_link_attribute(P, Q))
        rp = c(net.cross_path_lengths, P, Q, LA)
        col.expect("cross_path_lengths/subblock-linkattr", wit, rp, sp.cross_path_lengths(P, Q, True))
        if not directed:
            col.same("cross_link_attribute/arg-symmetry", wit, r, c(net.cross_link_attribute, LA, Q, P), T)
            col.same("cross_path_lengths/arg-symmetry-linkattr", wit, rp, c(net.cross_path_lengths, Q, P, LA), T)
        # history: the attribute is replaced on the same object and replaced back - every answer follows the current values
        try:
            W0 = np.array(net.link_attribute(LA), dtype=float)
            W1 = 2.0 * W0 + (np.array(net.adjacency) != 0)
            net.set_link_attribute(LA, W1)
            Pi, Qi = np.array(P, dtype=int), np.array(Q, dtype=int)
            col.expect("cross_link_attribute/after-set_link_attribute", wit, c(net.cross_link_attribute, LA, P, Q),
                       W1[Pi][:, Qi].tolist())
            col.expect("internal_link_attribute/after-set_link_attribute", wit, c(net.internal_link_attribute, LA, P),
                       W1[Pi][:, Pi].tolist())
            net.set_link_attribute(LA, W0)
            col.expect("cross_link_attribute/after-set_link_attribute", wit, c(net.cross_link_attribute, LA, P, Q),
                       W0[Pi][:, Qi].tolist())
        except Exception as e_:                                     # noqa
            col.failures.append(("cross_link_attribute/after-set_link_attribute", wit, "raised %r" % (e_,)))

    # ---- degrees
    rd = c(net.cross_degree, P, Q)
    col.expect("cross_degree/definition", wit, rd, sp.cross_degree(P, Q))
    col.expect("cross_indegree/definition", wit, c(net.cross_indegree, P, Q), sp.cross_indegree(P, Q))
    col.expect("cross_outdegree/definition", wit, c(net.cross_outdegree, P, Q), sp.cross_outdegree(P, Q))
    col.expect("total_cross_degree/definition", wit, c(net.total_cross_degree, P, Q), sp.total_cross_degree(P, Q))
    col.expect("cross_degree_density/definition", wit, c(net.cross_degree_density, P, Q),
               sp.cross_degree_density(P, Q))
    rq = c(net.cross_degree, Q, P)
    if rd[0] == "ok" and rq[0] == "ok":
        col.same("cross_degree/arg-symmetry-sum", wit, ("ok", np.sum(rd[1])), ("ok", np.sum(rq[1])),
                 what="sum of cross degrees (P,Q) vs (Q,P):")
    if has_L:
        col.expect("cross_degree/definition-linkattr", wit, c(net.cross_degree, P, Q, LA), sp.cross_degree(P, Q, True))
        col.expect("cross_indegree/definition-linkattr", wit, c(net.cross_indegree, P, Q, LA),
                   sp.cross_indegree(P, Q, True))
        col.expect("cross_outdegree/definition-linkattr", wit, c(net.cross_outdegree, P, Q, LA),
                   sp.cross_outdegree(P, Q, True))

    # ---- path based
    variants = [("", (), False)] + ([("-linkattr", (LA,), True)] if has_L else [])
    for suf, extra, wflag in variants:
        r = c(net.cross_average_path_length, P, Q, *extra)
        col.expect("cross_average_path_length/definition" + suf, wit, r, sp.cross_average_path_length(P, Q, wflag))
        col.expect("cross_closeness/definition" + suf, wit, c(net.cross_closeness, P, Q, *extra),
                   sp.cross_closeness(P, Q, wflag))
        col.expect("average_cross_closeness/definition" + suf, wit, c(net.average_cross_closeness, P, Q, *extra),
                   sp.average_cross_closeness(P, Q, wflag))
        col.expect("local_efficiency/definition" + suf, wit, c(net.local_efficiency, P, Q, *extra),
                   sp.local_efficiency(P, Q, wflag))
        rg = c(net.global_efficiency, P, Q, *extra)
        col.expect("global_efficiency/definition" + suf, wit, rg, sp.global_efficiency(P, Q, wflag))
        if not directed:
            if sp.cross_average_path_length(P, Q, wflag) is not UNDEF:
                col.same("cross_average_path_length/arg-symmetry" + suf, wit, r,
                         c(net.cross_average_path_length, Q, P, *extra))
            if sp.global_efficiency(P, Q, wflag) is not UNDEF:
                col.same("global_efficiency/arg-symmetry" + suf, wit, rg, c(net.global_efficiency, Q, P, *extra))

    if directed:
        return

    # ---- undirected only: link counts, clustering, betweenness
    r = c(net.number_cross_links, P, Q)
    col.expect("number_cross_links/definition", wit, r, sp.number_cross_links(P, Q))
    col.same("number_cross_links/arg-symmetry", wit, r, c(net.number_cross_links, Q, P))
    r = c(net.cross_link_density, P, Q)
    col.expect("cross_link_density/definition", wit, r, sp.cross_link_density(P, Q))
    col.same("cross_link_density/arg-symmetry", wit, r, c(net.cross_link_density, Q, P))

    check_clustering(col, net, sp, P, Q, wit, sparse)

    r = c(net.cross_betweenness, P, Q)
    col.expect("cross_betweenness/definition", wit, r, sp.cross_betweenness(P, Q))
    col.same("cross_betweenness/arg-symmetry", wit, r, c(net.cross_betweenness, Q, P))


# ------------------------------------------------------------------------------------ whole network

def check_whole(col, net, sp, order, wit, sparse=True):
    """P = Q = V (in the given order) reproduces the measures of the single network.
    sparse=False leaves out the pure-Python `_sparse` twins (O(N^3) sparse-matrix look-ups)."""
    V = list(order)
    idx = np.array(V)
    directed = sp.directed
    has_L = sp.L is not None
    c = col.call
    sel = (lambda x: np.asarray(x)[idx])
    connected = sp.connected()
    nlinks = sum(map(sum, sp.A))
    with quiet():
        col.same("internal_adjacency/whole-network", wit, c(net.internal_adjacency, V),
                 ("ok", np.asarray(net.adjacency)[idx][:, idx]))
        col.same("cross_adjacency/whole-network", wit, c(net.cross_adjacency, V, V),
                 ("ok", np.asarray(net.adjacency)[idx][:, idx]))
        col.same("internal_path_lengths/whole-network", wit, c(net.internal_path_lengths, V),
                 c(lambda: net.path_lengths()[idx][:, idx]))
        col.same("cross_path_lengths/whole-network", wit, c(net.cross_path_lengths, V, V),
                 c(lambda: net.path_lengths()[idx][:, idx]))
        col.same("cross_degree/whole-network", wit, c(net.cross_degree, V, V), c(lambda: sel(net.degree())))
        col.same("internal_degree/whole-network", wit, c(net.internal_degree, V), c(lambda: sel(net.degree())))
        col.same("cross_indegree/whole-network", wit, c(net.cross_indegree, V, V), c(lambda: sel(net.indegree())))
        col.same("cross_outdegree/whole-network", wit, c(net.cross_outdegree, V, V), c(lambda: sel(net.outdegree())))
        col.same("internal_indegree/whole-network", wit, c(net.internal_indegree, V), c(lambda: sel(net.indegree())))
        col.same("internal_outdegree/whole-network", wit, c(net.internal_outdegree, V),
                 c(lambda: sel(net.outdegree())))
        col.same("number_internal_links/whole-network", wit, c(net.number_internal_links, V), ("ok", net.n_links))
        if sp.n > 1:
            col.same("internal_link_density/whole-network", wit, c(net.internal_link_density, V),
                     ("ok", net.link_density))
        if nlinks:
            col.same("internal_average_path_length/whole-network", wit, c(net.internal_average_path_length, V),
                     c(net.average_path_length))
        if connected and sp.n > 1 and not directed:      # (igraph's closeness ignores directions)
            col.same("internal_closeness/whole-network", wit, c(net.internal_closeness, V),
                     c(lambda: sel(net.closeness())))
        if has_L:
            col.same("cross_degree/whole-network-linkattr", wit, c(net.cross_degree, V, V, LA),
                     c(lambda: sel(net.degree(LA))))
            col.same("internal_degree/whole-network-linkattr", wit, c(net.internal_degree, sorted(V), LA),
                     c(lambda: net.degree(LA)))
            col.same("cross_link_attribute/whole-network", wit, c(net.cross_link_attribute, LA, V, V),
                     c(lambda: net.link_attribute(LA)[idx][:, idx]))
            col.same("internal_link_attribute/whole-network", wit, c(net.internal_link_attribute, LA, sorted(V)),
                     c(lambda: net.link_attribute(LA)))
            col.same("internal_path_lengths/whole-network-linkattr", wit, c(net.internal_path_lengths, V, LA),
                     c(lambda: net.path_lengths(LA)[idx][:, idx]))
            if nlinks:
                col.same("internal_average_path_length/whole-network-linkattr", wit,
                         c(net.internal_average_path_length, V, LA), c(net.average_path_length, LA))
            if connected and sp.n > 1:
                col.same("internal_closeness/whole-network-linkattr", wit, c(net.internal_closeness, V, LA),
                         c(lambda: sel(net.closeness(LA))))
        if directed:
            return
        col.same("internal_global_clustering/whole-network", wit, c(net.internal_global_clustering, V),
                 c(net.global_clustering))
        col.same("cross_global_clustering/whole-network", wit, c(net.cross_global_clustering, V, V),
                 c(net.global_clustering))
        if sparse:
            col.same("cross_global_clustering_sparse/whole-network", wit,
                     c(net.cross_global_clustering_sparse, V, V), c(net.global_clustering))
        col.same("cross_local_clustering/whole-network", wit, c(net.cross_local_clustering, V, V),
                 c(lambda: sel(net.local_clustering())))
        if sparse:
            col.same("cross_local_clustering_sparse/whole-network", wit,
                     c(net.cross_local_clustering_sparse, V, V), c(lambda: sel(net.local_clustering())))
        if any(sp._cross_triples_triangles(v, V)[0] for v in V):   # Network.transitivity() is nan without triples
            col.same("cross_transitivity/whole-network", wit, c(net.cross_transitivity, V, V), c(net.transitivity))
            if sparse:
                col.same("cross_transitivity_sparse/whole-network", wit, c(net.cross_transitivity_sparse, V, V),
                         c(net.transitivity))
        col.same("cross_betweenness/whole-network", wit, c(net.cross_betweenness, V, V),
                 c(lambda: 2 * net.betweenness()))
        col.same("internal_betweenness/whole-network", wit, c(net.internal_betweenness, V),
                 c(lambda: 2 * net.betweenness()))
        # n.s.i.
        col.same("nsi_cross_degree/whole-network", wit, c(net.nsi_cross_degree, V, V), c(lambda: sel(net.nsi_degree())))
        col.same("nsi_internal_degree/whole-network", wit, c(net.nsi_internal_degree, V),
                 c(lambda: sel(net.nsi_degree())))
        col.same("nsi_cross_local_clustering/whole-network", wit, c(net.nsi_cross_local_clustering, V, V),
                 c(lambda: sel(net.nsi_local_clustering())))
        col.same("nsi_internal_local_clustering/whole-network", wit, c(net.nsi_internal_local_clustering, V),
                 c(lambda: sel(net.nsi_local_clustering())))
        col.same("nsi_cross_global_clustering/whole-network", wit, c(net.nsi_cross_global_clustering, V, V),
                 c(net.nsi_global_clustering))
        col.same("nsi_cross_transitivity/whole-network", wit, c(net.nsi_cross_transitivity, V, V),
                 c(net.nsi_transitivity))
        col.same("nsi_cross_betweenness/whole-network", wit, c(net.nsi_cross_betweenness, V, V),
                 c(net.nsi_betweenness))
        if connected:
            col.same("nsi_cross_closeness_centrality/whole-network", wit,
                     c(net.nsi_cross_closeness_centrality, V, V), c(lambda: sel(net.nsi_closeness())))
            col.same("nsi_internal_closeness_centrality/whole-network", wit,
                     c(net.nsi_internal_closeness_centrality, V), c(lambda: sel(net.nsi_closeness())))
            col.same("nsi_cross_average_path_length/whole-network", wit,
                     c(net.nsi_cross_average_path_length, V, V), c(net.nsi_average_path_length))
        # the whole-network values against the definition as well
        col.expect("nsi_cross_mean_degree/whole-network", wit, c(net.nsi_cross_mean_degree, V, V),
                   sp.nsi_cross_mean_degree(V, V))
        col.expect("nsi_cross_edge_density/whole-network", wit, c(net.nsi_cross_edge_density, V, V),
                   sp.nsi_cross_edge_density(V, V))
        col.expect("nsi_cross_average_path_length/whole-network", wit, c(net.nsi_cross_average_path_length, V, V),
                   sp.nsi_cross_average_path_length(V, V))


# ------------------------------------------------------------------------------------ coupled climate network

def check_ccn(col, A, N1, lat, lon, wit):
    from pyunicorn.core import GeoGrid
    from pyunicorn.climate import CoupledClimateNetwork
    A = np.asarray(A)
    n = len(A)
    sim = np.where(A > 0, 0.9, 0.1).astype(float)
    np.fill_diagonal(sim, 1.0)
    t = np.arange(4.0)
    lat = np.asarray(lat, dtype=float)
    lon = np.asarray(lon, dtype=float)
    c = col.call
    with quiet():
        g1 = GeoGrid(t, lat[:N1], lon[:N1], silence_level=3)
        g2 = GeoGrid(t, lat[N1:], lon[N1:], silence_level=3)
        try:
            net = CoupledClimateNetwork(g1, g2, sim, threshold=0.5, silence_level=3)
        except Exception as e:       # noqa
            col.evals += 1
            col.failures.append(("CoupledClimateNetwork/construct", wit, f"raised {type(e).__name__}: {e}"))
            return
        P = list(range(N1))
        Q = list(range(N1, n))
        col.expect("CoupledClimateNetwork.nodes/wrapper", wit, ("ok", list(net.nodes_1) + list(net.nodes_2)), P + Q)
        col.expect("CoupledClimateNetwork.adjacency/wrapper", wit, ("ok", np.asarray(net.adjacency)), A)
        sp = Spec(A.tolist(), False, [float(x) for x in net.node_weights], None)

        def pair(name, res, e1, e2):
            col.evals += 1
            if res[0] == "exc":
                if (e1 is UNDEF or e2 is UNDEF) and isinstance(res[1], UNDEF_OK):
                    return
                col.failures.append((name, wit, f"raised {type(res[1]).__name__}: {res[1]}"))
                return
            v = res[1]
            if not (isinstance(v, tuple) and len(v) == 2):
                col.failures.append((name, wit, f"expected a pair, got {type(v).__name__}"))
                return
            for g, e in zip(v, (e1, e2)):
                if e is UNDEF:
                    continue
                if not _close(g, e):
                    col.failures.append((name, wit, f"got {_short(g)} expected {_short(e)}"))
                    return

        W = "/wrapper"
        col.expect("CoupledClimateNetwork.adjacency_1" + W, wit, c(net.adjacency_1), sp.internal_adjacency(P))
        col.expect("CoupledClimateNetwork.adjacency_2" + W, wit, c(net.adjacency_2), sp.internal_adjacency(Q))
        col.expect("CoupledClimateNetwork.cross_layer_adjacency" + W, wit, c(net.cross_layer_adjacency),
                   sp.cross_adjacency(P, Q))
        col.expect("CoupledClimateNetwork.path_lengths_1" + W, wit, c(net.path_lengths_1), sp.internal_path_lengths(P))
        col.expect("CoupledClimateNetwork.path_lengths_2" + W, wit, c(net.path_lengths_2), sp.internal_path_lengths(Q))
        col.expect("CoupledClimateNetwork.cross_path_lengths" + W, wit, c(net.cross_path_lengths),
                   sp.cross_path_lengths(P, Q))
        col.expect("CoupledClimateNetwork.number_cross_layer_links" + W, wit, c(net.number_cross_layer_links),
                   sp.number_cross_links(P, Q))
        pair("CoupledClimateNetwork.number_internal_links" + W, c(net.number_internal_links),
             sp.number_internal_links(P), sp.number_internal_links(Q))
        col.expect("CoupledClimateNetwork.cross_link_density" + W, wit, c(net.cross_link_density),
                   sp.cross_link_density(P, Q))
        pair("CoupledClimateNetwork.internal_link_density" + W, c(net.internal_link_density),
             sp.internal_link_density(P), sp.internal_link_density(Q))
        pair("CoupledClimateNetwork.internal_global_clustering" + W, c(net.internal_global_clustering),
             sp.internal_global_clustering(P), sp.internal_global_clustering(Q))
        pair("CoupledClimateNetwork.cross_global_clustering" + W, c(net.cross_global_clustering),
             sp.cross_global_clustering(P, Q), sp.cross_global_clustering(Q, P))
        pair("CoupledClimateNetwork.cross_transitivity" + W, c(net.cross_transitivity),
             sp.cross_transitivity(P, Q), sp.cross_transitivity(Q, P))
        col.expect("CoupledClimateNetwork.cross_average_path_length" + W, wit, c(net.cross_average_path_length),
                   sp.cross_average_path_length(P, Q))
        pair("CoupledClimateNetwork.internal_average_path_length" + W, c(net.internal_average_path_length),
             sp.internal_average_path_length(P), sp.internal_average_path_length(Q))
        pair("CoupledClimateNetwork.cross_degree" + W, c(net.cross_degree), sp.cross_degree(P, Q), sp.cross_degree(Q, P))
        pair("CoupledClimateNetwork.internal_degree" + W, c(net.internal_degree),
             sp.internal_degree(P), sp.internal_degree(Q))
        pair("CoupledClimateNetwork.cross_local_clustering" + W, c(net.cross_local_clustering),
             sp.cross_local_clustering(P, Q), sp.cross_local_clustering(Q, P))
        pair("CoupledClimateNetwork.cross_closeness" + W, c(net.cross_closeness),
             sp.cross_closeness(P, Q), sp.cross_closeness(Q, P))
        pair("CoupledClimateNetwork.internal_closeness" + W, c(net.internal_closeness),
             sp.internal_closeness(P), sp.internal_closeness(Q))
        cb = sp.cross_betweenness(P, Q)
        pair("CoupledClimateNetwork.cross_betweenness" + W, c(net.cross_betweenness),
             [cb[i] for i in P], [cb[i] for i in Q])
        ib = sp.internal_betweenness(P)
        pair("CoupledClimateNetwork.internal_betweenness_1" + W, c(net.internal_betweenness_1),
             [ib[i] for i in P], [ib[i] for i in Q])
        ib = sp.internal_betweenness(Q)
        pair("CoupledClimateNetwork.internal_betweenness_2" + W, c(net.internal_betweenness_2),
             [ib[i] for i in P], [ib[i] for i in Q])
        # the inherited two-list methods still work on the coupled object
        col.expect("CoupledClimateNetwork.nsi_cross_degree" + W, wit, c(net.nsi_cross_degree, P, Q),
                   sp.nsi_cross_degree(P, Q))
        # sub-networks
        for k, (meth, L_) in enumerate((("network_1", P), ("network_2", Q))):
            if len(L_) < 2:          # a one-node (Geo)Network cannot be constructed (0/0 link density)
                continue
            r = c(getattr(net, meth))
            if r[0] == "ok":
                r = ("ok", np.asarray(r[1].adjacency))
            col.expect(f"CoupledClimateNetwork.{meth}" + W, wit, r, sp.internal_adjacency(L_))
        # geographic cross distances (float32 kernels)
        gc = [[great_circle(lat[p], lon[p], lat[q], lon[q]) for q in Q] for p in P]
        r = c(net.cross_link_distance)
        col.evals += 1
        if r[0] == "exc":
            col.failures.append(("CoupledClimateNetwork.cross_link_distance" + W, wit, f"raised {r[1]!r}"))
        elif not _close(r[1], gc, rtol=RTOL32, atol=5e-4):
            # float32 arccos near 0 / pi loses absolute accuracy ~ sqrt(eps32) = 3.5e-4
            col.failures.append(("CoupledClimateNetwork.cross_link_distance" + W, wit,
                                 f"got {_short(r[1])} expected {_short(gc)}"))
        for rev in (False, True):
            r = c(net.cross_average_link_distance, rev)
            col.evals += 1
            CA = sp.cross_adjacency(P, Q)
            exp = []
            if rev:
                for j in range(len(Q)):
                    k = sum(CA[i][j] for i in range(len(P)))
                    exp.append(sum(CA[i][j] * gc[i][j] for i in range(len(P))) / k if k else np.nan)
            else:
                for i in range(len(P)):
                    k = sum(CA[i])
                    exp.append(sum(CA[i][j] * gc[i][j] for j in range(len(Q))) / k if k else np.nan)
            name = "CoupledClimateNetwork.cross_average_link_distance" + W
            if r[0] == "exc":
                col.failures.append((name, wit, f"raised {r[1]!r}"))
            else:
                g = np.asarray(r[1], dtype=float)
                e = np.asarray(exp)
                ok = g.shape == e.shape and all(
                    (np.isnan(b) or abs(a - b) <= 5e-4 + RTOL32 * abs(b)) for a, b in zip(g, e))
                if not ok:
                    col.failures.append((name, wit, f"reverse={rev}: got {_short(g)} expected {_short(e)}"))


# ------------------------------------------------------------------------------------ enumeration

def iso_classes(n, directed=False):
    """One representative adjacency matrix (lists) per isomorphism class of simple graphs on
    n labelled nodes: the member with the smallest edge-bit code of each orbit."""
    if directed:
        slots = [(i, j) for i in range(n) for j in range(n) if i != j]
    else:
        slots = list(itertools.combinations(range(n), 2))
    m = len(slots)
    pos = {s: k for k, s in enumerate(slots)}
    perms = list(itertools.permutations(range(n)))
    maps = []
    for p in perms:
        mp_ = []
        for (i, j) in slots:
            a, b = p[i], p[j]
            if not directed and a > b:
                a, b = b, a
            mp_.append(pos[(a, b)])
        maps.append(mp_)
    maps = np.array(maps, dtype=np.int64)            # perms x m
    seen = np.zeros(1 << m, dtype=bool)
    reps = []
    for bits in range(1 << m):
        if seen[bits]:
            continue
        reps.append(bits)
        on = [k for k in range(m) if bits >> k & 1]
        if on:
            img = (1 << maps[:, on]).sum(axis=1)
        else:
            img = np.zeros(len(perms), dtype=np.int64)
        seen[img] = True
    out = []
    for bits in reps:
        A = [[0] * n for _ in range(n)]
        for k, (i, j) in enumerate(slots):
            if bits >> k & 1:
                A[i][j] = 1
                if not directed:
                    A[j][i] = 1
        out.append(A)
    return out


def subset_pairs(n):
    """All ordered pairs (S, T) of disjoint non-empty subsets of range(n) (as sorted tuples)."""
    out = []
    for code in itertools.product((0, 1, 2), repeat=n):
        S = tuple(i for i in range(n) if code[i] == 1)
        T = tuple(i for i in range(n) if code[i] == 2)
        if S and T:
            out.append((S, T))
    return out


def list_pairs_all_orders(n):
    """All ordered pairs of disjoint non-empty node *lists* (every order of every subset)."""
    out = []
    for S, T in subset_pairs(n):
        for P in itertools.permutations(S):
            for Q in itertools.permutations(T):
                out.append((P, Q))
    return out


def rand_weights(rng, n, kind):
    if kind == "unit":
        return [1.0] * n
    if kind == "int":
        return [float(x) for x in rng.randint(1, 4, size=n)]
    return [float(x) for x in np.round(rng.uniform(0.3, 2.5, size=n), 6)]


def rand_link_attr(rng, A, directed):
    n = len(A)
    L = np.round(rng.uniform(0.4, 3.0, size=(n, n)), 6)
    if not directed:
        L = np.triu(L, 1)
        L = L + L.T
    L = L * (np.asarray(A) != 0)
    if rng.randint(4) == 0:
        # links of length exactly 0 are legal (co-located nodes): distinct connected nodes at weighted distance 0
        Z = rng.random_sample((n, n)) < 0.3
        if not directed:
            Z = np.triu(Z, 1)
            Z = Z | Z.T
        L = np.where(Z, 0.0, L)
    return L.tolist()


def random_adj(rng, n, p, directed):
    A = (rng.random_sample((n, n)) < p).astype(int)
    np.fill_diagonal(A, 0)
    if not directed:
        A = np.triu(A, 1)
        A = A + A.T
    return A.tolist()


# ------------------------------------------------------------------------------------ tasks (run in workers)

def graph_key(A, directed):
    n = len(A)
    bits = "".join(str(A[i][j]) for i in range(n) for j in range(n) if (i != j if directed else i < j))
    return f"{'D' if directed else 'U'}{n}:{bits}"


def run_graph_task(task):
    """One graph with its weights / link attribute and a list of ordered list pairs."""
    col = Collector()
    try:
        A, directed, w, L = task["A"], task["directed"], task["w"], task["L"]
        nsi_only = task.get("nsi_only", False)
        net = build_net(A, directed, w, L)
        sp = Spec(A, directed, w, L)
        gk = graph_key(A, directed) + "|" + task.get("tag", "")
        base = {"kind": "pair", "A": A, "directed": directed, "w": w, "L": L, "nsi_only": nsi_only}
        done_internal = set()
        with quiet():
            for P, Q in task["pairs"]:
                P, Q = list(P), list(Q)
                wit = dict(base, P=P, Q=Q)
                e0 = col.evals
                for lst in (P, Q):
                    if tuple(lst) not in done_internal:
                        done_internal.add(tuple(lst))
                        check_internal(col, net, sp, lst, dict(base, P=lst, Q=[q for q in (Q if lst is P else P)]),
                                       nsi_only)
                check_cross(col, net, sp, P, Q, wit, nsi_only)
                nontriv = sp.number_cross_links(P, Q) + (sp.number_cross_links(Q, P) if directed else 0) > 0
                col.cases.append((f"{gk}|{P}|{Q}", nontriv,
                                  {"A": A, "directed": directed, "P": P, "Q": Q, "evaluations": col.evals - e0}))
            for order in task.get("whole", []):
                wit = {"kind": "whole", "A": A, "directed": directed, "w": w, "L": L, "order": list(order)}
                e0 = col.evals
                check_whole(col, net, sp, order, wit)
                col.cases.append((f"{gk}|whole|{list(order)}", sum(map(sum, A)) > 0, None))
    except Exception:                # harness trouble inside a worker: report as such
        col.failures.append(("harness/error", {"task": {k: task[k] for k in ("A", "directed")}},
                             traceback.format_exc()[-500:]))
    out, given = [], False
    for k, nt, smp in col.cases:
        if smp is not None and nt and not given:
            out.append((k, nt, smp))
            given = True
        else:
            out.append((k, nt, None))
    return col.evals, col.failures, out


def run_ccn_task(task):
    col = Collector()
    try:
        wit = {"kind": "ccn", "A": task["A"], "N1": task["N1"], "lat": task["lat"], "lon": task["lon"]}
        check_ccn(col, task["A"], task["N1"], task["lat"], task["lon"], wit)
        A, N1 = task["A"], task["N1"]
        n = len(A)
        cross = sum(A[i][j] for i in range(N1) for j in range(N1, n))
        col.cases.append((f"ccn|{graph_key(A, False)}|{N1}", cross > 0, None))
    except Exception:
        col.failures.append(("harness/error", {"task": "ccn"}, traceback.format_exc()[-500:]))
    return col.evals, col.failures, col.cases


def run_task(task):
    if task["kind"] == "ccn":
        return run_ccn_task(task)
    if task["kind"] == "large":
        return run_large_task(task)
    return run_graph_task(task)


# ------------------------------------------------------------------------------------ large cross degree family

# cross degrees just below / at / above the boundaries of 8-bit and 9-bit counters (127, 255,
# 256, 257: k(k-1)/2 passes 32767 between 256 and 257) and around 300
LARGE_TARGETS = (126, 127, 128, 254, 255, 256, 257, 258, 299, 300, 301)
LARGE_TARGETS_2 = (126, 127, 128, 254, 255, 256, 257, 258)
SPARSE_TWINS = ("cross_local_clustering", "cross_global_clustering", "cross_transitivity")


def _bernoulli_block(rng, m, n, p, symmetric):
    B = (rng.random_sample((m, n)) < p).astype(np.int8)
    if symmetric:
        B = np.triu(B, 1)
        B = B + B.T
    return B


def _prescribed_rows(rng, degs, n):
    """0/1 matrix len(degs) x n whose i-th row has exactly degs[i] ones at random places."""
    B = np.zeros((len(degs), n), dtype=np.int8)
    for i, k in enumerate(degs):
        B[i, rng.choice(n, size=int(k), replace=False)] = 1
    return B


def gen_large(gen):
    """Deterministic network of the family from its generator record `gen`:
      layout 1: first group P = one node per target cross degree (LARGE_TARGETS, |Q|-1, |Q|)
                plus three nodes of cross degree 0, 1 and 2..6; second group Q of 305..430 nodes
      layout 2: every node of the first group P (310..340 nodes) has a cross degree from
                LARGE_TARGETS_2 or |Q| (cyclically), Q has 262..285 nodes: more than 65535
                cross links, cross degrees of the Q-nodes around 255
    plus 8..39 nodes in neither group, Bernoulli links inside the groups (densities dens_p,
    dens_q) and a sparse Bernoulli background (p_bg) to / among the remaining nodes; node
    numbers are a random permutation (the lists are not ascending).  Directed: the prescribed
    degrees are the cross out-degrees; the cross in-degrees get the same multiset in another
    random assignment."""
    rng = np.random.RandomState(gen["gseed"])
    directed = bool(gen["directed"])
    und = not directed
    if gen["layout"] == 1:
        n2 = int(rng.randint(305, 431))
        degs = list(LARGE_TARGETS) + [n2 - 1, n2, 0, 1, int(rng.randint(2, 7))]
        m1 = len(degs)
    else:
        n2 = int(rng.randint(262, 286))
        m1 = int(rng.randint(310, 341))
        base = list(LARGE_TARGETS_2) + [n2]
        degs = [base[i % len(base)] for i in range(m1)]
    n_rest = int(rng.randint(8, 40))
    N = m1 + n2 + n_rest
    perm = rng.permutation(N)
    P, Q = perm[:m1], perm[m1:m1 + n2]
    A = _bernoulli_block(rng, N, N, gen["p_bg"], und)
    np.fill_diagonal(A, 0)
    Bp = _bernoulli_block(rng, m1, m1, gen["dens_p"], und)
    Bq = _bernoulli_block(rng, n2, n2, gen["dens_q"], und)
    np.fill_diagonal(Bp, 0)
    np.fill_diagonal(Bq, 0)
    A[np.ix_(P, P)] = Bp
    A[np.ix_(Q, Q)] = Bq
    kout = rng.permutation(degs)
    Bout = _prescribed_rows(rng, kout, n2)
    A[np.ix_(P, Q)] = Bout
    if directed:
        kin = rng.permutation(degs)
        A[np.ix_(Q, P)] = _prescribed_rows(rng, kin, n2).T
    else:
        kin = kout
        A[np.ix_(Q, P)] = Bout.T
    # node weights
    if gen["wkind"] == "balanced":
        # integer weights with W_P == W_Q exactly (sums of small integers are exact in float64)
        w = rng.randint(1, 4, size=N).astype(float)
        WQ = int(w[Q].sum())
        wp = np.full(m1, WQ // m1, dtype=np.int64)
        wp[:WQ - int(wp.sum())] += 1
        for _ in range(4 * m1):                      # move unit weights around, keeping w > 0
            a, b = rng.randint(0, m1, size=2)
            if wp[a] > 1:
                wp[a] -= 1
                wp[b] += 1
        w[P] = wp
    else:
        w = np.round(rng.uniform(0.3, 2.5, size=N), 6)
    L = None
    if gen.get("with_L"):
        L = np.round(rng.uniform(0.4, 3.0, size=(N, N)), 6)
        if und:
            L = np.triu(L, 1)
            L = L + L.T
        L = L * (A != 0)
    return {"A": A.astype(np.int8), "directed": directed, "w": w, "L": L, "N": N,
            "P": [int(x) for x in P], "Q": [int(x) for x in Q],
            "kout": [int(x) for x in kout], "kin": [int(x) for x in kin]}


def run_large_part(col, gen, part, P=None, Q=None):
    """One part of one network of the family; returns (witness, summary)."""
    g = gen_large(gen)
    P = g["P"] if P is None else [int(x) for x in P]
    Q = g["Q"] if Q is None else [int(x) for x in Q]
    net = build_net(g["A"], g["directed"], g["w"], g["L"])
    sp = BlockSpec(g["A"], g["directed"], g["w"], g["L"])
    wit = {"kind": "large", "gen": gen, "part": part, "N": g["N"], "P": P, "Q": Q}
    summ = {"family": "large-cross-degree", "gen": gen, "part": part, "N": g["N"], "|P|": len(P), "|Q|": len(Q),
            "links": int(g["A"].sum()) // (1 if g["directed"] else 2),
            "cross_links_P_to_Q": sp.number_cross_links(P, Q),
            "max_cross_degree": int(np.max(sp.cross_degree(P, Q)))}
    with quiet():
        if part == "pair":
            check_internal(col, net, sp, P, dict(wit, P=P, Q=Q))
            check_internal(col, net, sp, Q, dict(wit, P=Q, Q=P))
            check_cross(col, net, sp, P, Q, wit, sparse=False, capl=False)
            check_cross(col, net, sp, Q, P, dict(wit, P=Q, Q=P), sparse=False, capl=False)
        elif part == "whole":
            order = [int(x) for x in np.random.RandomState(gen["gseed"] + 7).permutation(g["N"])]
            check_whole(col, net, sp, order, dict(wit, P=None, Q=None, order="RandomState(gseed+7).permutation(N)"),
                        sparse=False)
        elif part.startswith("sparse:"):
            # the pure-Python twins, on a short first list (they need ~1-3 s per node here)
            check_clustering(col, net, sp, P, Q, wit, sparse=True, only=part.split(":", 1)[1])
        else:
            raise ValueError(part)
    return wit, summ


def run_large_task(task):
    col = LargeCollector()
    gen, part = task["gen"], task["part"]
    try:
        wit, summ = run_large_part(col, gen, part, task.get("P"), task.get("Q"))
        key = f"large|{json.dumps(gen, sort_keys=True)}|{part}|{task.get('P')}"
        col.cases.append((key, True, dict(summ, evaluations=col.evals) if task.get("sample") else None))
    except Exception:
        col.failures.append(("harness/error", {"task": {"gen": gen, "part": part}}, traceback.format_exc()[-500:]))
    return col.evals, col.failures, col.cases


def large_tasks(tier, seed):
    """Generator records and parts of the family for one tier / seed."""
    quick = tier == "quick"
    rng = np.random.RandomState(seed + 911)
    tasks = []

    def G(layout, directed, k, **kw):
        gen = {"layout": layout, "directed": directed, "gseed": 100003 * seed + 1000 * layout + 100 * int(directed) + k,
               "p_bg": 0.03, "dens_p": 0.3, "dens_q": 0.3, "wkind": "float", "with_L": False}
        gen.update(kw)
        return gen

    gens = []
    if quick:
        gens.append(G(1, False, 0, dens_q=0.08, p_bg=0.02, with_L=True))
        gens.append(G(1, False, 1, dens_q=0.92, p_bg=0.05, wkind="balanced"))
        gens.append(G(1, True, 0, dens_q=0.08, p_bg=0.02, with_L=True))
        gens.append(G(1, True, 1, dens_q=0.5, p_bg=0.04))
        gens.append(G(2, False, 0, wkind="balanced" if seed % 2 else "float"))
        gens.append(G(2, True, 0, dens_p=0.15, dens_q=0.15))
    else:
        for k, (dq, pb) in enumerate(((0.05, 0.01), (0.3, 0.03), (0.6, 0.02), (0.95, 0.06), (1.0, 0.03))):
            gens.append(G(1, False, k, dens_q=dq, p_bg=pb, with_L=(k == 0),
                          wkind=("balanced" if k % 2 else "float")))
        for k, (dq, pb) in enumerate(((0.05, 0.01), (0.3, 0.03), (0.7, 0.05))):
            gens.append(G(1, True, k, dens_q=dq, p_bg=pb, with_L=(k == 0)))
        for k, (dp, dq) in enumerate(((0.3, 0.3), (0.05, 0.9), (0.95, 0.1))):
            gens.append(G(2, False, k, dens_p=dp, dens_q=dq, wkind=("balanced" if k % 2 else "float")))
        for k, (dp, dq) in enumerate(((0.2, 0.2), (0.6, 0.05))):
            gens.append(G(2, True, k, dens_p=dp, dens_q=dq))
    for gi, gen in enumerate(gens):
        tasks.append({"kind": "large", "gen": gen, "part": "pair", "sample": gi in (0, 4), "cost": 3})
        tasks.append({"kind": "large", "gen": gen, "part": "whole", "cost": 2})
        if gen["directed"]:
            continue
        # pure-Python twins: first lists of one node with a prescribed cross degree
        g = gen_large(gen)
        by_deg = {}
        for p, k in zip(g["P"], g["kout"]):
            by_deg.setdefault(k, p)
        degs = sorted(by_deg)
        if quick:
            big = [k for k in degs if k >= 256]
            pick = {m: [big[int(rng.randint(len(big)))]] for m in SPARSE_TWINS}
        else:
            pick = {m: [k for k in degs if k >= 126] for m in SPARSE_TWINS}
            if gen["layout"] == 1:
                # one longer first list (all prescribed degrees at once) for the transitivity twin
                tasks.append({"kind": "large", "gen": gen, "part": "sparse:cross_transitivity",
                              "P": [by_deg[k] for k in degs if k <= 258], "cost": 9})
        for m in SPARSE_TWINS:
            for k in pick[m]:
                tasks.append({"kind": "large", "gen": gen, "part": "sparse:" + m, "P": [by_deg[k]], "cost": 4})
    return tasks


def oracle_selfcheck(seed):
    """The vectorised BlockSpec must agree with the pure-Python Spec on small graphs;
    returns a list of disagreements (harness errors, not findings)."""
    rng = np.random.RandomState(seed + 5)
    bad = []
    one = ["internal_adjacency", "internal_path_lengths", "number_internal_links", "internal_link_density",
           "internal_degree", "internal_indegree", "internal_outdegree", "internal_average_path_length",
           "internal_closeness"]
    two = ["cross_adjacency", "cross_path_lengths", "number_cross_links", "cross_link_density", "cross_degree",
           "cross_indegree", "cross_outdegree", "total_cross_degree", "cross_degree_density",
           "cross_average_path_length", "cross_closeness", "average_cross_closeness", "local_efficiency",
           "global_efficiency"]
    und1 = ["internal_global_clustering", "internal_betweenness", "nsi_internal_degree",
            "nsi_internal_local_clustering", "nsi_internal_closeness_centrality"]
    und2 = ["cross_local_clustering", "cross_global_clustering", "cross_transitivity", "cross_betweenness",
            "nsi_cross_betweenness", "nsi_cross_degree", "nsi_cross_mean_degree", "nsi_cross_edge_density",
            "nsi_cross_local_clustering", "nsi_cross_global_clustering", "nsi_cross_transitivity",
            "nsi_cross_closeness_centrality", "nsi_cross_average_path_length"]
    for it in range(24):
        directed = it % 3 == 2
        n = int(rng.randint(4, 9))
        A = random_adj(rng, n, float(rng.choice([0.2, 0.4, 0.7])), directed)
        w = rand_weights(rng, n, "float")
        L = rand_link_attr(rng, A, directed)
        a, b = Spec(A, directed, w, L), BlockSpec(A, directed, w, L)
        perm = [int(x) for x in rng.permutation(n)]
        k = int(rng.randint(1, n))
        P, Q = perm[:k], perm[k:]
        calls = [(f, (P,)) for f in one + ([] if directed else und1)]
        calls += [(f, (P, Q)) for f in two + ([] if directed else und2)]
        calls += [(f, (P, Q, True)) for f in ("cross_degree", "cross_path_lengths", "cross_closeness")]
        for f, args in calls:
            x, y = getattr(a, f)(*args), getattr(b, f)(*args)
            ok = (x is y) if (x is UNDEF or y is UNDEF) else _close(y, x, rtol=1e-10)
            if not ok:
                bad.append(f"BlockSpec.{f} != Spec.{f} on A={A} directed={directed} P={P} Q={Q}: {y} vs {x}")
    return bad


# ------------------------------------------------------------------------------------ scope

def shuffled(rng, S):
    S = list(S)
    rng.shuffle(S)
    return S


def make_tasks(tier, seed):
    rng = np.random.RandomState(seed)
    tasks = []
    quick = tier == "quick"

    def add(A, directed, pairs, wkind="float", tag="", nsi_only=False, whole=True, with_L=True):
        n = len(A)
        w = rand_weights(rng, n, wkind)
        # (igraph cannot hold a link attribute on a graph without links)
        L = rand_link_attr(rng, A, directed) if (with_L and any(map(any, A))) else None
        wl = []
        if whole:
            wl = [list(range(n)), shuffled(rng, range(n))]
        tasks.append({"kind": "graph", "A": A, "directed": directed, "w": w, "L": L, "pairs": pairs,
                      "whole": wl, "tag": tag + wkind, "nsi_only": nsi_only})

    # (a) undirected, n <= 4: every isomorphism class x every ordered pair of disjoint node
    #     lists in every order (complete up to relabelling)
    for n in (2, 3, 4):
        allp = list_pairs_all_orders(n)
        for A in iso_classes(n):
            add(A, False, allp, "float", "a")
            add(A, False, allp, "unit", "a", nsi_only=True, whole=False)
    # (b) undirected, n = 5 (and n = 6 in the thorough tier): every isomorphism class x every
    #     ordered pair of disjoint non-empty subsets, each list in a seeded random order
    #     (quick, n = 6: a seeded sample of 30 classes x 40 pairs)
    for n in (5, 6):
        classes = iso_classes(n)
        sp_ = subset_pairs(n)
        if quick and n == 6:
            pick = rng.choice(len(classes), size=30, replace=False)
            classes = [classes[i] for i in sorted(pick)]
        for A in classes:
            prs = sp_
            if quick and n == 6:
                prs = [sp_[i] for i in sorted(rng.choice(len(sp_), size=40, replace=False))]
            pairs = [(shuffled(rng, S), shuffled(rng, T)) for S, T in prs]
            add(A, False, pairs, "float", "b")
            # unit / small-integer weights: many pairs with W_P == W_Q, n.s.i. methods only
            kind = "unit" if rng.rand() < 0.5 else "int"
            sub = pairs[::4] if quick else (pairs[::2] if n == 6 else pairs)
            add(A, False, sub, kind, "b", nsi_only=True, whole=False)
    # (c) directed: n <= 3 all labelled digraphs x all list pairs in all orders; n = 4 every
    #     isomorphism class (quick: a sample) x every subset pair in a random order
    for n in (2, 3):
        allp = list_pairs_all_orders(n)
        pairs_bits = [(i, j) for i in range(n) for j in range(n) if i != j]
        for bits in range(1 << len(pairs_bits)):
            A = [[0] * n for _ in range(n)]
            for k, (i, j) in enumerate(pairs_bits):
                if bits >> k & 1:
                    A[i][j] = 1
            add(A, True, allp, "float", "c")
    classes = iso_classes(4, directed=True)
    if quick:
        classes = [classes[i] for i in sorted(rng.choice(len(classes), size=40, replace=False))]
    sp4 = subset_pairs(4)
    for A in classes:
        add(A, True, [(shuffled(rng, S), shuffled(rng, T)) for S, T in sp4], "float", "c")
    # (d) seeded random larger graphs (sparse ones are disconnected), random disjoint lists
    nrand = 30 if quick else 200
    for k in range(nrand):
        directed = (k % 3 == 2)
        n = int(rng.randint(7, 11 if quick else 15))
        p = float(rng.choice([0.12, 0.2, 0.35, 0.6, 0.85]))
        A = random_adj(rng, n, p, directed)
        pairs = []
        for _ in range(4 if quick else 8):
            perm = list(rng.permutation(n))
            a = int(rng.randint(1, n))
            b = int(rng.randint(1, n - a + 1))
            pairs.append((perm[:a], perm[a:a + b]))
        add(A, directed, pairs, ["float", "int", "unit"][k % 3] if not directed else "float", "d")
    # (e) two components / isolated nodes explicitly (disconnected pairs)
    for k in range(6 if quick else 30):
        n1, n2 = int(rng.randint(2, 5)), int(rng.randint(2, 5))
        n = n1 + n2 + 1                                 # one isolated node
        A = np.zeros((n, n), dtype=int)
        A[:n1, :n1] = np.array(random_adj(rng, n1, 0.8, False))
        A[n1:n1 + n2, n1:n1 + n2] = np.array(random_adj(rng, n2, 0.8, False))
        perm = rng.permutation(n)
        A = A[perm][:, perm].tolist()
        pairs = []
        for _ in range(6):
            pm = list(rng.permutation(n))
            a = int(rng.randint(1, n))
            b = int(rng.randint(1, n - a + 1))
            pairs.append((pm[:a], pm[a:a + b]))
        add(A, False, pairs, "float", "e")
    # (f) CoupledClimateNetwork wrappers on synthetic two-layer data
    ccn_graphs = []
    for n in (3, 4):
        for A in iso_classes(n):
            for N1 in range(1, n):
                ccn_graphs.append((A, N1))
    if not quick:
        for A in iso_classes(5):
            for N1 in (1, 2, 3, 4):
                ccn_graphs.append((A, N1))
    for k in range(10 if quick else 60):
        n = int(rng.randint(5, 10))
        A = random_adj(rng, n, float(rng.choice([0.2, 0.4, 0.7])), False)
        ccn_graphs.append((A, int(rng.randint(1, n))))
    for A, N1 in ccn_graphs:
        n = len(A)
        # relabel randomly so that the layer split is not tied to the canonical labelling
        perm = rng.permutation(n)
        A = np.asarray(A)[perm][:, perm].tolist()
        lat = np.round(rng.uniform(-80, 80, size=n), 3).tolist()
        lon = np.round(rng.uniform(0, 359, size=n), 3).tolist()
        tasks.append({"kind": "ccn", "A": A, "N1": N1, "lat": lat, "lon": lon})
    # (g) large cross degrees: networks of a few hundred nodes (own random streams)
    tasks.extend(large_tasks(tier, seed))
    return tasks


SCOPE = (
    "InteractingNetworks: every cross_*/internal_*/nsi_cross_*/nsi_internal_* method (plus number_*_links, "
    "total_cross_degree, average_cross_closeness, local/global_efficiency, subnetwork, the *_sparse twins) on "
    "(a) undirected graphs n<=4: all isomorphism classes x all ordered pairs of disjoint non-empty node lists in "
    "all orders; (b) n=5 (thorough: and n=6): all isomorphism classes x all ordered pairs of disjoint non-empty "
    "subsets, each list in a seeded random order (quick: n=5 complete, n=6 a seeded sample of 30 of the 156 classes x "
    "40 of the 602 subset pairs); (c) directed graphs (methods defined for them): all labelled digraphs n<=3 x all list pairs in "
    "all orders, n=4 all 218 classes (quick: 40) x all subset pairs; (d) seeded random graphs n=7..14 (quick "
    "7..10), p in {.12,.2,.35,.6,.85}, directed every third, random disjoint lists in random order; (e) graphs "
    "with two components and an isolated node; node weights: random floats, unit and small-integer weights (the "
    "latter two for the n.s.i. methods); a random positive link attribute (symmetric if undirected) as link "
    "length / strength; whole-network limit P=Q=V in sorted and random order for every graph; "
    "(f) CoupledClimateNetwork built from two GeoGrids and a two-valued similarity matrix thresholded at 0.5: all "
    "graphs n<=4 (thorough n<=5) x all layer splits after random relabelling, random graphs n=5..9. "
    "(g) large cross degrees (check names <method>/large-cross-degree[-clause]; oracle = the same definitions "
    "vectorised with NumPy on int64/float64 blocks, cross-checked against the pure-Python oracle on 24 small graphs "
    "at start-up): seeded networks with N=330..665 nodes, node numbers randomly permuted; layout 1: first group = "
    "one node each of cross degree 126,127,128,254,255,256,257,258,299,300,301,|Q|-1,|Q| plus nodes of degree 0, 1, "
    "2..6, second group |Q|=305..430 with internal link density .05...1 (up to > 65535 triangles at one node); "
    "layout 2: 310..340 first-group nodes with cross degrees cycling through 126,127,128,254,255,256,257,258,|Q|, "
    "|Q|=262..285, > 65535 cross links and (dense variants) > 32767 internal links; sparse Bernoulli background "
    "links (p=.01...06) to/among 8..39 further nodes; directed (prescribed cross out- and in-degrees) and "
    "undirected; float weights or integer weights with W_P == W_Q; a random link attribute on the sparser layout-1 "
    "networks. Per network: every one-list method on P and on Q, every two-list method on (P,Q) and (Q,P), the "
    "whole-network limit in a random order; the pure-Python `_sparse` clustering twins on first lists of one node "
    "of prescribed cross degree (quick: one node of degree >= 256 per twin and network; thorough: every degree >= 126, "
    "and the 11 nodes of degree <= 258 together for the transitivity twin). Quick: 4 + 2 networks, thorough 8 + 5. "
    "Tolerance rtol 1e-9 / atol 1e-12 (all kernels float64); grid distances (float32) atol 5e-4."
)
RULE = (
    "A case is (graph, weights, ordered list pair (P,Q)) or (graph, whole-network order) or (coupled network); "
    "distinct by graph code + weight kind + the two lists. Non-trivial: at least one link between P and Q "
    "(whole-network: graph has a link; coupled: at least one cross-layer link). evaluations counts every single "
    "contract clause evaluated (method x clause x case). Where the definition is 0/0 (no finite cross path, "
    "single-node internal density, n.s.i. cross transitivity without cross links, ...) nothing is demanded "
    "except that no exception other than ZeroDivisionError is raised. Known finding #19 is confined to the "
    "check names nsi_cross_average_path_length/definition and /arg-symmetry (pairs with W_P != W_Q). "
    "Large-cross-degree family: a case is (generator record, part) with part = pair (all methods on P, Q, (P,Q), "
    "(Q,P)), whole, or one `_sparse` twin on one first list; every such case has a first-list node with more "
    "than 256 cross neighbours and is counted as non-trivial."
)


def replay(rep, wit):
    col = Collector()
    kind = wit.get("kind")
    if kind == "ccn":
        check_ccn(col, wit["A"], wit["N1"], wit["lat"], wit["lon"], wit)
        key = "replay-ccn"
    elif kind == "large":
        col = LargeCollector()
        part = wit["part"]
        if part == "pair" and wit.get("P") is not None:
            # the witness may name the swapped pair; the part always evaluates both orders
            run_large_part(col, wit["gen"], part)
        else:
            run_large_part(col, wit["gen"], part, wit.get("P"), wit.get("Q"))
        key = "replay-large"
    else:
        A, directed, w, L = wit["A"], wit["directed"], wit["w"], wit["L"]
        net = build_net(A, directed, w, L)
        sp = Spec(A, directed, w, L)
        with quiet():
            if kind == "whole":
                check_whole(col, net, sp, wit["order"], wit)
            else:
                nsi_only = wit.get("nsi_only", False)
                P, Q = list(wit["P"]), list(wit["Q"])
                check_internal(col, net, sp, P, wit, nsi_only)
                if Q:
                    check_internal(col, net, sp, Q, wit, nsi_only)
                    check_cross(col, net, sp, P, Q, wit, nsi_only)
        key = "replay"
    rep.case(key, True, sample=wit)
    rep.evaluations += max(col.evals - 1, 0)
    for ch, w_, d in col.failures:
        rep.fail(ch, w_, d)


def main():
    args = parse_args()
    rep = Report(PROP, args, SCOPE, RULE)
    try:
        import pyunicorn.core  # noqa: F401
        import pyunicorn.climate  # noqa: F401
    except Exception:
        traceback.print_exc()
        sys.exit(3)
    if args.replay:
        with open(args.replay) as f:
            wit = json.load(f)
        wit = wit.get("witness", wit)
        replay(rep, wit)
        rep.finish()
        return
    selfcheck = oracle_selfcheck(args.seed)
    if selfcheck:
        print("\n".join(selfcheck[:5]), file=sys.stderr)
        sys.exit(3)
    tasks = make_tasks(args.tier, args.seed)
    # heavy tasks first for better balance (the large-cross-degree tasks take seconds each)
    def _cost(t):
        if t["kind"] == "large":
            return 1e9 * t.get("cost", 1)
        return len(t.get("pairs", [])) * len(t["A"]) ** 2
    order = sorted(range(len(tasks)), key=lambda i: -_cost(tasks[i]))
    tasks = [tasks[i] for i in order]
    nproc = min(8, mp.cpu_count())
    ctx = mp.get_context("fork")
    try:
        with ctx.Pool(nproc) as pool:
            results = pool.imap(run_task, tasks, chunksize=1)
            results = list(results)
    except Exception:
        traceback.print_exc()
        sys.exit(3)
    harness_errors = 0
    step = max(1, len(results) // 8)
    allfail = []
    for ti, (evals, failures, cases) in enumerate(results):
        for key, nt, sample in cases:
            keep = ti % step == 0 or (isinstance(sample, dict) and sample.get("family") is not None)
            rep.case(key, nt, sample=sample if keep else None)
        rep.evaluations += max(evals - len(cases), 0)
        allfail.extend(failures)
    # record the most readable witnesses first (Report keeps the first three per check):
    # small graphs with many links, i.e. connected ones, before sparse / edgeless ones
    def _rank(f):
        A = f[1].get("A") if isinstance(f[1], dict) else None
        if not A:
            return (1, 0, 0)
        n = len(A)
        links = sum(map(sum, A))
        return (0, -round(links / max(1, n * (n - 1)), 3), n)
    best = {}
    for i, f in enumerate(allfail):
        best.setdefault(f[0], []).append((_rank(f), i))
    first = set()
    for ch, lst in best.items():
        lst.sort()
        first.update(i for _, i in lst[:3])
    for i in sorted(first, key=lambda i: (allfail[i][0], _rank(allfail[i]))):
        rep.fail(*allfail[i])
    for i, (ch, w_, d) in enumerate(allfail):
        if ch == "harness/error":
            harness_errors += 1
            print(d, file=sys.stderr)
        if i not in first:
            rep.fail(ch, w_, d)
    rep.skip("number_cross_links / cross_link_density raise NetworkError('Not implemented yet') on directed "
             "networks: not evaluated there; clustering, betweenness and n.s.i. methods are evaluated on "
             "undirected networks only (kernels assume symmetry)")
    rep.skip("0/0 cases (nsi_cross_transitivity without any cross link raises ZeroDivisionError; "
             "cross/internal average path length without any finite path gives nan; internal_link_density "
             "of a one-node list raises ZeroDivisionError): nothing demanded")
    rep.skip("subnetwork() / CoupledClimateNetwork.network_i() of a one-node list raise ZeroDivisionError in the "
             "Network constructor (link density 0/0): outside C11, exercised for >= 2 nodes only")
    rep.skip("link attributes are not used on graphs without links (igraph cannot hold the attribute)")
    rep.skip("large-cross-degree family: cross degrees above 32767 are not reached -- the Network constructor "
             "itself calls degree(), which builds the dense N x N adjacency (N >= 32769: > 4 GB), beyond the 1 GB "
             "bound of this harness; the `_sparse` whole-network clauses and the `_sparse` twins on long first lists "
             "are left out there (O(|P| |Q|^2) sparse look-ups: ~1-3 s per first-list node); "
             "nsi_cross_average_path_length is evaluated there only for W_P == W_Q (integer-weight networks) and "
             "in the whole-network limit, so that known finding #19 stays confined to its two check names")
    rep.skip("whole-network limit for closeness / n.s.i. closeness / n.s.i. average path length on connected "
             "graphs only and for transitivity on graphs with a connected triple (the single-network methods "
             "use other conventions for unconnected pairs / return nan)")
    rep.finish()
    if harness_errors:
        sys.exit(3)


if __name__ == "__main__":
    main()
