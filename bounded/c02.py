"""Bounded stand-in for C02: node-splitting invariance of all n.s.i. measures.

Contract evaluated on the real code (metamorphic, the transformation is the oracle's):

  for a network (A, w, link attributes) and the network obtained from it by the *harness's own*
  twin split(s) (see `twin_split`), with  origin[i] = the original node that node i of the split
  network descends from,

    global value      :  m(split) == m(orig)
    per-node value    :  m(split)[i] == m(orig)[origin[i]]          for every i
                         (untouched nodes equal, both twins carry the parent's value)
    per-pair value    :  m(split)[i,j] == m(orig)[i,j]              for untouched i, j
    node-list measures:  the lists are given in arbitrary (mostly non-ascending) order; each twin is
                         inserted at an arbitrary position of the list its parent belongs to;
                         list-indexed results follow the per-node rule position by position

The twin split is implemented here from the definition in the property text; Network.splitted_copy
is only cross-checked against it (checks `splitted_copy/*`).

Run:  cd /verif && PYTHONPATH=/verif .venv/bin/python bounded/c02.py --tier quick --seed 0 --out /tmp/c02.json
"""
import os
for _v in ("OMP_NUM_THREADS", "OPENBLAS_NUM_THREADS", "MKL_NUM_THREADS"):
    os.environ.setdefault(_v, "1")          # workers are processes; no BLAS thread fan-out

import inspect
import itertools
import json
import multiprocessing as mp
import sys
import traceback

import numpy as np

from bounded.common import (parse_args, Report, jsonable, quiet, random_graph)

PROP = "C02"
KEY = "lw"            # name of the link attribute used for the link-weighted variants
TW = 0.37             # typical weight for the corrected variants (off the rational weight grid)
RTOL = 1e-9           # float64 algebra
RTOL_INV = 1e-7       # results of sparse LU / matrix inversion (random-walk betweenness)
RTOL_EIG = 1e-4       # ARPACK eigsh(tol=1e-8) in shift-invert mode with sigma=W**2: eigenvector error
#                       <~ 1e-8 * W / relative spectral gap; compared only when that gap >= 3e-3
W_GRID = [0.5, 1.0, 1.5, 2.0, 3.0]
P_GRID = [0.25, 0.5, 2.0 / 3.0]
N_WORKERS = 8


# --------------------------------------------------------------------------- the oracle's transformation

def twin_split(A, w, attrs, v, p):
    """Replace node v by two mutually linked twins (v keeps index v, the new twin gets index N).

    Both twins have v's in- and out-neighbours and v's link attributes towards them; their
    weights are (1-p)*w[v] and p*w[v].  The link between the twins is the image of v's self-loop
    of the n.s.i. convention (A+ = A + I); pyunicorn link attributes carry no self-loop value
    (`link_attribute` has a zero diagonal), so its attribute is 0."""
    A = np.asarray(A)
    N = A.shape[0]
    A2 = np.zeros((N + 1, N + 1), dtype=np.int8)
    for i in range(N):
        for j in range(N):
            A2[i, j] = A[i, j]
    for j in range(N):
        A2[N, j] = A[v, j]
        A2[j, N] = A[j, v]
    A2[v, N] = 1
    A2[N, v] = 1
    w2 = np.zeros(N + 1)
    w2[:N] = w
    w2[N] = p * w[v]
    w2[v] = w[v] - w2[N]
    attrs2 = {}
    for name, W in attrs.items():
        W = np.asarray(W, dtype=float)
        W2 = np.zeros((N + 1, N + 1))
        W2[:N, :N] = W
        for j in range(N):
            W2[N, j] = W[v, j]
            W2[j, N] = W[j, v]
        W2[v, N] = 0.0
        W2[N, v] = 0.0
        W2[N, N] = 0.0
        attrs2[name] = W2
    return A2, w2, attrs2


def apply_splits(A, w, attrs, splits):
    """Apply the splits in turn.  Returns (A', w', attrs', origin) with origin[i] the original node."""
    origin = list(range(len(w)))
    for v, p in splits:
        A, w, attrs = twin_split(A, w, attrs, v, p)
        origin.append(origin[v])
    return A, w, attrs, origin


def build(cls, A, w, directed, attrs):
    Ad = np.array(A, dtype=np.int8)
    adj = Ad
    n = Ad.shape[0]
    if n >= 3 and (int(Ad.sum()) + n) % 3 == 0:
        # the same 0/1 matrix as a SciPy sparse matrix that physically stores some of its zeros (what `M.data = M.data > t`
        # or `M[i, j] = 0` leave behind): a non-link whatever the storage says
        import scipy.sparse as sp_
        li, lj = np.nonzero(Ad)
        zi, zj = np.nonzero((Ad == 0) & ~np.eye(n, dtype=bool))
        keep = (zi * 7 + zj * 3) % 4 == 0
        if not directed:
            keep &= True
        rows = np.concatenate([li, zi[keep]])
        cols = np.concatenate([lj, zj[keep]])
        data = np.concatenate([np.ones(len(li), dtype=np.int8), np.zeros(int(keep.sum()), dtype=np.int8)])
        adj = sp_.csc_matrix(sp_.coo_matrix((data, (rows, cols)), shape=(n, n)))
    net = cls(adjacency=adj, directed=bool(directed),
              node_weights=np.array(w, dtype=float), silence_level=3)
    for name, W in attrs.items():
        net.set_link_attribute(name, np.array(W, dtype=float))
    return net


# --------------------------------------------------------------------------- measure registry
# kind: "g" global scalar, "n" per node [N], "p" per pair [N,N], "l1" indexed by list1,
#       "bins" bin bounds of a histogram (a tuple element), "dict" dict of g/n entries

class M:
    def __init__(self, name, method, kind, call, rtol=RTOL, undirected_only=False,
                 directed_only=False, needs_lists=False, connected_only=False, cls="Network"):
        self.name, self.method, self.kind, self.call = name, method, kind, call
        self.rtol, self.undirected_only, self.directed_only = rtol, undirected_only, directed_only
        self.needs_lists, self.connected_only, self.cls = needs_lists, connected_only, cls


def _variants(method, kind, key=True, tw=True, **kw):
    out = []
    for k in ([None, KEY] if key else [None]):
        for t in ([None, TW] if tw else [None]):
            tag = method + ("[key]" if k else "") + ("[tw]" if t else "")
            args = {}
            if k:
                args["key"] = k
            if t:
                args["typical_weight"] = t

            def call(net, ctx, _m=method, _a=args):
                return getattr(net, _m)(**_a)
            out.append(M(tag, method, kind, call, **kw))
    return out


def registry():
    R = []
    # degrees / strengths
    for m in ("nsi_degree", "nsi_indegree", "nsi_outdegree"):
        R += _variants(m, "n")
    R += _variants("nsi_bildegree", "n", key=False)
    # motif clustering (directed in/out/mid/cycle), link-weighted and corrected
    for m in ("nsi_local_cyclemotif_clustering", "nsi_local_midmotif_clustering",
              "nsi_local_inmotif_clustering", "nsi_local_outmotif_clustering"):
        R += _variants(m, "n")
    # undirected clustering family
    R += _variants("nsi_local_clustering", "n", key=False, undirected_only=True)
    for m, kind in (("nsi_global_clustering", "g"), ("nsi_transitivity", "g"),
                    ("nsi_local_soffer_clustering", "n"),
                    ("nsi_average_neighbors_degree", "n"), ("nsi_max_neighbors_degree", "n"),
                    ("nsi_laplacian", "p")):
        R.append(M(m, m, kind, (lambda net, ctx, _m=m: getattr(net, _m)()), undirected_only=True))
    R.append(M("nsi_twinness", "nsi_twinness", "p", lambda net, ctx: net.nsi_twinness()))
    # path based
    for m, kind in (("nsi_average_path_length", "g"), ("nsi_closeness", "n"),
                    ("nsi_harmonic_closeness", "n"), ("nsi_exponential_closeness", "n"),
                    ("nsi_global_efficiency", "g")):
        R.append(M(m, m, kind, (lambda net, ctx, _m=m: getattr(net, _m)())))
    R.append(M("distance_based_measures[nsi_*]", "distance_based_measures", "dict",
               lambda net, ctx: {k: v for k, v in
                                 net.distance_based_measures(replace_inf_by=np.inf).items()
                                 if k.startswith("nsi_")}))
    # betweenness family
    R.append(M("nsi_betweenness", "nsi_betweenness", "n",
               lambda net, ctx: net.nsi_betweenness(), undirected_only=True))
    R.append(M("nsi_betweenness[sources,targets]", "nsi_betweenness", "n",
               lambda net, ctx: net.nsi_betweenness(sources=ctx["l1"], targets=ctx["l2"]),
               undirected_only=True, needs_lists=True))
    R.append(M("nsi_interregional_betweenness", "nsi_interregional_betweenness", "n",
               lambda net, ctx: net.nsi_interregional_betweenness(sources=ctx["l2"], targets=ctx["l1"]),
               undirected_only=True, needs_lists=True))
    for ex in (True, False):
        for sm in ("neighbors", "twinness"):
            tag = "nsi_arenas_betweenness[%s,%s]" % ("excl" if ex else "incl", sm)
            R.append(M(tag, "nsi_arenas_betweenness", "n",
                       (lambda net, ctx, _e=ex, _s=sm:
                        net.nsi_arenas_betweenness(exclude_neighbors=_e, stopping_mode=_s)),
                       rtol=RTOL_INV, undirected_only=True))
    for ale in (False, True):
        tag = "nsi_newman_betweenness" + ("[add_local_ends]" if ale else "")
        R.append(M(tag, "nsi_newman_betweenness", "n",
                   (lambda net, ctx, _a=ale: net.nsi_newman_betweenness(add_local_ends=_a)),
                   rtol=RTOL_INV, undirected_only=True))
    R.append(M("nsi_eigenvector_centrality", "nsi_eigenvector_centrality", "n",
               lambda net, ctx: net.nsi_eigenvector_centrality(),
               rtol=RTOL_EIG, undirected_only=True, connected_only=True))
    for al in (None, 0.3):
        tag = "nsi_spreading" + ("[alpha]" if al else "")
        R.append(M(tag, "nsi_spreading", "n", (lambda net, ctx, _a=al: net.nsi_spreading(alpha=_a))))
    # histograms: only the bin bounds are functions of the n.s.i. degree range
    # (the number of bins is int(k_max/k_min)+1; the ratio is prepended so that `compare` can leave
    # out the inputs where it sits on an integer, i.e. on a jump of the bin count)
    def _ratio(net):
        k = net.nsi_degree()
        return float(k.max() / k.min())
    R.append(M("nsi_degree_histogram[bins]", "nsi_degree_histogram", "bins",
               lambda net, ctx: [_ratio(net)] + list(net.nsi_degree_histogram()[2])))
    R.append(M("nsi_degree_cumulative_histogram[bins]", "nsi_degree_cumulative_histogram", "bins",
               lambda net, ctx: [_ratio(net)] + list(net.nsi_degree_cumulative_histogram()[1])))

    # InteractingNetworks
    def two(m):
        return lambda net, ctx: getattr(net, m)(ctx["l1"], ctx["l2"])

    def one(m, which):
        return lambda net, ctx: getattr(net, m)(ctx[which])
    for m, kind in (("nsi_cross_degree", "l1"), ("nsi_cross_mean_degree", "g"),
                    ("nsi_cross_local_clustering", "l1"), ("nsi_cross_global_clustering", "g"),
                    ("nsi_cross_edge_density", "g"), ("nsi_cross_transitivity", "g"),
                    ("nsi_cross_closeness_centrality", "l1"),
                    ("nsi_cross_average_path_length", "g")):
        R.append(M(m, m, kind, two(m), needs_lists=True, cls="InteractingNetworks",
                   undirected_only=m not in DIRECTED_OK_INTERACTING))
    R.append(M("nsi_cross_betweenness", "nsi_cross_betweenness", "n", two("nsi_cross_betweenness"),
               needs_lists=True, undirected_only=True, cls="InteractingNetworks"))
    for m in ("nsi_internal_degree", "nsi_internal_local_clustering",
              "nsi_internal_closeness_centrality"):
        for which in ("l1", "l2"):
            R.append(M("%s[%s]" % (m, which), m, which, one(m, which), needs_lists=True,
                       cls="InteractingNetworks", undirected_only=m not in DIRECTED_OK_INTERACTING))
    return R


# InteractingNetworks: "So far, most methods only give meaningful results for undirected networks!"
# The weighted-sum measures below are well defined for directed networks too (row = out-links).
DIRECTED_OK_INTERACTING = {"nsi_cross_degree", "nsi_cross_mean_degree", "nsi_cross_edge_density",
                           "nsi_internal_degree"}

# methods whose name starts with nsi_ but which are deliberately not compared in full
PARTIAL = {
    "nsi_degree_histogram": "frequency histogram over *nodes* (each twin counted as one node): the "
                            "frequencies are not node-splitting invariant and are not documented as "
                            "such; only the bin bounds are compared",
    "nsi_degree_cumulative_histogram": "as nsi_degree_histogram: only the bin bounds are compared",
}
SKIP_DIRECTED = {
    "nsi_eigenvector_centrality": "directed networks: the method hands a non-symmetric matrix to "
                                  "the symmetric ARPACK solver eigsh (outside the dependency's contract); "
                                  "disconnected networks: dominant eigenvector not unique",
    "nsi_newman_betweenness": "directed networks: random-walk betweenness is defined for undirected "
                              "networks (the method builds the component as directed=False and grounds "
                              "the last node); result depends on the grounded node for non-symmetric A",
    "nsi_arenas_betweenness": "directed networks: the method builds each component as an undirected "
                              "Network from a non-symmetric matrix; not a documented variant",
    "nsi_betweenness": "directed networks: raises AssertionError (neighbour lists assume symmetric A)",
    "InteractingNetworks clustering/transitivity/closeness/path-length/betweenness n.s.i. measures":
        "directed networks: the class is documented as meaningful for undirected networks only; the "
        "cross clustering/transitivity kernels visit each unordered pair {p,q} of list 2 once and "
        "double it, which presumes a symmetric adjacency (on directed input the value depends on the "
        "list order and is not split-invariant); only nsi_cross_degree, nsi_cross_mean_degree, "
        "nsi_cross_edge_density, nsi_internal_degree are run on directed networks",
}


# --------------------------------------------------------------------------- evaluation

class Exc:
    def __init__(self, e):
        self.t = type(e).__name__
        self.msg = str(e)[:120]

    def __repr__(self):
        return "raised %s(%s)" % (self.t, self.msg)


def evaluate(nets, ctx, measures, directed, connected):
    out = {}
    for m in measures:
        if m.undirected_only and directed:
            continue
        if m.connected_only and not connected:
            continue
        if m.needs_lists and ctx.get("l1") is None:
            continue
        net = nets[m.cls]
        try:
            with quiet():
                r = m.call(net, ctx)
            if isinstance(r, dict):
                r = {k: np.array(v, dtype=float) for k, v in r.items()}
            else:
                r = np.array(r, dtype=float)
        except BaseException as e:       # incl. SystemExit from the random-walk master loops
            if isinstance(e, KeyboardInterrupt):
                raise
            r = Exc(e)
        out[m.name] = r
    return out


def _close(a, b, rtol):
    a = np.asarray(a, dtype=float)
    b = np.asarray(b, dtype=float)
    if a.shape != b.shape:
        return False
    fin = np.isfinite(a)
    scale = float(np.max(np.abs(a[fin]))) if fin.any() else 1.0
    return bool(np.allclose(a, b, rtol=rtol, atol=rtol * max(1.0, scale), equal_nan=True))


def compare(kind, r0, r1, origin, n0, ctx0, ctx1, rtol):
    """Return None if the contract holds, else a text."""
    if isinstance(r0, Exc) or isinstance(r1, Exc):
        if isinstance(r0, Exc) and isinstance(r1, Exc) and r0.t == r1.t:
            return None
        return "original: %r ; split: %r" % (r0, r1)
    if kind == "dict":
        for k in r0:
            kk = "g" if r0[k].ndim == 0 else "n"
            msg = compare(kk, r0[k], r1[k], origin, n0, ctx0, ctx1, rtol)
            if msg:
                return "[%s] %s" % (k, msg)
        return None
    if kind == "bins":
        for r in (r0, r1):
            if abs(r[0] - round(r[0])) < 1e-6:       # k_max/k_min on an integer: bin count jumps
                return None
        r0, r1 = r0[1:], r1[1:]
    if kind in ("g", "bins"):
        if _close(r0, r1, rtol):
            return None
        return "original %s ; split %s" % (r0.tolist(), r1.tolist())
    if kind == "n":
        exp = r0[origin]
        if _close(exp, r1, rtol):
            return None
        return "expected (orig[origin]) %s ; split gives %s" % (exp.tolist(), r1.tolist())
    if kind in ("l1", "l2"):
        L0, L1 = ctx0[kind], ctx1[kind]
        pos = {node: k for k, node in enumerate(L0)}
        exp = np.array([r0[pos[origin[i]]] for i in L1])
        if _close(exp, r1, rtol):
            return None
        return "lists %s -> %s: expected %s ; split gives %s" % (L0, L1, exp.tolist(), r1.tolist())
    if kind == "p":
        counts = np.bincount(origin, minlength=n0)
        unt = [i for i in range(n0) if counts[i] == 1]
        a = r0[np.ix_(unt, unt)]
        b = r1[np.ix_(unt, unt)]
        if _close(a, b, rtol):
            return None
        return "untouched nodes %s: original %s ; split %s" % (unt, a.tolist(), b.tolist())
    raise ValueError(kind)


def is_connected(A):
    A = np.asarray(A)
    n = len(A)
    if n == 0:
        return True
    S = ((A + A.T) > 0)
    seen = {0}
    stack = [0]
    while stack:
        i = stack.pop()
        for j in range(n):
            if S[i, j] and j not in seen:
                seen.add(j)
                stack.append(j)
    return len(seen) == n


def reach(A):
    """Boolean reachability (directed paths, reflexive) by Warshall."""
    A = np.asarray(A)
    n = len(A)
    Rm = (A > 0) | np.eye(n, dtype=bool)
    for k in range(n):
        Rm = Rm | (Rm[:, [k]] & Rm[[k], :])
    return Rm


def ill_conditioned(m, case, ctx0, r0):
    """Probe used only after a mismatch: perturb the weights of the ORIGINAL network by
    rtol*1e-5 relative (1e-14 for the 1e-9 clauses) and re-evaluate the original.  If that moves
    the original value by more than rtol/10 the condition number there exceeds 1e4 (zero
    denominators of the corrected variants, bin-count jumps) and the mismatch says nothing."""
    from pyunicorn.core import Network, InteractingNetworks
    cls = {"Network": Network, "InteractingNetworks": InteractingNetworks}[m.cls]
    w = np.array(case["w"], dtype=float)
    sgn = np.where(np.arange(len(w)) % 2 == 0, 1.0, -1.0)
    if isinstance(r0, (dict, Exc)):
        return False
    try:
        for s_ in (sgn, -sgn):
            net = build(cls, case["A"], w * (1 + m.rtol * 1e-5 * s_), case["directed"], case["attrs"])
            with quiet():
                r = m.call(net, ctx0)
            if not _close(r0, np.array(r, dtype=float), m.rtol / 10.0):
                return True
        return False
    except BaseException as e:
        if isinstance(e, KeyboardInterrupt):
            raise
        return True


# measures that replace unreachable pairs by N-1 (N = number of nodes, which a split changes)
UNREACHABLE_SENSITIVE = {"nsi_cross_closeness_centrality": ("l1", "l2"),
                         "nsi_cross_average_path_length": ("l1", "l2"),
                         "nsi_internal_closeness_centrality": None}   # (list, list) of the variant
RANDOM_WALK = ("nsi_newman_betweenness", "nsi_arenas_betweenness")


def classify(m, stage, A, Rm, conn0, ctx0, splits, origin, base_r, got_r):
    """Stable clause name of a refuted comparison.  Three classes of inputs on which the current
    code is known to violate the property get their own clause so that they stay apart from the
    general `split` / `split-iterated` clauses."""
    if m.method in UNREACHABLE_SENSITIVE:
        which = UNREACHABLE_SENSITIVE[m.method] or (m.kind, m.kind)
        if not bool(Rm[np.ix_(ctx0[which[0]], ctx0[which[1]])].all()):
            return "split-unreachable-pairs"
    if m.method == "nsi_arenas_betweenness" and "twinness" in m.name and not conn0:
        return "split-disconnected-twinness"
    if m.method in RANDOM_WALK and not isinstance(base_r, Exc) and not isinstance(got_r, Exc):
        # only if every mismatching entry belongs to a twin of a split node that was isolated
        S = (np.asarray(A) + np.asarray(A).T)
        iso = {int(origin[v]) for v, _ in splits if S[origin[v]].sum() == 0}
        exp = np.asarray(base_r)[origin]
        scale = max(1.0, float(np.max(np.abs(exp[np.isfinite(exp)]))) if np.isfinite(exp).any() else 1.0)
        bad = ~np.isclose(exp, got_r, rtol=m.rtol, atol=m.rtol * scale, equal_nan=True)
        if iso and bad.any() and all(int(origin[i]) in iso for i in np.nonzero(bad)[0]):
            return "split-singleton-component"
    clause = "split" if stage == 1 else "split-iterated"
    if isinstance(base_r, Exc) != isinstance(got_r, Exc):
        clause += "-raises"
    return clause


def xcheck_splitted_copy(Ap, wp, attrsp, directed, v, p, A1, w1, attrs1, fail):
    """Network.splitted_copy against the harness's transformation.  Returns #clauses evaluated."""
    from pyunicorn.core import Network
    try:
        with quiet():
            prev = build(Network, Ap, wp, directed, attrsp)
            have = sorted(prev.graph.es.attributes())      # empty on edgeless graphs
            sc = prev.splitted_copy(node=int(v), proportion=float(p))
            got_A = sc.adjacency
            got_w = np.array(sc.node_weights, dtype=float)
            names = sorted(sc.graph.es.attributes())
            got_attr = {k: sc.link_attribute(k) for k in names}
        if got_A.shape != A1.shape or (got_A != A1).any():
            fail("splitted_copy/adjacency", "library %s ; definition %s" % (got_A.tolist(), A1.tolist()))
        if not _close(w1, got_w, 1e-12) or abs(got_w.sum() - wp.sum()) > 1e-12 * max(1.0, wp.sum()):
            fail("splitted_copy/node_weights", "library %s ; definition %s" % (got_w.tolist(), w1.tolist()))
        if sc.directed != directed:
            fail("splitted_copy/directed", "library %r ; expected %r" % (sc.directed, directed))
        if names != have or any(not _close(attrs1[k], got_attr[k], 1e-12) for k in names):
            fail("splitted_copy/link_attribute", "library %s ; definition %s" % (
                jsonable(got_attr), jsonable(attrs1)))
    except BaseException as e:
        if isinstance(e, KeyboardInterrupt):
            raise
        fail("splitted_copy/raises", repr(e))
    # documented: "If negative, N + index is used" - the same node addressed from the end, and
    # (for the last node and an even split) the default arguments, give the same split
    try:
        n0 = int(np.asarray(Ap).shape[0])
        with quiet():
            prev = build(Network, Ap, wp, directed, attrsp)
            alts = [("node=%d" % (int(v) - n0), prev.splitted_copy(node=int(v) - n0, proportion=float(p)))]
            if int(v) == n0 - 1 and float(p) == 0.5:
                alts.append(("default arguments", prev.splitted_copy()))
            for how, sc in alts:
                gA = sc.adjacency
                gw = np.array(sc.node_weights, dtype=float)
                if gA.shape != A1.shape or (gA != A1).any() or not _close(w1, gw, 1e-12):
                    fail("splitted_copy/negative-index", "%s: library %s weights %s ; definition %s weights %s" % (
                        how, gA.tolist(), gw.tolist(), A1.tolist(), w1.tolist()))
    except BaseException as e:
        if isinstance(e, KeyboardInterrupt):
            raise
        fail("splitted_copy/negative-index", repr(e))
    return 5


def extend_list(L0, origin, n0, n1):
    """Node list of the split network: every new twin joins the list of the node it descends from,
    at an arbitrary position (before / between / after the other members, not necessarily next to
    its sibling).  The position is a fixed function of the list and the twin, so that a witness
    (which stores the original lists in their given, possibly non-ascending order) replays exactly."""
    L = [int(x) for x in L0]
    members = set(L)
    for i in range(n0, n1):
        if int(origin[i]) in members:
            seed = (sum((k + 1) * x for k, x in enumerate(L)) * 31 + i * 7 + len(L)) % (2 ** 31)
            L.insert(int(np.random.RandomState(seed).randint(len(L) + 1)), int(i))
    return L


def run_group(group, measures=None):
    """Evaluate the contract for all cases of one (graph, weights, link weights) group.

    group = {A, w, attrs, directed, items: [{splits: [[v,p],[u,p2]], lists: [[l1,l2], ...]}]}
    Returns dict(evals, failures, illcond, names, cases=[(key, nontrivial)])."""
    from pyunicorn.core import Network, InteractingNetworks
    measures = measures or registry()
    A = np.array(group["A"], dtype=np.int8)
    w = np.array(group["w"], dtype=float)
    attrs = {k: np.array(v, dtype=float) for k, v in group["attrs"].items()}
    directed = bool(group["directed"])
    n0 = len(w)
    res = {"evals": 0, "failures": [], "illcond": {}, "names": set(), "cases": []}
    M_nl = [m for m in measures if not m.needs_lists]
    M_l = [m for m in measures if m.needs_lists]
    conn0 = is_connected(A)
    eig_ok = conn0
    if conn0 and not directed:
        # nsi_eigenvector_centrality (the only connected_only measure) additionally needs a spectral
        # gap for ARPACK's result to be accurate to RTOL_EIG
        sw = np.sqrt(w)
        ev = np.linalg.eigvalsh(sw[:, None] * (A + np.eye(n0)) * sw[None, :])
        eig_ok = bool(len(ev) >= 2 and ev[-1] > 0 and (ev[-1] - ev[-2]) / ev[-1] >= 3e-3)
    Rm = reach(A)

    def mkcase(splits, lists):
        return {"A": A.tolist(), "w": w.tolist(), "attrs": jsonable(attrs), "directed": directed,
                "splits": jsonable(splits), "lists": jsonable(lists)}

    def mknets(A_, w_, attrs_):
        return {"Network": build(Network, A_, w_, directed, attrs_),
                "InteractingNetworks": build(InteractingNetworks, A_, w_, directed, attrs_)}

    nets0 = mknets(A, w, attrs)
    NOCTX = {"l1": None, "l2": None}
    base_nl = evaluate(nets0, NOCTX, M_nl, directed, eig_ok)
    base_l = {}

    def check(ms, base, got, ctx0, ctx1, origin, splits, stage, lists):
        for m in ms:
            if m.name not in base:
                continue
            res["evals"] += 1
            res["names"].add(m.name)
            msg = compare(m.kind, base[m.name], got[m.name], origin, n0, ctx0, ctx1, m.rtol)
            if msg is None:
                continue
            case = mkcase(splits, lists)
            if ill_conditioned(m, case, ctx0, base[m.name]):
                res["illcond"][m.name] = res["illcond"].get(m.name, 0) + 1
                continue
            clause = classify(m, stage, A, Rm, conn0, ctx0, splits, origin,
                              base[m.name], got[m.name])
            case.update({"check": "%s/%s" % (m.name, clause), "stage": stage})
            res["failures"].append((case["check"], case, msg))

    for item in group["items"]:
        all_splits = item["splits"]
        for lists in (item["lists"] or [None]):
            v0 = all_splits[0][0]
            nontriv = bool(A.sum() > 0 and (A[v0].sum() + A[:, v0].sum()) > 0)
            res["cases"].append((json.dumps([group["A"], directed, group["w"], all_splits, lists]),
                                 nontriv))
        for stage in range(1, len(all_splits) + 1):
            splits = all_splits[:stage]
            Ap, wp, attrsp, _ = apply_splits(A, w, attrs, splits[:-1])
            A1, w1, attrs1, origin = apply_splits(A, w, attrs, splits)
            origin = np.array(origin)
            nets1 = mknets(A1, w1, attrs1)
            got_nl = evaluate(nets1, NOCTX, M_nl, directed, eig_ok)
            check(M_nl, base_nl, got_nl, NOCTX, NOCTX, origin, splits, stage, None)
            for lists in (item["lists"] or []):
                lk = json.dumps(lists)
                ctx0 = {"l1": list(lists[0]), "l2": list(lists[1])}
                if lk not in base_l:
                    base_l[lk] = evaluate(nets0, ctx0, M_l, directed, eig_ok)
                ctx1 = {key: extend_list(ctx0[key], origin, n0, len(w1)) for key in ("l1", "l2")}
                got_l = evaluate(nets1, ctx1, M_l, directed, eig_ok)
                check(M_l, base_l[lk], got_l, ctx0, ctx1, origin, splits, stage, lists)

            def fail(chk, detail):
                case = mkcase(splits, None)
                case.update({"check": chk, "stage": stage})
                res["failures"].append((chk, case, detail))
            v, p = splits[-1]
            res["evals"] += xcheck_splitted_copy(Ap, wp, attrsp, directed, v, p, A1, w1, attrs1, fail)
    return res


def run_case(case, measures=None):
    group = {"A": case["A"], "w": case["w"], "attrs": case["attrs"], "directed": case["directed"],
             "items": [{"splits": case["splits"], "lists": [case["lists"]] if case.get("lists") else []}]}
    return run_group(group, measures)


# --------------------------------------------------------------------------- case generation

def graph_from_bits(n, bits, directed):
    A = np.zeros((n, n), dtype=np.int8)
    if directed:
        pairs = [(i, j) for i in range(n) for j in range(n) if i != j]
        for b, (i, j) in enumerate(pairs):
            if bits >> b & 1:
                A[i, j] = 1
    else:
        pairs = list(itertools.combinations(range(n), 2))
        for b, (i, j) in enumerate(pairs):
            if bits >> b & 1:
                A[i, j] = A[j, i] = 1
    return A


def n_graphs(n, directed):
    return 1 << (n * (n - 1) if directed else n * (n - 1) // 2)


def link_weights(rng, A, directed, grid):
    n = len(A)
    if grid:
        W = rng.choice([0.5, 1.0, 2.0, 8.0], size=(n, n))
    else:
        W = rng.uniform(0.3, 3.0, size=(n, n))
    if not directed:
        W = np.triu(W, 1)
        W = W + W.T
    return W * (np.asarray(A) != 0)


def bipartitions(n):
    """All ordered partitions of range(n) into two non-empty groups."""
    for mask in range(1, (1 << n) - 1):
        yield ([i for i in range(n) if mask >> i & 1], [i for i in range(n) if not mask >> i & 1])


def random_bipartition(rng, n):
    while True:
        mask = rng.randint(0, 2, size=n)
        if 0 < mask.sum() < n:
            return ([int(i) for i in range(n) if mask[i]], [int(i) for i in range(n) if not mask[i]])


def shuffled(rng, L):
    """The node list in arbitrary order (three times out of four; else ascending)."""
    L = [int(x) for x in L]
    if rng.randint(4) == 0:
        return sorted(L)
    return [L[i] for i in rng.permutation(len(L))]


def make_groups_for_graph(rng, A, directed, tier, exhaustive, both_weightings, scale=1.0):
    """Groups for one graph: weightings x (split node x proportions x second split) x bipartitions."""
    n = len(A)
    groups = []
    kinds = ["grid", "rand"] if both_weightings else [["grid", "rand"][int(rng.randint(2))]]
    for wkind in kinds:
        grid = wkind == "grid"
        w = rng.choice(W_GRID, size=n) if grid else rng.uniform(0.2, 3.0, size=n)
        w = w * scale       # the invariance is stated for arbitrary positive weights: totals far from N as well
        W = link_weights(rng, A, directed, grid)
        if exhaustive:
            parts = list(bipartitions(n))
            nodes = list(range(n))
        else:
            parts = [random_bipartition(rng, n) for _ in range(3 if tier == "quick" else 6)]
            nodes = [int(x) for x in rng.choice(n, size=3, replace=False)]
        order = list(rng.permutation(len(parts)))
        parts = [parts[i] for i in order]
        items = []
        for k, v in enumerate(nodes):
            p1 = float(rng.choice(P_GRID)) if grid else float(rng.uniform(0.05, 0.95))
            p2 = float(rng.choice(P_GRID)) if grid else float(rng.uniform(0.05, 0.95))
            # second split: re-split the old twin, the new twin, or split another node
            r = int(rng.randint(3))
            others = [x for x in range(n) if x != v]
            u = v if r == 0 else (n if r == 1 else int(others[int(rng.randint(len(others)))]))
            items.append({"splits": [[int(v), p1], [int(u), p2]],
                          "lists": [[shuffled(rng, a), shuffled(rng, b)]
                                    for a, b in parts[k::len(nodes)]]})
        groups.append({"A": A.tolist(), "w": [float(x) for x in w], "attrs": {KEY: W.tolist()},
                       "directed": bool(directed), "items": items})
    return groups


def gen_groups(tier, seed):
    rng = np.random.RandomState(seed)
    groups = []
    nu = 4 if tier == "quick" else 5
    nd = 3 if tier == "quick" else 4
    # (a 1-node Network cannot be built: the link density divides by N-1)
    for n in range(2, nu + 1):
        for bits in range(n_graphs(n, False)):
            groups += make_groups_for_graph(rng, graph_from_bits(n, bits, False), False, tier, True,
                                            n <= 3 or (tier == "thorough" and n <= 4))
    for n in range(2, nd + 1):
        for bits in range(n_graphs(n, True)):
            groups += make_groups_for_graph(rng, graph_from_bits(n, bits, True), True, tier, True,
                                            n <= 2 or (tier == "thorough" and n <= 3))
    nrand = 30 if tier == "quick" else 300
    for t in range(nrand):
        directed = bool(t % 2)
        n = int(rng.randint(6, 13 if tier == "quick" else 25))
        dens = float(rng.choice([0.1, 0.2, 0.35, 0.6, 0.85]))
        groups += make_groups_for_graph(rng, random_graph(rng, n, dens, directed), directed, tier,
                                        False, False)
    # weights of another order of magnitude than 1 (total weight >> N and << N): spectral shifts, normalisers and
    # thresholds that silently assume w ~ 1 show here
    rng2 = np.random.RandomState(seed + 7919)
    for t in range(12 if tier == "quick" else 90):
        directed = bool(t % 2)
        n = int(rng2.randint(5, 10 if tier == "quick" else 16))
        dens = float(rng2.choice([0.2, 0.35, 0.6, 0.85]))
        scale = [7.5, 30.0, 250.0, 0.02][t % 4]
        groups += make_groups_for_graph(rng2, random_graph(rng2, n, dens, directed), directed, tier,
                                        False, False, scale=scale)
    return groups


def _work(chunk):
    measures = registry()
    out = []
    for group in chunk:
        try:
            r = run_group(group, measures)
            out.append((r["evals"], r["failures"], r["illcond"], sorted(r["names"]), r["cases"], None))
        except BaseException as e:  # harness error on this group
            if isinstance(e, KeyboardInterrupt):
                raise
            out.append((0, [], {}, [], [], traceback.format_exc()[-800:]))
    return out


def coverage_notes(rep, measures):
    """Every nsi_* method of the two classes must be registered (or be listed with a reason)."""
    from pyunicorn.core import Network, InteractingNetworks
    covered = {m.method for m in measures}
    for cls in (Network, InteractingNetworks):
        for name in sorted(n for n in dir(cls) if n.startswith("nsi_") and callable(getattr(cls, n))):
            if name not in covered:
                rep.fail("coverage/unregistered-nsi-method", {"class": cls.__name__, "method": name},
                         "%s.%s is not covered by the C02 harness (signature %s)" % (
                             cls.__name__, name, inspect.signature(getattr(cls, name))))
    for k, v in PARTIAL.items():
        rep.skip("%s: %s" % (k, v))
    for k, v in SKIP_DIRECTED.items():
        rep.skip("%s: %s" % (k, v))
    rep.skip("nsi_bildegree(key=...): raises AssertionError ('not implemented with key yet')")
    rep.skip("undirected-only methods (nsi_local_clustering, nsi_global_clustering, nsi_transitivity, "
             "nsi_local_soffer_clustering, nsi_average/max_neighbors_degree, nsi_laplacian) raise "
             "NotImplementedError on directed networks (checked: raise on both sides)")
    rep.skip("1-node networks: Network() raises ZeroDivisionError (link density divides by N-1); "
             "graphs start at n=2")


SCOPE = (
    "Real code, harness-made twin splits. Exhaustive: every labelled simple undirected graph with "
    "2<=n<=4 (thorough: n<=5) and every labelled directed graph with 2<=n<=3 (thorough: n<=4), every "
    "node as the split node, iterated to depth 2 (the second split re-splits the old twin, the new "
    "twin or another node), every ordered bipartition (distributed over the split nodes) for the "
    "cross/internal/sources-targets variants, each group list in shuffled (3 of 4: arbitrary, else "
    "ascending) order with the twins inserted at arbitrary list positions, list-indexed results "
    "compared position by position; node weights from the grid {1/2,1,3/2,2,3} with "
    "proportions from {1/4,1/2,2/3} and link attribute 'lw' from {1/2,1,2,8}, and/or uniform(0.2,3) "
    "weights with uniform(0.05,0.95) proportions and uniform(0.3,3) link weights by seed (both "
    "weightings for the smaller sizes, one of them by seed for the largest undirected/the two "
    "largest directed sizes); plus 30 (thorough 300) seeded random graphs with 6..12 (..24) nodes, "
    "3 split nodes and 3 (6) random bipartitions each. Measures: every nsi_* method of Network and "
    "InteractingNetworks incl. key / typical_weight (0.37) / in / out / bil / motif / sources-targets "
    "/ exclude_neighbors / stopping_mode / add_local_ends / alpha variants, the nsi_* entries of "
    "distance_based_measures(replace_inf_by=inf), and Network.splitted_copy against the harness "
    "transformation (also with the split node addressed by its documented negative index v - N and, "
    "for the last node and an even split, with the default arguments: check splitted_copy/negative-"
    "index). Tolerances (all float64): 1e-9 relative (atol 1e-9*max|value|), 1e-7 for the "
    "LU/inverse based random-walk betweennesses, 1e-4 for nsi_eigenvector_centrality (ARPACK tol "
    "1e-8 in shift-invert mode; connected undirected graphs whose n.s.i. adjacency matrix has a "
    "relative spectral gap >= 3e-3 only).")
RULE = (
    "One evaluation = one (measure variant, case, split depth) comparison or one splitted_copy "
    "clause. A case = (graph, weights, link weights, split sequence, bipartition); it is distinct by "
    "that tuple and counted non-trivial when the graph has a link and the first split node is not "
    "isolated. A mismatch is discarded as ill-conditioned (counted in 'skipped') only if perturbing "
    "the ORIGINAL network's weights by tolerance*1e-5 relative (1e-14) moves the original value by "
    "more than a tenth of the tolerance, i.e. condition number > 1e4 (corrected variants near a zero "
    "denominator); the histogram bin bounds are not compared where k_max/k_min is within 1e-6 of an "
    "integer (the bin count int(k_max/k_min)+1 jumps there). Clauses: split / split-iterated (depth 1 / 2), "
    "-raises (exception on one side only), and three clauses for input classes on which the current "
    "code violates the property: split-unreachable-pairs (cross/internal closeness and cross average "
    "path length replace unreachable pairs by N-1), split-singleton-component (random-walk "
    "betweennesses set one-node components to 0), split-disconnected-twinness (nsi_arenas_betweenness "
    "indexes the global twinness matrix with component-local indices).")


def emit_failures(rep, failures):
    """Report.failures is capped; emit round-robin over the check names so that every distinct
    check gets a stored witness before any check gets its second one."""
    by = {}
    for f in failures:
        by.setdefault(f[0], []).append(f)
    depth = 0
    while True:
        row = [by[k][depth] for k in sorted(by) if len(by[k]) > depth]
        if not row:
            break
        for check, w_, detail in row:
            if depth < 3:
                rep.fail(check, w_, detail)
            else:                       # only counted
                rep.nfail += 1
                rep.by_check[check] = rep.by_check.get(check, 0) + 1
        depth += 1


def main():
    args = parse_args()
    rep = Report(PROP, args, SCOPE, RULE)
    try:
        import pyunicorn.core  # noqa: F401
    except Exception:
        traceback.print_exc()
        sys.exit(3)
    measures = registry()
    if args.replay:
        with open(args.replay) as f:
            wit = json.load(f)["witness"]
        if str(wit.get("check", "")).startswith("coverage/"):
            coverage_notes(rep, measures)
            rep.finish()
            return
        case = {k: wit.get(k) for k in ("A", "w", "attrs", "directed", "splits", "lists")}
        r = run_case(case, measures)
        rep.evaluations += r["evals"]
        for key, nontriv in r["cases"]:
            if nontriv:
                rep.nontrivial.add(key)
        rep.samples.append(jsonable(case))
        for check, w_, detail in r["failures"]:
            rep.fail(check, w_, detail)
        rep.finish()
        return

    coverage_notes(rep, measures)
    groups = gen_groups(args.tier, args.seed)
    nchunks = N_WORKERS * 16
    chunks = [groups[i::nchunks] for i in range(nchunks)]
    chunks = [c for c in chunks if c]
    with mp.get_context("fork").Pool(N_WORKERS) as pool:
        results = pool.map(_work, chunks, chunksize=1)
    illcond = {}
    names = set()
    herr = []
    allfail = []
    for chunk, outs in zip(chunks, results):
        for group, (evals, failures, ill, nm, cases, err) in zip(chunk, outs):
            if err:
                herr.append(err)
                continue
            rep.evaluations += evals
            for key, nontriv in cases:
                if nontriv:
                    rep.nontrivial.add(key)
            if len(rep.samples) < 8 and len(group["A"]) in (3, 4, 5, 7, 9):
                it = group["items"][0]
                rep.samples.append(jsonable({"A": group["A"], "w": group["w"], "attrs": group["attrs"],
                                             "directed": group["directed"], "splits": it["splits"],
                                             "lists": it["lists"][0] if it["lists"] else None}))
            for k, v in ill.items():
                illcond[k] = illcond.get(k, 0) + v
            names.update(nm)
            allfail.extend(failures)
    if illcond:
        rep.skip("comparisons discarded as ill-conditioned (see rule): %s" % json.dumps(illcond, sort_keys=True))
    missing = sorted({m.name for m in measures} - names)
    if missing:
        allfail.append(("coverage/never-evaluated", {"measures": missing},
                        "registered but never evaluated: %s" % missing))
    emit_failures(rep, allfail)
    if herr:
        sys.stderr.write(herr[0] + "\n")
        rep.failures.insert(0, {"check": "harness/error", "witness": {"n": len(herr)}, "detail": herr[0][-600:]})
        rep.nfail += 1
        rep.by_check["harness/error"] = len(herr)
    rep.finish()
    if herr and len(herr) == len(groups):
        sys.exit(3)


if __name__ == "__main__":
    main()
