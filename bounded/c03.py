"""Bounded stand-in for property C03: network measures equal their published definitions.

Run:  cd /verif && PYTHONPATH=/verif .venv/bin/python bounded/c03.py --tier quick --seed 0 --out /tmp/c03.json

Every public structural measure of pyunicorn.core.network.Network is evaluated on the real code
and compared with the definition-level oracle in specs/network_spec.py (pure Python / Fractions /
dense float64 NumPy; no igraph, no pyunicorn).

Tolerances (stated per group in `TOL`):
  exact    combinatorial / rational values returned as float64           rtol 1e-9,  atol 1e-12
  linalg   float64 dense/sparse inversions (Newman, Arenas, pagerank, msf) rtol 1e-7,  atol 1e-9
  arpack   ARPACK eigenvectors computed with tol=1e-8 on (A - N^2)^-1       rtol 1e-5,  atol max(1e-6,
           1e-7 * N^2 / (lambda_1 - lambda_2))  [Ritz residual over spectral gap of the shifted operator]
No float32 kernel is involved in the measures of this property.
"""
import json
import sys
import zlib
import itertools
import multiprocessing as mp
from fractions import Fraction as Fr

import numpy as np

from bounded.common import (parse_args, Report, jsonable, all_undirected_graphs,
                            all_directed_graphs, random_graph)
from specs import network_spec as S

PROP = "C03"
INF = float("inf")
TOL = {"exact": (1e-9, 1e-12), "linalg": (1e-7, 1e-9), "arpack": (1e-5, 1e-6)}
WEIGHT_SET = (1.0, 2.0, 3.0)      # link lengths / weights; sums exact in float64, ties occur (1+2=3)
EXACT_MAX_N = 6                   # Fractions oracles up to this size, float64 oracles beyond
BRUTE_MAX_N = 5                   # additionally cross-check oracles by explicit path enumeration

SKIPPED = [
    "N = 1: a one-node Network cannot be constructed (link_density divides by N-1; C05 scope)",
    "local_clustering / global_clustering / transitivity / higher_order_transitivity / assortativity / "
    "matching_index / average_neighbors_degree / max_neighbors_degree / eigenvector_centrality / "
    "msf_synchronizability / arenas_betweenness / newman_betweenness on DIRECTED networks: convention "
    "undocumented or contradictory (local_clustering says 'uses directionality information' but "
    "ignores it)",
    "interregional_betweenness / nsi_betweenness on directed networks: raise AssertionError "
    "(undirected-only kernel, undocumented)",
    "local_cliquishness on directed networks: documented NetworkError, not a measure value",
    "average_path_length when no pair is joined by a path (NaN, undocumented)",
    "transitivity when there is no connected triple (NaN, undocumented)",
    "higher_order_transitivity(4) when there is no 4-node star (returns 0, undocumented)",
    "assortativity when the end-point degrees have zero variance or there is no link "
    "(0/0 or ZeroDivisionError, undocumented)",
    "matching_index entries for pairs of nodes that both have no neighbour (0/0, undocumented)",
    "average_neighbors_degree / max_neighbors_degree entries of isolated nodes (no neighbour: undocumented)",
    "local_vulnerability when the global efficiency is 0 or N < 3 (0/0)",
    "nsi_newman_betweenness and nsi_arenas_betweenness(stopping_mode='twinness'): no definition-level oracle "
    "(source smearing / stopping probabilities not pinned by a docstring); only the component-wise relation is "
    "asserted on disconnected graphs, nothing on connected ones",
    "closeness() without link attribute on graphs that are not connected (igraph convention, docstring TODO); the "
    "weighted branch follows its code comment (unreachable -> N) and is asserted",
    "pagerank on graphs with dangling nodes that are not connected (dangling-node convention undocumented)",
    "eigenvector_centrality / nsi_eigenvector_centrality on disconnected graphs (largest eigenvalue degenerate; "
    "property restricts spectral centralities to connected graphs); eigenvector centralities also skipped "
    "when the spectral gap lambda_1 - lambda_2 < 1e-2 (ARPACK accuracy ~ tol/gap)",
    "msf_synchronizability of an edgeless graph (0/0)",
    "weighted_local_clustering entries of nodes whose denominator vanishes (0/0)",
    "bildegree(key) (bilateral strength: formula undocumented)",
    "link-weighted variants on edgeless graphs (set_link_attribute cannot create the attribute; igraph raises)",
    "n.s.i. measures with a link-attribute key, corrected (typical_weight) n.s.i. motif clustering "
    "and corrected nsi_degree of directed networks: no documented relation to an unweighted measure "
    "(observed: corrected n.s.i. motif clustering with unit weights and typical_weight=1 does NOT "
    "reduce to the plain motif clustering, e.g. gives inf/NaN on a triangle with a pendant node)",
    "nsi_transitivity ('not yet implemented' in its docstring), nsi_local_soffer_clustering, "
    "nsi_spreading/spreading (EXPERIMENTAL), "
    "nsi_degree histograms, degree distributions (outside the anchor list; docstrings self-"
    "contradictory), distance_based_measures (EXPERIMENTAL)",
    "pagerank: compared up to scale only (docstring says 'maximum of 1', example sums to 1); damping "
    "0.85 assumed (igraph default, [Brin&Page1998])",
]


# ------------------------------------------------------------------------------- case handling

def wit_key(wit):
    n = len(wit["A"])
    bits = "".join(str(int(x)) for row in wit["A"] for x in row)
    w = ""
    if wit.get("W") is not None:
        w = "|" + ",".join("%g" % x for row in wit["W"] for x in row)
    return "%s%d:%s%s" % ("d" if wit["directed"] else "u", n, bits, w)


def mk_wit(A, directed, W=None, label=""):
    return {"A": np.asarray(A).astype(int).tolist(), "directed": bool(directed),
            "W": None if W is None else np.asarray(W, dtype=float).tolist(), "label": label}


def tofloat(x):
    """Oracle value (nested lists of Fraction/int/float/None) -> (float array, mask of asserted)."""
    if x is None:
        return None, None
    a = np.array(x, dtype=object)
    mask = np.array([v is not None for v in a.ravel()], dtype=bool).reshape(a.shape)
    vals = np.array([float(v) if v is not None else np.nan for v in a.ravel()], dtype=float).reshape(a.shape)
    return vals, mask


class Case:
    def __init__(self, wit):
        self.wit = wit
        self.res = []     # (check, ok, nontrivial, detail)

    def cmp(self, check, got_fn, expected, tol="exact", nontrivial=None):
        """One contract evaluation: library value == oracle value (where the oracle is defined)."""
        exp, mask = tofloat(expected)
        if exp is None:
            return
        if nontrivial is None:
            nontrivial = bool(np.any(np.isfinite(exp[mask]) & (exp[mask] != 0)))
        try:
            got = np.asarray(got_fn(), dtype=float)
        except Exception as e:   # the measure is defined here, so raising is a violation
            self.res.append((check, False, nontrivial, "raised %r" % (e,)))
            return
        if got.shape != exp.shape:
            self.res.append((check, False, nontrivial, "shape %s, expected %s" % (got.shape, exp.shape)))
            return
        rtol, atol = TOL[tol] if isinstance(tol, str) else tol
        g, e = got[mask], exp[mask]
        with np.errstate(invalid="ignore"):
            ok = np.isclose(g, e, rtol=rtol, atol=atol, equal_nan=False) | ((g == e))
        if bool(np.all(ok)):
            self.res.append((check, True, nontrivial, ""))
        else:
            bad = np.argwhere(~ok.reshape(-1))[0][0] if ok.ndim else 0
            self.res.append((check, False, nontrivial,
                             "expected %s got %s (first bad flat index among asserted entries: %d)"
                             % (np.array2string(exp, precision=10, threshold=60),
                                np.array2string(got, precision=10, threshold=60), bad)))

    def holds(self, check, fn, nontrivial=True):
        """fn() -> (bool, detail)."""
        try:
            ok, detail = fn()
        except Exception as e:
            ok, detail = False, "raised %r" % (e,)
        self.res.append((check, bool(ok), nontrivial, "" if ok else detail))


def make_net(A, directed, W=None):
    from pyunicorn.core.network import Network
    Ad = np.array(A, dtype=np.int8)
    adj = Ad
    n_ = Ad.shape[0]
    if n_ >= 3 and (int(Ad.sum()) + 2 * n_) % 4 == 0:
        # the same 0/1 matrix as a SciPy sparse matrix that physically stores some zeros (left behind by `M.setdiag(0)`,
        # `M.data = M.data > t`, `M[i, j] = 0`): measures are functions of the VALUES of the adjacency matrix
        import scipy.sparse as sp_
        li, lj = np.nonzero(Ad)
        zi, zj = np.nonzero(Ad == 0)
        keep = (zi * 5 + zj * 3) % 3 == 0
        rows, cols = np.concatenate([li, zi[keep]]), np.concatenate([lj, zj[keep]])
        data = np.concatenate([np.ones(len(li), dtype=np.int8), np.zeros(int(keep.sum()), dtype=np.int8)])
        adj = sp_.csr_matrix(sp_.coo_matrix((data, (rows, cols)), shape=(n_, n_)))
    net = Network(adjacency=adj, directed=directed, silence_level=3)
    if W is not None:
        net.set_link_attribute("w", np.array(W, dtype=float))
    return net


def subsets_for(wit, n, exhaustive):
    """(sources, targets) choices for interregional betweenness, deterministic in the witness."""
    fixed = [(None, None), ([0], None), (None, [n - 1]), ([0], [n - 1]), ([0, n - 1], [0, n - 1])]
    if exhaustive and n <= 4:
        subs = [list(c) for r in range(1, n + 1) for c in itertools.combinations(range(n), r)]
        return fixed[:1] + [(s, t) for s in subs for t in subs]
    rng = np.random.RandomState(zlib.crc32(wit_key(wit).encode()) & 0x7fffffff)
    out = list(fixed)
    for _ in range(3):
        s = sorted(set(rng.randint(0, n, size=rng.randint(1, n + 1)).tolist()))
        t = sorted(set(rng.randint(0, n, size=rng.randint(1, n + 1)).tolist()))
        out.append((s, t))
    return out


# ----------------------------------------------------------------------------------- the checks

def oracle_selfcheck(A, directed):
    """Two independent oracles (walk counting vs. enumeration of all simple paths) must agree;
    a mismatch is a harness error, not a finding."""
    b1 = S.betweenness(A, directed)
    b2 = S.betweenness_bruteforce(A, directed)
    if b1 != b2:
        raise RuntimeError("oracle mismatch (betweenness) on %r" % (A,))
    if not directed:
        if S.link_betweenness(A) != S.link_betweenness_bruteforce(A):
            raise RuntimeError("oracle mismatch (link betweenness) on %r" % (A,))
        for order in (4, 5):
            if S.local_cliquishness(A, order) != S.local_cliquishness(A, order, ordered_tuples=True):
                raise RuntimeError("oracle mismatch (cliquishness) on %r" % (A,))
    SPb = S.shortest_paths_bruteforce(A)
    D = S.bfs_distances(A)
    n = len(A)
    for s in range(n):
        for t in range(n):
            d = (len(SPb[s][t][0]) - 1) if SPb[s][t] else INF
            if d != D[s][t]:
                raise RuntimeError("oracle mismatch (distances) on %r" % (A,))


def check_common(c, net, A, directed, D):
    n = len(A)
    # ---- degrees
    c.cmp("degree/total", net.degree, S.total_degree(A, directed))
    c.cmp("indegree/count", net.indegree, S.indegree(A))
    c.cmp("outdegree/count", net.outdegree, S.outdegree(A))
    c.cmp("bildegree/count", net.bildegree, S.bilateral_degree(A))
    # ---- Laplacians
    c.cmp("laplacian/out", lambda: net.laplacian(direction="out"), S.laplacian(A, directed, "out"))
    c.cmp("laplacian/in", lambda: net.laplacian(direction="in"), S.laplacian(A, directed, "in"))
    # ---- motif clustering [Fagiolo2007]
    for m in ("cycle", "mid", "in", "out"):
        c.cmp("local_%smotif_clustering/count" % m, getattr(net, "local_%smotif_clustering" % m),
              S.motif_clustering(A, m))
    # ---- distances
    far = any(d != INF and d >= 2 for row in D for d in row)
    c.cmp("path_lengths/bfs", net.path_lengths, D, nontrivial=far)
    c.cmp("average_path_length/mean-connected-pairs", net.average_path_length,
          S.average_path_length(D), nontrivial=far)
    c.cmp("diameter/max-finite", net.diameter, S.diameter(D), nontrivial=far)
    Du = S.bfs_distances(S.symmetrised(A)) if directed else D
    c.cmp("diameter/undirected-paths", lambda: net.diameter(directed=False), S.diameter(Du), nontrivial=far)
    # documented: "If False and the network is unconnected, the number of all nodes is returned."
    if S.is_connected(D):
        c.cmp("diameter/only_connected-false-on-connected", lambda: net.diameter(only_connected=False),
              S.diameter(D), nontrivial=far)
    else:
        c.cmp("diameter/unconnected-returns-N", lambda: net.diameter(only_connected=False), n, nontrivial=True)
    c.cmp("global_efficiency/costa", net.global_efficiency, S.global_efficiency(D))
    c.cmp("local_vulnerability/costa", net.local_vulnerability, S.local_vulnerability(A))
    cl = S.closeness(D)
    if cl is not None:
        c.cmp("closeness/directed-out-distance" if directed else "closeness/undirected", net.closeness, cl,
              nontrivial=far)
    # ---- the deprecated key link_attribute="topological" is documented to mean "links have length /
    #      weight 1" (= None): same definitions
    T = "topological"
    c.cmp("path_lengths/deprecated-topological-key", lambda: net.path_lengths(T), D, nontrivial=far)
    c.cmp("average_path_length/deprecated-topological-key", lambda: net.average_path_length(T),
          S.average_path_length(D), nontrivial=far)
    c.cmp("global_efficiency/deprecated-topological-key", lambda: net.global_efficiency(T), S.global_efficiency(D))
    c.cmp("local_vulnerability/deprecated-topological-key", lambda: net.local_vulnerability(T),
          S.local_vulnerability(A))
    if cl is not None:
        c.cmp("closeness/deprecated-topological-key", lambda: net.closeness(T), cl, nontrivial=far)
    c.cmp("laplacian/deprecated-topological-key", lambda: net.laplacian(direction="out", link_attribute=T),
          S.laplacian(A, directed, "out"))
    # ---- coreness
    c.cmp("coreness/peeling", net.coreness, S.coreness(A, directed))
    # ---- pagerank (up to scale), graphs where every node reaches every other
    if S.is_connected(D):
        def pr():
            x = np.asarray(net.pagerank(), dtype=float)
            return x / x.sum()
        c.cmp("pagerank/stationary", pr, S.pagerank(A), tol="linalg",
              nontrivial=len(set(np.round(S.pagerank(A), 9))) > 1)

        def prt():
            x = np.asarray(net.pagerank("topological"), dtype=float)
            return x / x.sum()
        c.cmp("pagerank/deprecated-topological-key", prt, S.pagerank(A), tol="linalg",
              nontrivial=len(set(np.round(S.pagerank(A), 9))) > 1)
    elif all(S.outdegree(A)):
        # not (strongly) connected but no dangling node: the PageRank chain is still irreducible
        def pr2():
            x = np.asarray(net.pagerank(), dtype=float)
            return x / x.sum()
        c.cmp("pagerank/stationary-disconnected", pr2, S.pagerank(A), tol="linalg",
              nontrivial=len(set(np.round(S.pagerank(A), 9))) > 1)
    # ---- n.s.i. with unit node weights: path based (directed distances as in path_lengths)
    c.cmp("nsi_average_path_length/unit-weights", net.nsi_average_path_length,
          S.nsi_unit_average_path_length(D), nontrivial=far)
    c.cmp("nsi_closeness/unit-weights", net.nsi_closeness, S.nsi_unit_closeness(D))
    c.cmp("nsi_harmonic_closeness/unit-weights", net.nsi_harmonic_closeness, S.nsi_unit_harmonic_closeness(D))
    c.cmp("nsi_exponential_closeness/unit-weights", net.nsi_exponential_closeness,
          S.nsi_unit_exponential_closeness(D))
    c.cmp("nsi_global_efficiency/unit-weights", net.nsi_global_efficiency, S.nsi_unit_global_efficiency(D))
    # ---- n.s.i. degrees with unit node weights:  k* = k + 1 ; corrected with typical weight 1: k
    c.cmp("nsi_indegree/unit-weights", net.nsi_indegree, [k + 1 for k in S.indegree(A)])
    c.cmp("nsi_outdegree/unit-weights", net.nsi_outdegree, [k + 1 for k in S.outdegree(A)])
    c.cmp("nsi_indegree/unit-weights-corrected", lambda: net.nsi_indegree(typical_weight=1.0), S.indegree(A))
    c.cmp("nsi_outdegree/unit-weights-corrected", lambda: net.nsi_outdegree(typical_weight=1.0), S.outdegree(A))
    c.cmp("nsi_bildegree/unit-weights", net.nsi_bildegree, [k + 1 for k in S.bilateral_degree(A)])
    c.cmp("nsi_bildegree/unit-weights-corrected", lambda: net.nsi_bildegree(typical_weight=1.0),
          S.bilateral_degree(A))
    for m in ("cycle", "mid", "in", "out"):
        c.cmp("nsi_local_%smotif_clustering/unit-weights" % m,
              getattr(net, "nsi_local_%smotif_clustering" % m), S.motif_clustering(A, m, closed=True))


def check_directed(c, net, A, D):
    n = len(A)
    exact = n <= EXACT_MAX_N
    c.cmp("betweenness/directed", net.betweenness, S.betweenness(A, True, exact=exact))
    c.cmp("nsi_degree/unit-weights", net.nsi_degree, [k + 2 for k in S.total_degree(A, True)])

    # link_betweenness "(Does not respect directionality of links.) Entry [i,j] is the betweenness
    # of the link between i and j": whatever the reading, a link i -> j is itself the unique
    # shortest path from i to j, so its betweenness is at least 1.
    def lb():
        R = np.asarray(net.link_betweenness(), dtype=float)
        bad = [(i, j) for i in range(n) for j in range(n) if A[i][j] and not R[i, j] >= 1 - 1e-9]
        return (not bad, "links with betweenness < 1: %s; got %s" % (bad[:5], np.array2string(R, threshold=60)))
    c.holds("link_betweenness/directed-link-covered", lb, nontrivial=any(any(r) for r in A))


def check_undirected(c, net, A, D, exhaustive_subsets):
    n = len(A)
    exact = n <= EXACT_MAX_N
    k = S.outdegree(A)
    connected = S.is_connected(D)
    tri = any(x != 0 for x in S.local_clustering(A))
    # ---- neighbourhood
    # (also on graphs with isolated nodes since the repair of the k[k != 0] divisor: the value of a node without neighbours
    #  is not asserted, the other entries are)
    c.cmp("average_neighbors_degree/mean", net.average_neighbors_degree, S.average_neighbours_degree(A))
    c.cmp("max_neighbors_degree/max", net.max_neighbors_degree, S.max_neighbours_degree(A))
    c.cmp("matching_index/jaccard", net.matching_index, S.matching_index(A),
          nontrivial=any(0 < (x or 0) < 1 for row in S.matching_index(A) for x in row))
    c.cmp("assortativity/pearson", net.assortativity, S.assortativity(A), nontrivial=True)
    # ---- clustering
    lc = S.local_clustering(A)
    c.cmp("local_clustering/triangles", net.local_clustering, lc, nontrivial=tri)
    c.cmp("global_clustering/mean-local", net.global_clustering, sum(lc) / n, nontrivial=tri)
    c.cmp("transitivity/triangles-over-triples", net.transitivity, S.transitivity(A), nontrivial=tri)
    c.cmp("higher_order_transitivity/order3", lambda: net.higher_order_transitivity(3), S.transitivity(A),
          nontrivial=tri)
    if n >= 4:
        c.cmp("higher_order_transitivity/order4", lambda: net.higher_order_transitivity(4),
              S.higher_order_transitivity4(A))
    c.cmp("local_cliquishness/order3", lambda: net.local_cliquishness(3), lc, nontrivial=tri)
    c.cmp("local_cliquishness/order4", lambda: net.local_cliquishness(4), S.local_cliquishness(A, 4),
          nontrivial=max(k) >= 3)
    c.cmp("local_cliquishness/order5", lambda: net.local_cliquishness(5), S.local_cliquishness(A, 5),
          nontrivial=max(k) >= 4)
    # ---- betweenness family
    far = any(d != INF and d >= 2 for row in D for d in row)
    c.cmp("betweenness/undirected", net.betweenness, S.betweenness(A, False, exact=exact), nontrivial=far)
    lbw = S.link_betweenness(A, exact=exact)
    c.cmp("link_betweenness/undirected", net.link_betweenness, lbw, nontrivial=far)
    c.cmp("edge_betweenness/alias", net.edge_betweenness, lbw, nontrivial=far)
    for (src, tgt) in subsets_for(c.wit, n, exhaustive_subsets):
        if exact:
            exp = S.interregional_betweenness(A, src, tgt)
        else:
            exp = S.interregional_betweenness_np(A, src, tgt)
        tag = "all-pairs" if (src is None and tgt is None) else "subsets"
        c.cmp("interregional_betweenness/" + tag,
              lambda: net.interregional_betweenness(sources=src, targets=tgt), exp)
        if src is not None and tgt is not None:
            c.cmp("nsi_interregional_betweenness/unit-weights",
                  lambda: net.nsi_interregional_betweenness(sources=src, targets=tgt), exp)
    allpairs = S.interregional_betweenness(A, None, None) if exact else S.interregional_betweenness_np(A, None, None)
    c.cmp("nsi_betweenness/unit-weights", net.nsi_betweenness, allpairs, nontrivial=far)
    # ---- random walk betweenness and spectral centralities: connected graphs
    if connected:
        c.cmp("newman_betweenness/current-flow", net.newman_betweenness,
              S.newman_betweenness(A, exact=n <= 5), tol="linalg", nontrivial=n >= 3)
        c.cmp("arenas_betweenness/absorbing-walk", net.arenas_betweenness,
              S.arenas_betweenness(A, exact=n <= 5), tol="linalg", nontrivial=n >= 3)
        vals = np.linalg.eigvalsh(np.array(A, dtype=float))
        gap = vals[-1] - vals[-2]
        if gap >= 1e-2:
            # the code runs ARPACK (tol=1e-8) on the shift-inverted operator (A - sigma)^-1, sigma = N^2; a Ritz
            # residual tol*|theta| gives an eigenvector error of about tol * (sigma - lambda_1) / (lambda_1 - lambda_2)
            atol = max(TOL["arpack"][1], 10 * 1e-8 * n * n / gap)
            ev = S.eigenvector_centrality(A)
            nt = len(set(np.round(ev, 6))) > 1
            c.cmp("eigenvector_centrality/perron", net.eigenvector_centrality, ev, tol=(TOL["arpack"][0], atol),
                  nontrivial=nt)
            c.cmp("nsi_eigenvector_centrality/unit-weights", net.nsi_eigenvector_centrality, ev,
                  tol=(TOL["arpack"][0], atol), nontrivial=nt)
    c.cmp("msf_synchronizability/laplacian-spectrum", net.msf_synchronizability, S.msf_synchronizability(A),
          tol="linalg")
    # n.s.i. Arenas-type betweenness at unit node weights, as described in its docstring (closed-neighbourhood walk)
    if connected:
        big_enough = any(len(S.closed_neighbours(A, i)) < n for i in range(n))
        c.cmp("nsi_arenas_betweenness/unit-weights-closed-walk", net.nsi_arenas_betweenness,
              S.nsi_unit_arenas_betweenness(A), tol="linalg", nontrivial=big_enough)
        c.cmp("nsi_arenas_betweenness/unit-weights-closed-walk-all-ends",
              lambda: net.nsi_arenas_betweenness(exclude_neighbors=False),
              S.nsi_unit_arenas_betweenness(A, False), tol="linalg", nontrivial=big_enough)
    else:
        check_random_walk_per_component(c, net, A)
    # ---- n.s.i., unit node weights
    c.cmp("nsi_degree/unit-weights", net.nsi_degree, [x + 1 for x in k])
    c.cmp("nsi_degree/unit-weights-corrected", lambda: net.nsi_degree(typical_weight=1.0), k)
    c.cmp("nsi_laplacian/unit-weights", net.nsi_laplacian, S.laplacian(A, False))
    c.cmp("nsi_average_neighbors_degree/unit-weights", net.nsi_average_neighbors_degree,
          S.nsi_unit_average_neighbours_degree(A))
    c.cmp("nsi_max_neighbors_degree/unit-weights", net.nsi_max_neighbors_degree,
          S.nsi_unit_max_neighbours_degree(A))
    nlc = S.nsi_unit_local_clustering(A)
    c.cmp("nsi_local_clustering/unit-weights", net.nsi_local_clustering, nlc)
    c.cmp("nsi_global_clustering/unit-weights", net.nsi_global_clustering, sum(nlc) / n)
    # corrected version with typical weight 1 is the plain clustering coefficient (k >= 2;
    # documented "at most 1 / negative / NaN" otherwise)
    c.cmp("nsi_local_clustering/unit-weights-corrected", lambda: net.nsi_local_clustering(typical_weight=1.0),
          [x if k[i] >= 2 else None for i, x in enumerate(lc)], nontrivial=tri)

    # nsi_twinness documented: 'varies from 0.0 for unlinked nodes to 1.0 for linked nodes having exactly the
    # same neighbors (called twins)': 0 iff unlinked is not claimed; we assert 0 for unlinked, 1 exactly for twins
    def tw():
        T = np.asarray(net.nsi_twinness(), dtype=float)
        for i in range(n):
            for j in range(n):
                if i != j and not A[i][j] and T[i, j] != 0:
                    return False, "unlinked (%d,%d) has twinness %r" % (i, j, T[i, j])
                same = S.closed_neighbours(A, i) == S.closed_neighbours(A, j)
                if (i == j or (A[i][j] and same)) and abs(T[i, j] - 1) > 1e-12:
                    return False, "twins (%d,%d) have twinness %r" % (i, j, T[i, j])
                if i != j and A[i][j] and not same and not T[i, j] < 1 - 1e-12:
                    return False, "linked non-twins (%d,%d) have twinness %r" % (i, j, T[i, j])
                if not -1e-12 <= T[i, j] <= 1 + 1e-12:
                    return False, "twinness (%d,%d) = %r outside [0,1]" % (i, j, T[i, j])
        return True, ""
    c.holds("nsi_twinness/unit-weights-documented-range", tw, nontrivial=any(k))


def check_random_walk_per_component(c, net, A):
    """Disconnected undirected graphs.  Convention (code comments of the four methods): the measure "has to be
    calculated for each component separately"; "if the component has size 1, set random walk betweenness to
    zero".  So the value of a node is the definition evaluated on its connected component taken as a network
    of its own (normalisations use the component size)."""
    n = len(A)
    comps = S.components(A)
    nt = any(len(cp) >= 3 for cp in comps)
    c.cmp("newman_betweenness/per-component", net.newman_betweenness,
          S.per_component(A, S.newman_betweenness), tol="linalg", nontrivial=nt)
    c.cmp("arenas_betweenness/per-component", net.arenas_betweenness,
          S.per_component(A, S.arenas_betweenness), tol="linalg", nontrivial=nt)
    c.cmp("nsi_arenas_betweenness/per-component", net.nsi_arenas_betweenness,
          S.per_component(A, S.nsi_unit_arenas_betweenness), tol="linalg", nontrivial=nt)
    c.cmp("nsi_arenas_betweenness/per-component-all-ends",
          lambda: net.nsi_arenas_betweenness(exclude_neighbors=False),
          S.per_component(A, lambda B: S.nsi_unit_arenas_betweenness(B, False)), tol="linalg", nontrivial=nt)

    # nsi_newman_betweenness and the "twinness" stopping mode have no definition-level oracle (their source
    # smearing / stopping probabilities are not pinned by a docstring); what IS stated is the component-wise
    # evaluation, so the value on the whole graph must equal the value the same method gives for the
    # component alone (a relation between two library calls, not an oracle), and 0 on size-1 components.
    def alone(method, **kw):
        def fn(B):
            sub = make_net(B, False)
            return getattr(sub, method)(**kw)
        res = S.per_component(A, fn)
        if kw.get("add_local_ends"):
            # with local ends every node - also an isolated one - receives the contribution of its own weight
            # ((2W - k*) k* = w**2 on a one-node component; repaired defect, required by node-splitting invariance):
            # the value on the whole graph equals the value of the one-node network alone
            for comp in S.components(A):
                if len(comp) == 1:
                    res[comp[0]] = float(fn(S.induced(A, comp))[0])
        return res
    for name, method, kw in (
            ("nsi_newman_betweenness/per-component-consistency", "nsi_newman_betweenness", {}),
            ("nsi_newman_betweenness/per-component-consistency-local-ends", "nsi_newman_betweenness",
             {"add_local_ends": True}),
            ("nsi_arenas_betweenness/per-component-consistency-twinness", "nsi_arenas_betweenness",
             {"stopping_mode": "twinness"})):
        try:
            exp = alone(method, **kw)
        except Exception as e:      # the connected reference itself fails: nothing to compare with
            continue
        c.cmp(name, lambda: getattr(net, method)(**kw), exp, tol="linalg", nontrivial=nt)


def check_weighted(c, net, A, W, directed):
    """Link-weighted variants; W[i][j] > 0 on links (symmetric for undirected graphs)."""
    n = len(A)
    so, si = S.out_strength(W, A), S.in_strength(W, A)
    c.cmp("outdegree/strength", lambda: net.outdegree("w"), so)
    c.cmp("indegree/strength", lambda: net.indegree("w"), si)
    c.cmp("degree/strength", lambda: net.degree("w"), [a + b for a, b in zip(so, si)] if directed else so)
    for m in ("cycle", "mid", "in", "out"):
        c.cmp("local_%smotif_clustering/link-weighted" % m,
              lambda: getattr(net, "local_%smotif_clustering" % m)("w"), S.motif_clustering(A, m, W=W))
    D = S.weighted_distances(A, W)
    hops = S.bfs_distances(A)
    nt = any(D[i][j] != INF and D[i][j] != hops[i][j] * W_min(W, A) for i in range(n) for j in range(n))
    c.cmp("path_lengths/link-weighted", lambda: net.path_lengths("w"), D, nontrivial=nt)
    c.cmp("average_path_length/link-weighted", lambda: net.average_path_length("w"), S.average_path_length(D),
          nontrivial=nt)
    if any(A[i][j] and W[i][j] == 0 for i in range(n) for j in range(n)):
        # links of length 0: distances and their average are defined (a zero-length link is a link); the inverse-distance
        # measures (efficiency, closeness, vulnerability) and weight-product measures are not judged on such inputs
        return
    c.cmp("global_efficiency/link-weighted", lambda: net.global_efficiency("w"), S.global_efficiency(D))
    c.cmp("local_vulnerability/link-weighted", lambda: net.local_vulnerability("w"), S.local_vulnerability(A, W))
    cl = S.closeness(D)
    if cl is None:
        # code comment in closeness(): "Set infinite entries corresponding to unconnected pairs to number of
        # vertices" -- the weighted branch's convention for unreachable nodes
        Dn = [[n if x == INF else x for x in row] for row in D]
        c.cmp("closeness/link-weighted-unconnected-N", lambda: net.closeness("w"),
              [(n - 1) / sum(row) for row in Dn], nontrivial=True)
    if cl is not None:
        c.cmp("closeness/link-weighted", lambda: net.closeness("w"), cl, nontrivial=nt)
        # the same definition for link lengths in very small / very large units (every pair connected): (N-1) / sum_j d_ij
        for unit in (1e-12, 1e-200, 1e150):
            Wu = [[W[i][j] * unit for j in range(n)] for i in range(n)]
            c.cmp("closeness/link-weighted-units-%g" % unit, lambda Wu=Wu: make_net(A, directed, Wu).closeness("w"),
                  [v / unit for v in cl], nontrivial=nt)
        if S.is_connected(hops):
            def pr():
                x = np.asarray(net.pagerank("w"), dtype=float)
                return x / x.sum()
            c.cmp("pagerank/link-weighted", pr, S.pagerank(A, W=W), tol="linalg",
                  nontrivial=len(set(np.round(S.pagerank(A, W=W), 9))) > 1)
    from pyunicorn.core.network import Network
    Wm = [[W[i][j] if A[i][j] else 0.0 for j in range(n)] for i in range(n)]
    if any(any(r) for r in A):
        if not directed:
            c.cmp("weighted_local_clustering/holme", lambda: Network.weighted_local_clustering(Wm),
                  S.weighted_local_clustering_holme(Wm))
        # "Entry [i,j] is the link weight from i to j": the [Holme2007] quotient evaluated literally on a weight matrix
        # that is not symmetric (a directed graph, or an undirected support whose links weigh differently in the two
        # directions): sum_jk w_ij w_jk w_ki / (max(w) sum_jk w_ij w_ki)
        Wa = [[Wm[i][j] * (1.0 + 0.5 * ((3 * i + 5 * j) % 4)) for j in range(n)] for i in range(n)]
        c.cmp("weighted_local_clustering/holme-asymmetric-weights", lambda: Network.weighted_local_clustering(Wa),
              S.weighted_local_clustering_holme(Wa))


def W_min(W, A):
    vals = [W[i][j] for i in range(len(A)) for j in range(len(A)) if A[i][j]]
    return min(vals) if vals else 1.0


def run_case(task):
    wit, exhaustive_subsets = task
    import io
    import contextlib
    A = S.as_int_lists(wit["A"])
    directed = wit["directed"]
    n = len(A)
    c = Case(wit)
    with contextlib.redirect_stdout(io.StringIO()):
        if n <= BRUTE_MAX_N and wit["W"] is None:
            oracle_selfcheck(A, directed)
        try:
            net = make_net(A, directed, wit["W"])
        except Exception as e:
            c.res.append(("Network/construct", False, True, "raised %r" % (e,)))
            return wit_key(wit), wit, c.res
        if wit["W"] is None:
            D = S.bfs_distances(A)
            check_common(c, net, A, directed, D)
            if directed:
                check_directed(c, net, A, D)
            else:
                check_undirected(c, net, A, D, exhaustive_subsets)
        else:
            check_weighted(c, net, A, wit["W"], directed)
    return wit_key(wit), wit, c.res


# --------------------------------------------------------------------------- case generation

def sym(A):
    A = np.array(A, dtype=int)
    A = ((A + A.T) > 0).astype(int)
    np.fill_diagonal(A, 0)
    return A


def from_edges(n, edges, directed=False):
    A = np.zeros((n, n), dtype=int)
    for i, j in edges:
        A[i, j] = 1
        if not directed:
            A[j, i] = 1
    return A


def disjoint_union(*As):
    n = sum(len(a) for a in As)
    R = np.zeros((n, n), dtype=int)
    o = 0
    for a in As:
        m = len(a)
        R[o:o + m, o:o + m] = a
        o += m
    return R


def path(n):
    return from_edges(n, [(i, i + 1) for i in range(n - 1)])


def cycle(n):
    return from_edges(n, [(i, (i + 1) % n) for i in range(n)])


def star(n):
    return from_edges(n, [(0, i) for i in range(1, n)])


def clique(n):
    return np.ones((n, n), dtype=int) - np.eye(n, dtype=int)


def empty(n):
    return np.zeros((n, n), dtype=int)


def bipartite(a, b):
    return from_edges(a + b, [(i, a + j) for i in range(a) for j in range(b)])


def wheel(n):
    return sym(star(n) + disjoint_union(empty(1), cycle(n - 1)))


def grid(a, b):
    idx = lambda i, j: i * b + j
    e = [(idx(i, j), idx(i + 1, j)) for i in range(a - 1) for j in range(b)]
    e += [(idx(i, j), idx(i, j + 1)) for i in range(a) for j in range(b - 1)]
    return from_edges(a * b, e)


def layered(m, layers):
    """s - m - m - ... - t, consecutive layers completely joined: m**layers shortest s-t paths."""
    n = 2 + m * layers
    e = [(0, 1 + j) for j in range(m)]
    for l in range(layers - 1):
        e += [(1 + l * m + a, 1 + (l + 1) * m + b) for a in range(m) for b in range(m)]
    e += [(1 + (layers - 1) * m + a, n - 1) for a in range(m)]
    return from_edges(n, e)


def petersen():
    e = [(i, (i + 1) % 5) for i in range(5)] + [(5 + i, 5 + (i + 2) % 5) for i in range(5)]
    e += [(i, i + 5) for i in range(5)]
    return from_edges(10, e)


def barbell(k, bridge):
    A = disjoint_union(clique(k), path(bridge) if bridge else empty(0), clique(k))
    n = len(A)
    if bridge:
        A[k - 1, k] = A[k, k - 1] = 1
        A[k + bridge - 1, k + bridge] = A[k + bridge, k + bridge - 1] = 1
    else:
        A[k - 1, k] = A[k, k - 1] = 1
    return A[:n, :n]


def binary_tree(n):
    return from_edges(n, [((i - 1) // 2, i) for i in range(1, n)])


def windmill(blades):
    e = []
    for b in range(blades):
        u, v = 1 + 2 * b, 2 + 2 * b
        e += [(0, u), (0, v), (u, v)]
    return from_edges(1 + 2 * blades, e)


def cocktail(m):
    A = clique(2 * m)
    for i in range(m):
        A[2 * i, 2 * i + 1] = A[2 * i + 1, 2 * i] = 0
    return A


def undirected_families(tier):
    big = tier == "thorough"
    F = []
    for n in (list(range(2, 13)) + ([20, 30, 40] if big else [17])):
        F.append(("path%d" % n, path(n)))
    for n in (list(range(3, 13)) + ([21, 40] if big else [16])):
        F.append(("cycle%d" % n, cycle(n)))
    for n in (list(range(3, 11)) + ([25, 40] if big else [15])):
        F.append(("star%d" % n, star(n)))
    for n in (list(range(5, 11)) + ([20, 33] if big else [14])):
        F.append(("wheel%d" % n, wheel(n)))
    for n in range(2, 13 if big else 9):
        F.append(("clique%d" % n, clique(n)))
    for a, b in [(1, 1), (2, 2), (2, 3), (3, 3), (3, 4), (4, 4), (2, 6)] + ([(5, 7), (10, 10)] if big else []):
        F.append(("bipartite%d_%d" % (a, b), bipartite(a, b)))
    F.append(("K3+K3", disjoint_union(clique(3), clique(3))))
    F.append(("P3+K1", disjoint_union(path(3), empty(1))))
    F.append(("K4+P2", disjoint_union(clique(4), path(2))))
    F.append(("C4+2K1", disjoint_union(cycle(4), empty(2))))
    F.append(("K1+star5+K1", disjoint_union(empty(1), star(5), empty(1))))
    F.append(("K5+K5", disjoint_union(clique(5), clique(5))))
    F.append(("wheel6+cycle5+path3", disjoint_union(wheel(6), cycle(5), path(3))))
    paw = from_edges(4, [(0, 1), (1, 2), (0, 2), (2, 3)])
    F.append(("P3+paw", disjoint_union(path(3), paw)))
    # unions with scattered labels: components are not contiguous index ranges, isolated nodes in between
    prng = np.random.RandomState(20240603)
    for name, U in [("K1+P3+paw", disjoint_union(empty(1), path(3), paw)),
                    ("K1+P3", disjoint_union(empty(1), path(3))),
                    ("2K1+wheel6+cycle5+path3", disjoint_union(empty(2), wheel(6), cycle(5), path(3))),
                    ("K1+K4+P2", disjoint_union(empty(1), clique(4), path(2))),
                    ("star5+C4+K1", disjoint_union(star(5), cycle(4), empty(1))),
                    ("petersen+grid3x3+K1", disjoint_union(petersen(), grid(3, 3), empty(1))),
                    ("windmill3+barbell4_2", disjoint_union(windmill(3), barbell(4, 2)))]:
        F.append((name, U))
        for r in range(2):
            perm = prng.permutation(len(U))
            F.append(("perm%d(%s)" % (r, name), U[np.ix_(perm, perm)]))
    for n in (2, 3, 6):
        F.append(("empty%d" % n, empty(n)))
    F.append(("petersen", petersen()))
    F.append(("cube", from_edges(8, [(i, i ^ (1 << b)) for i in range(8) for b in range(3)])))
    F.append(("grid3x3", grid(3, 3)))
    F.append(("grid3x4", grid(3, 4)))
    if big:
        F.append(("grid5x6", grid(5, 6)))
        F.append(("layered3x3", layered(3, 3)))
        F.append(("layered4x4", layered(4, 4)))
        F.append(("barbell6_4", barbell(6, 4)))
        F.append(("binary_tree31", binary_tree(31)))
    F.append(("layered3x2", layered(3, 2)))
    F.append(("layered2x4", layered(2, 4)))
    F.append(("barbell4_0", barbell(4, 0)))
    F.append(("barbell4_2", barbell(4, 2)))
    F.append(("lollipop", sym(disjoint_union(clique(5), path(4)) + from_edges(9, [(4, 5)]))))
    F.append(("binary_tree15", binary_tree(15)))
    F.append(("windmill3", windmill(3)))
    F.append(("windmill5", windmill(5)))
    F.append(("cocktail3", cocktail(3)))
    F.append(("cocktail4", cocktail(4)))
    K7m = clique(7)
    K7m[0, 1] = K7m[1, 0] = 0
    F.append(("K7-minus-edge", K7m))
    F.append(("K6+pendant", sym(disjoint_union(clique(6), empty(1)) + from_edges(7, [(0, 6)]))))
    return F


def directed_families(tier, rng):
    big = tier == "thorough"
    F = []
    for n in (list(range(2, 9)) + ([20, 40] if big else [13])):
        F.append(("dpath%d" % n, from_edges(n, [(i, i + 1) for i in range(n - 1)], True)))
    for n in (list(range(3, 9)) + ([20, 40] if big else [13])):
        F.append(("dcycle%d" % n, from_edges(n, [(i, (i + 1) % n) for i in range(n)], True)))
    for n in (3, 5, 8):
        F.append(("bidirected-cycle%d" % n, cycle(n)))
        F.append(("bidirected-clique%d" % n, clique(n)))
        F.append(("out-star%d" % n, from_edges(n, [(0, i) for i in range(1, n)], True)))
        F.append(("in-star%d" % n, from_edges(n, [(i, 0) for i in range(1, n)], True)))
        F.append(("transitive-tournament%d" % n,
                  from_edges(n, [(i, j) for i in range(n) for j in range(i + 1, n)], True)))
    for n in (5, 7, 9) + ((15, 25) if big else ()):
        T = np.zeros((n, n), dtype=int)
        for i in range(n):
            for j in range(i + 1, n):
                if rng.rand() < 0.5:
                    T[i, j] = 1
                else:
                    T[j, i] = 1
        F.append(("random-tournament%d" % n, T))
    F.append(("cycle+chord", from_edges(6, [(i, (i + 1) % 6) for i in range(6)] + [(0, 3)], True)))
    F.append(("two-cycles-sharing-node", from_edges(5, [(0, 1), (1, 2), (2, 0), (0, 3), (3, 4), (4, 0)], True)))
    F.append(("dcycle3+dcycle4", disjoint_union(from_edges(3, [(0, 1), (1, 2), (2, 0)], True),
                                                from_edges(4, [(0, 1), (1, 2), (2, 3), (3, 0)], True))))
    F.append(("dpath3+K1", disjoint_union(from_edges(3, [(0, 1), (1, 2)], True), empty(1))))
    F.append(("layered-dag", np.triu(layered(3, 2), 1)))
    F.append(("dcycle-with-reciprocal", from_edges(5, [(i, (i + 1) % 5) for i in range(5)] + [(1, 0), (3, 2)], True)))
    F.append(("empty-directed4", empty(4)))
    return F


def random_weights(rng, A, directed, choices=None):
    n = len(A)
    if choices is None:
        W = rng.uniform(0.25, 4.0, size=(n, n))
    else:
        W = rng.choice(choices, size=(n, n))
    if rng.randint(5) == 0:
        # some links of length exactly 0 (co-located nodes): a legal link attribute value, not "no link"
        W = np.where(rng.random_sample((n, n)) < 0.3, 0.0, W)
    if not directed:
        W = np.triu(W, 1)
        W = W + W.T
    return W * (np.asarray(A) != 0)


def all_weightings(A, directed):
    A = np.asarray(A)
    n = len(A)
    links = [(i, j) for i in range(n) for j in range(n) if A[i, j] and (directed or i < j)]
    for combo in itertools.product(WEIGHT_SET, repeat=len(links)):
        W = np.zeros((n, n))
        for (i, j), w in zip(links, combo):
            W[i, j] = w
            if not directed:
                W[j, i] = w
        yield W


def generate(tier, seed):
    """-> list of (witness, exhaustive_subsets)"""
    rng = np.random.RandomState(seed)
    big = tier == "thorough"
    tasks = []

    def add(A, directed, W=None, label="", ex=False):
        if W is not None and not np.any(A):
            return      # no link, no link attribute (igraph cannot even store one): listed in `skipped`
        tasks.append((mk_wit(A, directed, W, label), ex))

    # 1. exhaustive small graphs
    for n in range(2, 6):
        graphs = list(all_undirected_graphs(n))
        if n == 5 and not big:
            idx = rng.choice(len(graphs), size=300, replace=False)
            graphs = [graphs[i] for i in sorted(idx)]
        for A in graphs:
            add(A, False, label="undirected-n%d" % n, ex=big)
    for n in range(2, 5):
        graphs = list(all_directed_graphs(n))
        if n == 4 and not big:
            idx = rng.choice(len(graphs), size=400, replace=False)
            graphs = [graphs[i] for i in sorted(idx)]
        for A in graphs:
            add(A, True, label="directed-n%d" % n)
    # 2. structured families
    for name, A in undirected_families(tier):
        add(A, False, label=name)
    for name, A in directed_families(tier, rng):
        add(A, True, label=name)
    # 3. seeded random graphs, 6..40 nodes, full density range
    nu, nd = (160, 100) if big else (32, 16)
    for q in range(nu):
        n = int(rng.randint(6, 41)) if big else int(rng.randint(6, 31))
        p = [0.03, 0.08, 0.15, 0.3, 0.5, 0.7, 0.9, 0.97][q % 8] if q % 3 else float(rng.uniform(0.02, 0.98))
        add(random_graph(rng, n, p), False, label="random-u n=%d p=%.2f" % (n, p))
    for q in range(nd):
        n = int(rng.randint(6, 41)) if big else int(rng.randint(6, 31))
        p = [0.05, 0.1, 0.2, 0.4, 0.6, 0.9][q % 6] if q % 3 else float(rng.uniform(0.02, 0.98))
        add(random_graph(rng, n, p, directed=True), True, label="random-d n=%d p=%.2f" % (n, p))
    # 4. link-weighted variants: all assignments from WEIGHT_SET on small graphs, seeded beyond
    for n in range(2, 5 if big else 4):
        for A in all_undirected_graphs(n):
            for W in all_weightings(A, False):
                add(A, False, W, label="weighted-u n=%d" % n)
    for n in range(2, 4 if big else 3):
        for A in all_directed_graphs(n):
            for W in all_weightings(A, True):
                add(A, True, W, label="weighted-d n=%d" % n)
    samples = [(4 if not big else 5, False, 1500 if big else 80), (3 if not big else 4, True, 2500 if big else 120)]
    for n, directed, cnt in samples:
        for _ in range(cnt):
            A = random_graph(rng, n, float(rng.uniform(0.2, 1.0)), directed=directed)
            add(A, directed, random_weights(rng, A, directed, WEIGHT_SET), label="weighted-sample n=%d" % n)
    for q in range(60 if big else 8):
        n = int(rng.randint(6, 41 if big else 21))
        directed = bool(q % 2)
        A = random_graph(rng, n, float(rng.uniform(0.05, 0.9)), directed=directed)
        W = random_weights(rng, A, directed, WEIGHT_SET if q % 4 < 2 else None)
        add(A, directed, W, label="weighted-random n=%d" % n)
    for name, A in undirected_families("quick")[:: (2 if big else 6)]:
        add(A, False, random_weights(rng, A, False, WEIGHT_SET), label="weighted-" + name)
    return tasks


# ---------------------------------------------------------------------------------------- main

def main():
    args = parse_args()
    scope = ("Network measures vs. definition-level oracles (specs/network_spec.py). Graphs: "
             + ("ALL labelled undirected graphs on 2..5 nodes and ALL labelled directed graphs on 2..4 nodes"
                if args.tier == "thorough" else
                "all labelled undirected graphs on 2..4 nodes + 300 seeded 5-node ones, all directed graphs on "
                "2..3 nodes + 400 seeded 4-node ones")
             + "; structured families (paths, cycles, stars, wheels, cliques, complete bipartite, disjoint unions, "
               "isolated nodes, Petersen, cube, grids, layered multi-path graphs, barbells, trees, windmills, "
               "cocktail-party graphs; directed paths/cycles/stars/tournaments/DAGs/unions); seeded G(n,p) graphs with "
               "6..40 nodes (quick: 6..30) over p in 0.02..0.98, undirected and directed; link-weighted variants with ALL "
               "weight assignments from {1,2,3} on "
             + ("undirected n<=4 / directed n<=3" if args.tier == "thorough" else "undirected n<=3 / directed n<=2")
             + " plus seeded samples and real-valued weights on larger graphs. The deprecated key "
               "link_attribute='topological' (documented as: use None) of path_lengths, average_path_length, "
               "global_efficiency, local_vulnerability, closeness, laplacian and pagerank is judged by the "
               "unweighted definitions (checks .../deprecated-topological-key). Unit node weights for all n.s.i. "
               "relations. Tolerances: exact-valued measures rtol 1e-9/atol 1e-12; float64 linear algebra (Newman, "
               "Arenas, pagerank, msf) rtol 1e-7/atol 1e-9; ARPACK eigenvectors (tol=1e-8 in the code, shift-invert at N^2) rtol 1e-5/atol "
               "max(1e-6, 1e-7*N^2/spectral gap). No float32 kernels are involved.")
    rule = ("One evaluation = one (measure clause, graph[, link weights][, source/target sets]) comparison of the "
            "library value with the oracle value, restricted to the entries where the definition (or a documented "
            "convention) gives a value. A case is distinct by (clause, labelled adjacency matrix, weight matrix); it "
            "is non-trivial when the oracle value has a non-zero entry; additionally path based clauses need a pair of "
            "nodes at distance >= 2 (weighted: a distance that differs from hop count x minimal weight), clustering "
            "clauses need a triangle, cliquishness order 4/5 a node of degree >= 3/4, centrality vectors must not be "
            "constant.")
    rep = Report(PROP, args, scope, rule)
    for s in SKIPPED:
        rep.skip(s)

    try:
        if args.replay:
            with open(args.replay) as f:
                wit = json.load(f)["witness"]
            tasks = [(mk_wit(wit["A"], wit["directed"], wit.get("W"), wit.get("label", "replay")), True)]
            results = map(run_case, tasks)
        else:
            tasks = generate(args.tier, args.seed)
            # big graphs first for better load balance
            tasks.sort(key=lambda t: -len(t[0]["A"]))
            nproc = min(8, mp.cpu_count())
            pool = mp.Pool(nproc)
            results = pool.imap_unordered(run_case, tasks, chunksize=8)
        for key, wit, res in results:
            for check, ok, nontrivial, detail in res:
                sample = None
                if len(rep.samples) < 8 and nontrivial and len(wit["A"]) >= 4 and \
                        check not in [s.get("check") for s in rep.samples]:
                    sample = {"check": check, "label": wit["label"], "A": wit["A"], "directed": wit["directed"],
                              "W": wit["W"]}
                rep.case(check + "|" + key, nontrivial=nontrivial, sample=sample)
                if not ok:
                    rep.fail(check, wit, detail)
        if not args.replay:
            pool.close()
            pool.join()
    except Exception as e:   # harness cannot run
        import traceback
        traceback.print_exc()
        rep.skip("HARNESS ERROR: %r" % (e,))
        rep.finish()
        sys.exit(3)
    rep.finish()
    sys.exit(0)


if __name__ == "__main__":
    main()
