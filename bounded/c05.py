#!/usr/bin/env python
"""Bounded stand-in for C05: all representations of a network agree and survive save/load.

Every case is (adjacency A, directed?, node weights w | None, link-attribute matrices).  The
oracle is computed from the *input* only (pure NumPy):

    N = dim A, n_links = sum(A) (/2 undirected), link_density = sum(A) / (N (N-1)),
    adjacency = A (symmetric, zero diagonal when undirected), graph: vcount = N,
    ecount = n_links, edge set = {(i,j): A[i,j] = 1}, simple, directedness,
    node_weights = w (ones if None), total = sum w, mean = sum w / N,
    link_attribute(name) = L * A.

It is compared with the observables of the object obtained along every construction path
(dense list / ndarray dtypes, scipy sparse formats, edge list with and without n_nodes, igraph
object, copy / undirected_copy, adjacency.setter / set_edge_list / node_weights.setter on a live
object, save -> Load in graphml / graphmlz / pickle / gml, and the SpatialNetwork / GeoNetwork
save / Load with their grids, GeoNetwork.set_node_weight_type).

check names are "<path>/<observable>".  Separately named checks for situations that are known or
doubtful:  adjacency_setter/known29-N-change-node-weights (finding #29),
save_load[gml]/node_weights (+ Spatial/Geo twins), init_edge_list/both-orientations.
Further paths: init_sparse_explicit_zeros / adjacency_setter_explicit_zeros (scipy inputs with stored
zeros or duplicate coo entries), permuted_copy, and mutate_save_load[<mutator>] = save -> Load
after public mutators on the same object (adjacency_setter, adjacency_setter_newN, set_edge_list,
node_weights_setter, node_weights_then_adjacency, set_link_attribute, del_link_attribute, copy,
undirected_copy, permuted_copy, loaded_then_node_weights, loaded_then_adjacency,
FromIGraph_then_node_weights, randomly_rewire; Spatial/Geo: adjacency_setter, set_edge_list,
node_weights_setter, set_node_weight_type).

Persistence block (kinds p_spatial / p_geo / p_climate and the node-attribute paths of the plain
Network cases): every class of the anchors that offers save / Load (Network, SpatialNetwork,
GeoNetwork, ClimateNetwork) is written in graphml / graphmlz / pickle / gml together with its
companion files (Grid pickle, similarity matrix dump; GeoGrid text files), read back with its own
Load *and* with the Load of every parent class, and compared field by field with the input-only
oracle; node attributes (set_node_attribute / node_attribute / del_node_attribute) go through the
same files; GeoNetwork.save_for_cgv is read back with Network.Load.  New check names:
  save_load[<fmt>]/node_attribute, node_attribute/roundtrip, set_node_attribute/length,
  mutate_save_load[del_node_attribute]/node_attribute,
  <Cls>.save_load[<fmt>]/{N,...,node_attribute,grid,type,similarity,rethreshold,files},
  <Cls>.save><Other>.Load[<fmt>]/..., <Cls>.save[no-grid]/..., <Cls>.save_load[txt-grid]/...,
  ClimateNetwork.save[<fmt>]/similarity_file, ClimateNetwork.Load/raises,
  Grid.save_load/grid, GeoGrid.save_load/grid, GeoGrid.save_txt_LoadTXT/grid,
  GeoGrid.save_txt_LoadTXT/single-time-point, GeoNetwork.save_for_cgv[<fmt>]/...,
  <Cls>.mutate_save_load[<mutator>]/... (set_threshold, set_non_local, node_weights_setter,
  set_link_attribute, set_node_attribute, overwrite, loaded_then_node_weights).
"""
import os
import sys
import tempfile
import json
import itertools
import multiprocessing as mp

import numpy as np
import scipy.sparse as sp

from bounded.common import (parse_args, Report, jsonable, all_undirected_graphs,
                            all_directed_graphs, random_graph, quiet)

FORMATS = ("graphml", "graphmlz", "pickle", "gml")
TEXT_RTOL = 1e-12      # graphml / gml write doubles with 15 significant digits
GRID_RTOL = 1e-5       # grids are stored as float32


# ------------------------------------------------------------------ oracle (input only)

def expected(A, directed, w):
    A = np.asarray(A, dtype=np.int64)
    n = A.shape[0]
    s = int(A.sum())
    if w is None:
        w = np.ones(n)
    w = np.asarray(w, dtype=float)
    if directed:
        edges = {(int(i), int(j)) for i, j in zip(*np.nonzero(A))}
    else:
        edges = {(int(i), int(j)) for i, j in zip(*np.nonzero(A)) if i < j}
    tot = float(sum(float(x) for x in w))
    return {"N": n, "n_links": s if directed else s // 2,
            "link_density": s / (n * (n - 1)) if n > 1 else (0.0 if n == 1 else None),
            "A": A, "directed": bool(directed), "edges": edges,
            "w": w, "total": tot, "mean": tot / n if n else None}


def _close(a, b, rtol):
    a = np.asarray(a, dtype=float)
    b = np.asarray(b, dtype=float)
    return a.shape == b.shape and bool(np.allclose(a, b, rtol=rtol, atol=rtol))


def compare(fails, path, net, exp, attrs, wtol=0.0, skip=()):
    """Compare all observables of `net` with the oracle; append (check, detail)."""
    def bad(obs, detail):
        fails.append((f"{path}/{obs}", detail))

    n = exp["N"]
    if "N" not in skip:
        if not (isinstance(net.N, (int, np.integer)) and int(net.N) == n):
            bad("N", f"N={net.N!r} expected {n}")
        if len(net) != n:
            bad("N", f"len(net)={len(net)} expected {n}")
    if int(net.n_links) != exp["n_links"]:
        bad("n_links", f"n_links={net.n_links!r} expected {exp['n_links']}")
    if exp["link_density"] is not None and \
            not _close(net.link_density, exp["link_density"], 1e-12):
        bad("link_density", f"link_density={net.link_density!r} expected {exp['link_density']!r}")
    if bool(net.directed) != exp["directed"]:
        bad("directed", f"directed={net.directed!r}")
    # adjacency (dense view) and sparse matrix
    try:
        Ad = np.asarray(net.adjacency)
        if Ad.shape != exp["A"].shape or not np.array_equal(Ad, exp["A"]):
            bad("adjacency", f"adjacency={Ad.tolist()} expected {exp['A'].tolist()}")
        elif not exp["directed"] and (not np.array_equal(Ad, Ad.T) or np.diag(Ad).any()):
            bad("adjacency", "undirected adjacency not symmetric / diagonal not empty")
        S = net.sp_A
        if not sp.issparse(S) or S.shape != exp["A"].shape or \
                not np.array_equal(S.toarray(), exp["A"]):
            bad("sp_A", f"sp_A={S.toarray().tolist() if sp.issparse(S) else S!r}")
    except Exception as e:   # noqa
        bad("adjacency", f"raised {e!r}")
    # embedded igraph object
    g = net.graph
    try:
        el = g.get_edgelist()
        if exp["directed"]:
            es = {(int(a), int(b)) for a, b in el}
        else:
            es = {(min(int(a), int(b)), max(int(a), int(b))) for a, b in el}
        if g.vcount() != n or g.ecount() != exp["n_links"] or es != exp["edges"] \
                or len(el) != len(es) or any(a == b for a, b in el) \
                or bool(g.is_directed()) != exp["directed"]:
            bad("graph", f"igraph: vcount={g.vcount()} ecount={g.ecount()} "
                         f"directed={g.is_directed()} edges={sorted(es)} "
                         f"expected N={n} edges={sorted(exp['edges'])}")
    except Exception as e:   # noqa
        bad("graph", f"raised {e!r}")
    # node weights
    if "node_weights" not in skip:
        w = net.node_weights
        ok_w = w is not None and np.asarray(w).dtype.kind in "fiu" and _close(w, exp["w"], wtol)
        if not ok_w:
            bad("node_weights", f"node_weights={None if w is None else np.asarray(w).tolist()} "
                                f"expected {exp['w'].tolist()}")
        else:
            if not _close(net.total_node_weight, exp["total"], max(wtol, 1e-12)):
                bad("total_node_weight", f"total={net.total_node_weight!r} expected {exp['total']!r}")
            if exp["mean"] is not None and \
                    not _close(net.mean_node_weight, exp["mean"], max(wtol, 1e-12)):
                bad("mean_node_weight", f"mean={net.mean_node_weight!r} expected {exp['mean']!r}")
    # representation invariant (whatever the weights are): len = N, totals are those of the
    # stored vector
    w = net.node_weights
    if "weights_inv" not in skip and w is not None:
        if len(w) != int(net.N) or not _close(net.total_node_weight, np.sum(w), 1e-12) \
                or (len(w) and not _close(net.mean_node_weight, np.sum(w) / len(w), 1e-12)):
            bad("weights_consistent", f"len(w)={len(w)} N={net.N} total={net.total_node_weight!r} "
                                      f"mean={net.mean_node_weight!r} sum={np.sum(w)!r}")
    # link attributes
    for name, L in (attrs or {}).items():
        try:
            got = net.link_attribute(name)
            want = np.asarray(L, dtype=float) * exp["A"]
            if not _close(got, want, max(wtol, 0.0)):
                bad("link_attribute", f"link_attribute({name!r})={np.asarray(got).tolist()} "
                                      f"expected {want.tolist()}")
        except Exception as e:   # noqa
            bad("link_attribute", f"link_attribute({name!r}) raised {e!r}")


# ------------------------------------------------------------------ one case, all paths

def _edge_rows(A, directed, rs, both=False):
    A = np.asarray(A)
    if directed or both:
        rows = [[int(i), int(j)] for i, j in zip(*np.nonzero(A))]
    else:
        rows = [[int(i), int(j)] for i, j in zip(*np.nonzero(A)) if i < j]
        rows = [r[::-1] if rs.randint(2) else r for r in rows]
    rs.shuffle(rows)
    return rows


def run_case(case):
    """Returns dict(evals=[(key, nontrivial)], fails=[(check, detail)])."""
    import igraph
    from pyunicorn.core.network import Network
    A = np.asarray(case["A"], dtype=np.int64)
    n = A.shape[0]
    directed = bool(case["directed"])
    w = case.get("w")
    attrs = {k: np.asarray(v, dtype=float) for k, v in (case.get("attrs") or {}).items()}
    rs = np.random.RandomState(case.get("rs", 0))
    exp = expected(A, directed, w)
    fails, evals = [], []
    nontriv = bool(A.any()) or w is not None
    gkey = (n, directed, A.tobytes(), None if w is None else tuple(w))

    def ev(path):
        evals.append(((path,) + gkey, nontriv))

    def guarded(path, fn):
        ev(path)
        try:
            with quiet():
                fn()
        except Exception as e:   # noqa
            fails.append((f"{path}/raises", f"{type(e).__name__}: {e}"))

    def with_attrs(net):
        for name, L in attrs.items():
            net.set_link_attribute(name, L)
        return net

    kw = dict(directed=directed, node_weights=w, silence_level=3)

    # --- dense
    def p_dense(conv, label):
        def f():
            net = with_attrs(Network(adjacency=conv(A), **kw))
            compare(fails, "init_dense", net, exp, attrs)
        guarded("init_dense:" + label, f)
    p_dense(lambda M: M.tolist(), "list")
    p_dense(lambda M: M.astype(np.int8), "int8")
    p_dense(lambda M: M.astype(np.int64), "int64")
    p_dense(lambda M: M.astype(bool), "bool")
    p_dense(lambda M: M.astype(float), "float")
    p_dense(lambda M: np.asfortranarray(M.astype(np.int16)), "int16F")

    # --- one float64 weight vector object handed to several networks; a copy; in-place arithmetic on the weights of one of
    #     them (`net.node_weights *= c` reads, edits and re-assigns): every network keeps describing ITS weights - node
    #     weights, total and mean agree with each other and with what it was given
    if w is not None:
        def f_shared():
            wv = np.array(w, dtype=np.float64)
            keep = wv.copy()
            net1 = Network(adjacency=A.astype(np.int8), directed=directed, node_weights=wv, silence_level=3)
            net2 = Network(adjacency=A.astype(np.int8), directed=directed, node_weights=wv, silence_level=3)
            twin = net1.copy()
            twin.node_weights *= 2.0
            net2.node_weights /= 4.0
            compare(fails, "shared_weight_vector/first-network", net1, exp, {})
            compare(fails, "shared_weight_vector/copy-scaled", twin, expected(A, directed, (keep * 2.0).tolist()), {})
            compare(fails, "shared_weight_vector/second-network-scaled", net2, expected(A, directed, (keep / 4.0).tolist()), {})
            if not np.array_equal(wv, keep):
                fails.append(("shared_weight_vector/caller-array", f"the caller's vector changed: {keep.tolist()} -> {wv.tolist()}"))
        guarded("shared_weight_vector", f_shared)

    # --- sparse
    for fmt in ("csc", "csr", "coo", "lil", "dok"):
        def f(fmt=fmt):
            M = getattr(sp, fmt + "_matrix")(A.astype(np.int8 if fmt in ("csc", "csr") else np.int64))
            net = with_attrs(Network(adjacency=M, **kw))
            compare(fails, "init_sparse", net, exp, attrs)
        guarded("init_sparse:" + fmt, f)

    # --- sparse inputs carrying explicitly stored zeros, and coo inputs with duplicate entries
    #     that sum to the 0/1 value; they denote the same matrix as the dense input
    def zero_positions(k):
        free = [(i, j) for i in range(n) for j in range(n) if not A[i, j]]
        if not free:
            return []
        idx = rs.choice(len(free), size=min(k, len(free)), replace=False)
        return [free[i] for i in idx]

    def sparse_with_zeros(fmt, dup):
        li, lj = np.nonzero(A)
        zs = zero_positions(max(1, n))
        rows = list(li) + [z[0] for z in zs]
        cols = list(lj) + [z[1] for z in zs]
        data = [1] * len(li) + [0] * len(zs)
        if dup:     # duplicates: every link again with a 0, every stored zero twice
            rows, cols, data = rows + rows, cols + cols, data + [0] * len(data)
        order = rs.permutation(len(rows))
        M = sp.coo_matrix((np.array(data, dtype=np.int64)[order],
                           (np.array(rows, dtype=int)[order], np.array(cols, dtype=int)[order])),
                          shape=(n, n))
        if fmt != "coo":
            M = getattr(M, "to" + fmt)()
        return M, len(zs)

    for fmt, dup in (("csc", False), ("csr", False), ("coo", False), ("coo", True), ("csc", True)):
        def f(fmt=fmt, dup=dup):
            M, nz = sparse_with_zeros(fmt, dup)
            if fmt == "coo" and not dup and nz and M.nnz != int(A.sum()) + nz:
                raise RuntimeError("harness: explicit zeros were not stored")
            net = with_attrs(Network(adjacency=M, **kw))
            compare(fails, "init_sparse_explicit_zeros", net, exp, attrs)
            # the same on a live object
            other = 1 - A
            np.fill_diagonal(other, 0)
            if not directed:
                other = np.triu(other, 1)
                other = other + other.T
            net2 = Network(adjacency=other, **kw)
            M2, _ = sparse_with_zeros(fmt, dup)
            net2.adjacency = M2
            compare(fails, "adjacency_setter_explicit_zeros", with_attrs(net2), exp, attrs)
        guarded(f"init_sparse_explicit_zeros:{fmt}{':dup' if dup else ''}", f)

    # copy of the library's own sp_A after links were removed by item assignment (stored zeros)
    def p_spA_edit():
        free = [(i, j) for i in range(n) for j in range(n) if i != j and not A[i, j]
                and (directed or i < j)]
        if not free:
            return
        B = A.copy()
        for i, j in [free[k] for k in rs.choice(len(free), size=min(2, len(free)), replace=False)]:
            B[i, j] = 1
            if not directed:
                B[j, i] = 1
        big = Network(adjacency=B, directed=directed, silence_level=3)
        for conv in ("tocsc", "tocsr", "tocoo"):
            S = big.sp_A.copy()
            for i, j in zip(*np.nonzero(B - A)):
                S[i, j] = 0
            S = getattr(S, conv)()
            net = with_attrs(Network(adjacency=S, **kw))
            compare(fails, "init_sparse_explicit_zeros", net, exp, attrs)
            big.adjacency = S
            compare(fails, "adjacency_setter_explicit_zeros", big, expected(A, directed, None), {})
            big.adjacency = B
    guarded("init_sparse_explicit_zeros:edited-sp_A", p_spA_edit)

    # --- edge list
    def p_el(as_array, with_n):
        def f():
            rows = _edge_rows(A, directed, rs)
            el = np.array(rows, dtype=int).reshape(-1, 2) if as_array else rows
            net = Network(edge_list=el, n_nodes=n if with_n else None, **kw)
            compare(fails, "init_edge_list", with_attrs(net), exp, attrs)
        guarded(f"init_edge_list:{'arr' if as_array else 'list'}:{'n' if with_n else 'auto'}", f)
    p_el(False, True)
    p_el(True, True)
    if A[-1].any() or A[:, -1].any():      # N = max index + 1 is only defined then
        p_el(False, False)

    # --- edge list as returned by the library's own edge_list() (both orientations)
    if not directed and A.any():
        def f():
            rows = _edge_rows(A, directed, rs, both=True)
            net = Network(edge_list=rows, n_nodes=n, **kw)
            sub = []
            compare(sub, "x", net, exp, {})
            if sub:     # one stable name for this (doubtful) input form
                fails.append(("init_edge_list/both-orientations",
                              "edge list with every undirected link in both orientations (as "
                              "returned by Network.edge_list()): " + "; ".join(d for _, d in sub)[:400]))
        guarded("init_edge_list:both-orientations", f)

    # --- igraph
    def make_graph():
        rows = _edge_rows(A, directed, rs)
        g = igraph.Graph(n=n, edges=[tuple(r) for r in rows], directed=directed)
        if w is not None:
            g.vs["node_weight_nsi"] = [float(x) for x in w]
        for name, L in attrs.items():
            g.es[name] = [float(L[r[0], r[1]]) for r in rows]
        return g

    def p_ig():
        net = Network.FromIGraph(make_graph(), silence_level=3)
        compare(fails, "FromIGraph", net, exp, attrs)
    guarded("FromIGraph", p_ig)

    # --- copies
    def p_copy():
        src = with_attrs(Network(adjacency=A, **kw))
        net = src.copy()
        if net is src or net.sp_A is src.sp_A or net.graph is src.graph:
            fails.append(("copy/independent", "copy shares state with the original"))
        compare(fails, "copy", with_attrs(net), exp, attrs)
        compare(fails, "copy(source-after)", src, exp, attrs)
    guarded("copy", p_copy)

    def p_ucopy():
        src = Network(adjacency=A, **kw)
        net = src.undirected_copy()
        U = ((A + A.T) > 0).astype(np.int64)
        uattrs = {k: np.maximum(v, v.T) for k, v in attrs.items()}
        compare(fails, "undirected_copy", net, expected(U, False, w), {})
        for name, L in uattrs.items():
            net.set_link_attribute(name, L)
        compare(fails, "undirected_copy", net, expected(U, False, w), uattrs)
        compare(fails, "undirected_copy(source-after)", src, exp, {})
    guarded("undirected_copy", p_ucopy)

    def p_pcopy():
        src = with_attrs(Network(adjacency=A, **kw))
        perm = rs.permutation(n)
        net = src.permuted_copy(perm)
        Ap = A[np.ix_(perm, perm)]
        wp = None if w is None else np.asarray(w, dtype=float)[perm]
        pattrs = {k: v[np.ix_(perm, perm)] for k, v in attrs.items()}
        for name, L in pattrs.items():
            net.set_link_attribute(name, L)
        compare(fails, "permuted_copy", net, expected(Ap, directed, wp), pattrs)
        compare(fails, "permuted_copy(source-after)", src, exp, attrs)
    guarded("permuted_copy", p_pcopy)

    # --- mutators on a live object
    def p_setter():
        other = 1 - A
        np.fill_diagonal(other, 0)
        if not directed:
            other = np.triu(other, 1)
            other = other + other.T
        net = with_attrs(Network(adjacency=other, **kw))
        net.adjacency = A.tolist() if rs.randint(2) else sp.csr_matrix(A)
        compare(fails, "adjacency_setter", with_attrs(net), exp, attrs)
        net.adjacency = other
        net.set_edge_list(_edge_rows(A, directed, rs), n)
        compare(fails, "set_edge_list", with_attrs(net), exp, attrs)
    guarded("adjacency_setter", p_setter)

    def p_wsetter():
        net = Network(adjacency=A, directed=directed, silence_level=3)
        compare(fails, "init_default_weights", net, expected(A, directed, None), {})
        w2 = rs.randint(0, 17, size=n) / 4.0
        net.node_weights = w2 if rs.randint(2) else w2.tolist()
        compare(fails, "node_weights_setter", net, expected(A, directed, w2), {})
        net.node_weights = None
        compare(fails, "node_weights_setter", net, expected(A, directed, None), {})
        try:
            net.node_weights = np.ones(n + 1)
            fails.append(("node_weights_setter/length", "accepted n+1 weights"))
        except Exception:   # noqa
            compare(fails, "node_weights_setter(rejected)", net, expected(A, directed, None), {})
    guarded("node_weights_setter", p_wsetter)

    # --- known finding #29: a new adjacency of another size under fixed node weights
    if case.get("known29") and n >= 3:
        def p29():
            net = Network(adjacency=A, **kw)
            B = A[:-1, :-1]
            net.adjacency = B
            wv = net.node_weights
            if len(wv) != int(net.N) or not _close(net.mean_node_weight, np.sum(wv) / net.N, 1e-12):
                fails.append(("adjacency_setter/known29-N-change-node-weights",
                              f"after adjacency = {n-1}x{n-1} matrix: N={net.N} but "
                              f"len(node_weights)={len(wv)}, mean={net.mean_node_weight!r}"))
            compare(fails, "adjacency_setter(N-change)", net, expected(B, directed, None), {},
                    skip=("node_weights", "weights_inv"))
        guarded("adjacency_setter:known29", p29)

    # --- save -> Load
    with tempfile.TemporaryDirectory(prefix="c05_") as d:
        for fmt in FORMATS:
            # GML keys are alphanumeric: igraph drops '_' from attribute names.  User-chosen
            # link attribute names with '_' are therefore not demanded for gml.
            a_fmt = {k: v for k, v in attrs.items() if fmt != "gml" or k.isalnum()}

            def f(fmt=fmt, a_fmt=a_fmt):
                src = with_attrs(Network(adjacency=A, **kw))
                fn = os.path.join(d, f"net_{fmt}.{fmt}")
                src.save(fn) if rs.randint(2) else src.save(fn, fileformat=fmt)
                net = Network.Load(fn, silence_level=3) if rs.randint(2) else \
                    Network.Load(fn, fileformat=fmt, silence_level=3)
                wtol = 0.0 if fmt == "pickle" else TEXT_RTOL
                sub = []
                compare(sub, f"save_load[{fmt}]", net, exp, a_fmt, wtol=wtol)
                if fmt == "gml":   # keep the lost-weights defect under one stable name
                    sub = [s for s in sub if not s[0].endswith(("total_node_weight", "mean_node_weight"))]
                fails.extend(sub)
                compare(fails, f"save_load[{fmt}](source-after)", src, exp, attrs)
            guarded(f"save_load[{fmt}]", f)

        # igraph object round trip through FromIGraph after Load is covered above; also the
        # loaded network must itself be savable again (stored attribute survives twice)
        def f2():
            src = with_attrs(Network(adjacency=A, **kw))
            fn = os.path.join(d, "twice.graphml")
            src.save(fn)
            mid = Network.Load(fn, silence_level=3)
            fn2 = os.path.join(d, "twice2.pickle")
            mid.save(fn2)
            net = Network.Load(fn2, silence_level=3)
            compare(fails, "save_load[twice]", net, exp, attrs, wtol=TEXT_RTOL)
        guarded("save_load[twice]", f2)

        # ---- save -> Load after public mutators on the same object: everything that save()
        #      stores must come from the object's current fields, not from what happened to be
        #      attached to an earlier self.graph
        mfmts = ("graphml", "graphmlz", "pickle")
        mcount = [int(rs.randint(3))]

        def rt(net, tag):
            fmt = mfmts[mcount[0] % 3]
            mcount[0] += 1
            fn = os.path.join(d, f"m_{tag}_{mcount[0]}.{fmt}")
            net.save(fn, fileformat=fmt)
            return Network.Load(fn, fileformat=fmt, silence_level=3), \
                (0.0 if fmt == "pickle" else TEXT_RTOL)

        def other_graph():
            other = 1 - A
            np.fill_diagonal(other, 0)
            if not directed:
                other = np.triu(other, 1)
                other = other + other.T
            return other

        w_alt = (rs.randint(1, 33, size=n) / 8.0)

        def m_adj():
            net = with_attrs(Network(adjacency=other_graph(), **kw))
            net.adjacency = A if rs.randint(2) else sp.csc_matrix(A)
            with_attrs(net)
            got, tol = rt(net, "adj")
            compare(fails, "mutate_save_load[adjacency_setter]", got, exp, attrs, wtol=tol)
            compare(fails, "mutate_save_load[adjacency_setter](source-after)", net, exp, attrs)
        guarded("mutate_save_load[adjacency_setter]", m_adj)

        def m_adj_newN():
            m = n + 1 if rs.randint(2) or n < 2 else n - 1
            C = np.ones((m, m), dtype=int) - np.eye(m, dtype=int)
            net = Network(adjacency=C, directed=directed, node_weights=np.arange(1, m + 1) / 2.0,
                          silence_level=3)
            net.adjacency = A                  # N changes: weights must be given again (#29)
            net.node_weights = w
            with_attrs(net)
            got, tol = rt(net, "adjN")
            compare(fails, "mutate_save_load[adjacency_setter_newN]", got, exp, attrs, wtol=tol)
            compare(fails, "mutate_save_load[adjacency_setter_newN](source-after)", net, exp, attrs)
        guarded("mutate_save_load[adjacency_setter_newN]", m_adj_newN)

        def m_el():
            net = with_attrs(Network(adjacency=other_graph(), **kw))
            net.set_edge_list(_edge_rows(A, directed, rs), n)
            with_attrs(net)
            got, tol = rt(net, "el")
            compare(fails, "mutate_save_load[set_edge_list]", got, exp, attrs, wtol=tol)
        guarded("mutate_save_load[set_edge_list]", m_el)

        def m_w():
            net = with_attrs(Network(adjacency=A, **kw))
            got0, tol0 = rt(net, "w0")                 # a first save must not pin the weights
            compare(fails, "mutate_save_load[node_weights_setter]", got0, exp, attrs, wtol=tol0)
            net.node_weights = w_alt
            got, tol = rt(net, "w1")
            compare(fails, "mutate_save_load[node_weights_setter]", got,
                    expected(A, directed, w_alt), attrs, wtol=tol)
            net.node_weights = None
            got, tol = rt(net, "w2")
            compare(fails, "mutate_save_load[node_weights_setter]", got,
                    expected(A, directed, None), attrs, wtol=tol)
            # weights first, topology afterwards
            net.node_weights = w_alt
            net.adjacency = other_graph()
            net.adjacency = A
            got, tol = rt(net, "w3")
            compare(fails, "mutate_save_load[node_weights_then_adjacency]", got,
                    expected(A, directed, w_alt), {}, wtol=tol)
        guarded("mutate_save_load[node_weights_setter]", m_w)

        def m_la():
            net = with_attrs(Network(adjacency=A, **kw))
            rt(net, "la0")
            new = {k: 2.0 * v + 1.0 for k, v in attrs.items()}
            new["extra"] = np.asarray(rand_attr(rs, n, directed, True), dtype=float)
            for name, L in new.items():
                net.set_link_attribute(name, L)
            got, tol = rt(net, "la1")
            compare(fails, "mutate_save_load[set_link_attribute]", got, exp, new, wtol=tol)
            net.del_link_attribute("extra")
            got, tol = rt(net, "la2")
            del new["extra"]
            compare(fails, "mutate_save_load[set_link_attribute]", got, exp, new, wtol=tol)
            if got.find_link_attribute("extra") or net.find_link_attribute("extra"):
                fails.append(("mutate_save_load[del_link_attribute]/link_attribute",
                              "deleted link attribute still present"))
        guarded("mutate_save_load[set_link_attribute]", m_la)

        def m_copy():
            src = with_attrs(Network(adjacency=A, **kw))
            rt(src, "c0")
            cp = src.copy()
            got, tol = rt(with_attrs(cp), "c1")
            compare(fails, "mutate_save_load[copy]", got, exp, attrs, wtol=tol)
            U = ((A + A.T) > 0).astype(np.int64)
            got, tol = rt(src.undirected_copy(), "c2")
            compare(fails, "mutate_save_load[undirected_copy]", got, expected(U, False, w), {}, wtol=tol)
            perm = rs.permutation(n)
            got, tol = rt(src.permuted_copy(perm), "c3")
            compare(fails, "mutate_save_load[permuted_copy]", got,
                    expected(A[np.ix_(perm, perm)], directed,
                             None if w is None else np.asarray(w, dtype=float)[perm]), {}, wtol=tol)
        guarded("mutate_save_load[copy]", m_copy)

        def m_loaded():
            src = with_attrs(Network(adjacency=A, **kw))
            mid, _ = rt(src, "l0")
            # the loaded object carries a graph with a stored weight attribute: mutate, save again
            mid.node_weights = w_alt
            got, tol = rt(mid, "l1")
            compare(fails, "mutate_save_load[loaded_then_node_weights]", got,
                    expected(A, directed, w_alt), attrs, wtol=max(tol, TEXT_RTOL))
            mid.adjacency = other_graph()
            got, tol = rt(mid, "l2")
            compare(fails, "mutate_save_load[loaded_then_adjacency]", got,
                    expected(other_graph(), directed, w_alt), {}, wtol=max(tol, TEXT_RTOL))
            g = make_graph()
            net = Network.FromIGraph(g, silence_level=3)
            net.node_weights = w_alt
            got, tol = rt(net, "l3")
            compare(fails, "mutate_save_load[FromIGraph_then_node_weights]", got,
                    expected(A, directed, w_alt), attrs, wtol=tol)
        guarded("mutate_save_load[loaded]", m_loaded)

        def m_rewire():
            import random as pyrandom
            net = Network(adjacency=A, **kw)
            pyrandom.seed(int(case.get("rs", 0)))
            net.randomly_rewire(3)
            B = np.asarray(net.adjacency)
            compare(fails, "mutate_save_load[randomly_rewire](object)", net, expected(B, directed, w), {})
            got, tol = rt(net, "rw")
            compare(fails, "mutate_save_load[randomly_rewire]", got, expected(B, directed, w), {}, wtol=tol)
        if A.any():
            guarded("mutate_save_load[randomly_rewire]", m_rewire)

        # ---- node attributes (set_node_attribute / node_attribute / del_node_attribute) through
        #      every file format; own random stream so that the paths above keep their inputs
        rs2 = np.random.RandomState((int(case.get("rs", 0)) + 7919) % (2 ** 31 - 1))
        nattrs = rand_node_attrs(rs2, n)
        for fmt in FORMATS:
            def f_na(fmt=fmt):
                a_fmt = {k: v for k, v in attrs.items() if fmt != "gml" or k.isalnum()}
                na_fmt = {k: v for k, v in nattrs.items() if fmt != "gml" or k.isalnum()}
                src = with_attrs(Network(adjacency=A, **kw))
                set_node_attrs(src, nattrs, rs2)
                check_node_attrs(fails, "node_attribute/roundtrip", "node_attribute/roundtrip",
                                 src, nattrs, 0.0)
                with quiet():
                    src.set_node_attribute("badlen", np.ones(n + 1))
                if "badlen" in src.graph.vs.attributes():
                    fails.append(("set_node_attribute/length", "accepted n+1 values"))
                fn = os.path.join(d, f"na_{fmt}.{fmt}")
                src.save(fn, fileformat=fmt) if rs2.randint(2) else src.save(fn)
                net = Network.Load(fn, fileformat=fmt, silence_level=3) if rs2.randint(2) else \
                    Network.Load(fn, silence_level=3)
                wtol = 0.0 if fmt == "pickle" else TEXT_RTOL
                sub = []
                compare(sub, f"save_load[{fmt}]", net, exp, a_fmt, wtol=wtol)
                if fmt == "gml":
                    sub = [x for x in sub if not x[0].endswith(("total_node_weight", "mean_node_weight"))]
                fails.extend(sub)
                check_node_attrs(fails, f"save_load[{fmt}]/node_attribute", None, net, na_fmt, wtol)
                compare(fails, f"save_load[{fmt}](source-after)", src, exp, attrs)
                check_node_attrs(fails, "node_attribute/roundtrip", None, src, nattrs, 0.0)
                if fmt != "gml":
                    # a deleted attribute is not written any more, the others still are
                    src.del_node_attribute("score")
                    src.del_node_attribute("never_set")
                    fn2 = os.path.join(d, f"na2_{fmt}.{fmt}")
                    src.save(fn2, fileformat=fmt)
                    net = Network.Load(fn2, fileformat=fmt, silence_level=3)
                    rest = {k: v for k, v in nattrs.items() if k != "score"}
                    if "score" in net.graph.vs.attributes() or "score" in src.graph.vs.attributes():
                        fails.append(("mutate_save_load[del_node_attribute]/node_attribute",
                                      "deleted node attribute still present"))
                    check_node_attrs(fails, "mutate_save_load[del_node_attribute]/node_attribute",
                                     None, net, rest, wtol)
                    compare(fails, "mutate_save_load[del_node_attribute]", net, exp, attrs, wtol=wtol)
            guarded(f"save_load[{fmt}]:node_attribute", f_na)

    return {"evals": evals, "fails": fails}


# ------------------------------------------------------------------ node attributes

def rand_node_attrs(rs, n):
    """Numeric node attributes (docstring: 'degree or betweenness'): floats over several decades,
    an integer ranking, and one name containing '_' (not demanded for gml)."""
    return {"score": (rs.standard_normal(n) * 10 ** rs.uniform(-2, 2)).tolist(),
            "rank": [int(x) for x in rs.permutation(n)],
            "my_attr": (rs.randint(-16, 17, size=n) / 8.0).tolist()}


def set_node_attrs(net, nattrs, rs):
    for name, v in nattrs.items():
        net.set_node_attribute(name, np.asarray(v) if rs.randint(2) else list(v))


def check_node_attrs(fails, check, _unused, net, nattrs, tol):
    for name, v in nattrs.items():
        try:
            got = net.node_attribute(name)
            g = np.asarray(got)
            if g.dtype.kind not in "fiu" or not _close(g, v, tol):
                fails.append((check, f"node_attribute({name!r})={g.tolist()!r} ({g.dtype}) "
                                     f"expected {list(v)!r}"))
        except Exception as e:   # noqa
            fails.append((check, f"node_attribute({name!r}) raised {e!r}"))


# ------------------------------------------------------------------ spatial / geo cases

def run_spatial_case(case):
    from pyunicorn.core.grid import Grid
    from pyunicorn.core.geo_grid import GeoGrid
    from pyunicorn.core.spatial_network import SpatialNetwork
    from pyunicorn.core.geo_network import GeoNetwork
    A = np.asarray(case["A"], dtype=np.int64)
    n = A.shape[0]
    directed = bool(case["directed"])
    w = case.get("w")
    attrs = {k: np.asarray(v, dtype=float) for k, v in (case.get("attrs") or {}).items()}
    coords = np.asarray(case["coords"], dtype=float)      # [2, n]  (lat, lon) or (x, y)
    tseq = np.arange(case.get("T", 3), dtype=float)
    geo = case["kind"] == "geo"
    cls = "GeoNetwork" if geo else "SpatialNetwork"
    rs = np.random.RandomState(case.get("rs", 0))
    fails, evals = [], []
    gkey = (cls, n, directed, A.tobytes(), None if w is None else tuple(w), case.get("nwt"))

    def ev(path):
        evals.append(((path,) + gkey, True))

    def mk_grid():
        if geo:
            return GeoGrid(tseq, coords[0], coords[1], silence_level=3)
        return Grid(tseq, coords, silence_level=3)

    def geo_w(nwt):
        c = np.cos(coords[0].astype(np.float32).astype(float) * np.pi / 180)
        return c if nwt == "surface" else c ** 2 if nwt == "irrigation" else None

    def build(use_edge_list=False):
        args = dict(grid=mk_grid(), directed=directed, silence_level=3)
        if use_edge_list:
            rows = _edge_rows(A, directed, rs)
            if not (A[-1].any() or A[:, -1].any()):
                return None
            args["edge_list"] = rows
        else:
            args["adjacency"] = A
        if geo:
            args["node_weight_type"] = case.get("nwt")
            return GeoNetwork(**args)
        return SpatialNetwork(**args)

    def grid_ok(path, g):
        want_cls = GeoGrid if geo else Grid
        if type(g) is not want_cls:
            fails.append((f"{path}/grid", f"grid type {type(g).__name__}"))
            return
        sp_seq = np.asarray(g.sequence(0)), np.asarray(g.sequence(1))
        if g.N != n or not _close(sp_seq[0], coords[0], GRID_RTOL) or \
                not _close(sp_seq[1], coords[1], GRID_RTOL) or \
                not _close(g.grid()["time"], tseq, GRID_RTOL):
            fails.append((f"{path}/grid", f"grid sequences differ: {sp_seq} vs {coords.tolist()}"))

    def guarded(path, fn):
        ev(path)
        try:
            with quiet():
                fn()
        except Exception as e:   # noqa
            fails.append((f"{path}/raises", f"{type(e).__name__}: {e}"))

    # construction (+ GeoNetwork's own weights)
    def p_init():
        net = build()
        if geo:
            wg = geo_w(case.get("nwt"))
            compare(fails, f"{cls}.init", net, expected(A, directed, wg), {}, wtol=GRID_RTOL)
            for nwt in ("irrigation", None, "surface", "bogus"):
                net.set_node_weight_type(nwt)
                compare(fails, f"{cls}.set_node_weight_type", net,
                        expected(A, directed, geo_w(nwt)), {}, wtol=GRID_RTOL)
        else:
            compare(fails, f"{cls}.init", net, expected(A, directed, None), {})
        grid_ok(f"{cls}.init", net.grid)
        net2 = build(use_edge_list=True)
        if net2 is not None:
            wg = geo_w(case.get("nwt")) if geo else None
            compare(fails, f"{cls}.init_edge_list", net2, expected(A, directed, wg), {}, wtol=GRID_RTOL)
    guarded(f"{cls}.init", p_init)

    # copy() of a spatially embedded network: the same network - also when its weights were assigned by hand or installed
    # by another weight type than the one it was built with, and after loading
    def p_copy():
        src = build()
        variants = [("as-built", None)]
        if w is not None:
            variants.append(("assigned-weights", w))
        for label, wv in variants:
            if wv is not None:
                src.node_weights = wv
            w_src = np.array(src.node_weights, dtype=float)
            for name, L in attrs.items():
                src.set_link_attribute(name, L)
            cp = src.copy()
            compare(fails, f"{cls}.copy[{label}]", cp, expected(A, directed, w_src), {}, wtol=GRID_RTOL)
        if geo:
            for nwt in ("irrigation", None):
                src.set_node_weight_type(nwt)
                cp = src.copy()
                compare(fails, f"{cls}.copy[type-{nwt}]", cp, expected(A, directed, geo_w(nwt)), {}, wtol=GRID_RTOL)
    guarded(f"{cls}.copy", p_copy)

    with tempfile.TemporaryDirectory(prefix="c05_") as d:
        for fmt in FORMATS:
            a_fmt = {k: v for k, v in attrs.items() if fmt != "gml" or k.isalnum()}

            def f(fmt=fmt, a_fmt=a_fmt):
                src = build()
                if w is not None:
                    src.node_weights = w
                w_src = np.array(src.node_weights, dtype=float)
                for name, L in attrs.items():
                    src.set_link_attribute(name, L)
                fn = (os.path.join(d, f"n_{fmt}.{fmt}"), os.path.join(d, f"g_{fmt}.pkl"))
                src.save(fn, fileformat=fmt)
                L_ = GeoNetwork.Load if geo else SpatialNetwork.Load
                net = L_(fn, fileformat=fmt, silence_level=3)
                want_t = GeoNetwork if geo else SpatialNetwork
                if type(net) is not want_t:
                    fails.append((f"{cls}.save_load[{fmt}]/type", type(net).__name__))
                sub = []
                compare(sub, f"{cls}.save_load[{fmt}]", net, expected(A, directed, w_src), a_fmt,
                        wtol=0.0 if fmt == "pickle" else TEXT_RTOL)
                if fmt == "gml":
                    sub = [s for s in sub if not s[0].endswith(("total_node_weight", "mean_node_weight"))]
                fails.extend(sub)
                grid_ok(f"{cls}.save_load[{fmt}]", net.grid)
            guarded(f"{cls}.save_load[{fmt}]", f)

        mfmts = ("graphml", "graphmlz", "pickle")
        LD = GeoNetwork.Load if geo else SpatialNetwork.Load

        def rt(net, tag, k):
            fmt = mfmts[(k + case.get("rs", 0)) % 3]
            fn = (os.path.join(d, f"m_{tag}.{fmt}"), os.path.join(d, f"m_{tag}.pkl"))
            net.save(fn, fileformat=fmt)
            return LD(fn, fileformat=fmt, silence_level=3), (0.0 if fmt == "pickle" else TEXT_RTOL)

        def other_graph():
            other = 1 - A
            np.fill_diagonal(other, 0)
            if not directed:
                other = np.triu(other, 1)
                other = other + other.T
            return other

        w_alt = rs.randint(1, 33, size=n) / 8.0

        def m_adj():
            net = build()
            net.node_weights = w_alt
            net.adjacency = other_graph()
            got, tol = rt(net, "a1", 0)
            compare(fails, f"{cls}.mutate_save_load[adjacency_setter]", got,
                    expected(other_graph(), directed, w_alt), {}, wtol=tol)
            net.set_edge_list(_edge_rows(A, directed, rs), n)
            for name, L in attrs.items():
                net.set_link_attribute(name, L)
            got, tol = rt(net, "a2", 1)
            compare(fails, f"{cls}.mutate_save_load[set_edge_list]", got,
                    expected(A, directed, w_alt), attrs, wtol=tol)
            grid_ok(f"{cls}.mutate_save_load[set_edge_list]", got.grid)
            net.node_weights = None
            got, tol = rt(net, "a3", 2)
            compare(fails, f"{cls}.mutate_save_load[node_weights_setter]", got,
                    expected(A, directed, None), attrs, wtol=tol)
        guarded(f"{cls}.mutate_save_load[adjacency_setter]", m_adj)

        if geo:
            def m_nwt():
                net = build()
                rt(net, "t0", 0)
                for k, nwt in enumerate(("irrigation", None, "surface")):
                    net.set_node_weight_type(nwt)
                    if k == 1:
                        net.adjacency = other_graph()
                        net.adjacency = A
                    got, tol = rt(net, f"t{k+1}", k)
                    compare(fails, f"{cls}.mutate_save_load[set_node_weight_type]", got,
                            expected(A, directed, geo_w(nwt)), {}, wtol=GRID_RTOL)
            guarded(f"{cls}.mutate_save_load[set_node_weight_type]", m_nwt)
    return {"evals": evals, "fails": fails}


# ------------------------------------------------------------------ persistence of the spatial classes

SIM_RTOL = 1e-6        # similarity matrices are held and dumped as float32
CGV_COS_TOL = 2e-6     # angular distances come from a float32 cosine
THR_MARGIN = 5e-4      # thresholds keep this distance from every (weighted) similarity value


def great_circle(coords):
    """Angular great-circle distance matrix (radians) of (lat, lon) in degrees; float32 inputs."""
    lat = np.deg2rad(np.asarray(coords[0], dtype=np.float32).astype(float))
    lon = np.deg2rad(np.asarray(coords[1], dtype=np.float32).astype(float))
    c = np.sin(lat)[:, None] * np.sin(lat)[None, :] + \
        np.cos(lat)[:, None] * np.cos(lat)[None, :] * np.cos(lon[:, None] - lon[None, :])
    return np.arccos(np.clip(c, -1.0, 1.0))


def weighted_similarity(S, non_local, coords):
    """|S| in float32; with non_local the documented distance weighting
    0.5 (tanh(a (d - d_min)) + 1), a = 20, d_min = 0.05 rad."""
    M = np.abs(np.asarray(S, dtype=np.float32)).astype(float)
    if non_local:
        M = M * (0.5 * (np.tanh(20.0 * (great_circle(coords) - 0.05)) + 1.0))
    return M


def climate_adjacency(S, thr, non_local, coords):
    M = weighted_similarity(S, non_local, coords)
    A = (M > thr).astype(np.int64)
    np.fill_diagonal(A, 0)
    return A


def run_persist_case(case):
    """Save -> Load of SpatialNetwork / GeoNetwork / ClimateNetwork with all companion files."""
    from pyunicorn.core.network import Network
    from pyunicorn.core.grid import Grid
    from pyunicorn.core.geo_grid import GeoGrid
    from pyunicorn.core.spatial_network import SpatialNetwork
    from pyunicorn.core.geo_network import GeoNetwork
    from pyunicorn.climate.climate_network import ClimateNetwork
    import shutil

    kind = case["kind"]
    cls = {"p_spatial": "SpatialNetwork", "p_geo": "GeoNetwork", "p_climate": "ClimateNetwork"}[kind]
    geo = kind != "p_spatial"
    clim = kind == "p_climate"
    directed = bool(case["directed"])
    coords = np.asarray(case["coords"], dtype=float)
    tseq = np.arange(case.get("T", 3), dtype=float) * case.get("dt", 1.0)
    nwt = case.get("nwt")
    w = case.get("w")
    rs = np.random.RandomState(case.get("rs", 0))
    if clim:
        S = np.asarray(case["S"], dtype=float)
        thr, thr2, nl = float(case["thr"]), float(case["thr2"]), bool(case["non_local"])
        A = climate_adjacency(S, thr, nl, coords)
    else:
        S = thr = thr2 = nl = None
        A = np.asarray(case["A"], dtype=np.int64)
    n = A.shape[0]
    attrs = {k: np.asarray(v, dtype=float) for k, v in (case.get("attrs") or {}).items()}
    nattrs = case.get("nattrs") or {}
    fails, evals = [], []
    gkey = (cls, n, directed, A.tobytes(), coords.tobytes(), None if w is None else tuple(w), nwt,
            None if not clim else (thr, nl))

    CLS = {"Network": Network, "SpatialNetwork": SpatialNetwork, "GeoNetwork": GeoNetwork,
           "ClimateNetwork": ClimateNetwork}
    PARENTS = {"SpatialNetwork": ["Network"], "GeoNetwork": ["SpatialNetwork", "Network"],
               "ClimateNetwork": ["GeoNetwork", "SpatialNetwork", "Network"]}[cls]
    grid_cls = GeoGrid if geo else Grid

    def ev(path):
        evals.append(((path,) + gkey, True))

    def guarded(path, fn):
        ev(path)
        try:
            with quiet():
                fn()
        except Exception as e:   # noqa
            fails.append((f"{path.split(':')[0]}/raises", f"{type(e).__name__}: {e}"))

    def mk_grid():
        if geo:
            return GeoGrid(tseq, coords[0], coords[1], silence_level=3)
        return Grid(tseq, coords, silence_level=3)

    def geo_w(t):
        c = np.cos(coords[0].astype(np.float32).astype(float) * np.pi / 180)
        return c if t == "surface" else c ** 2 if t == "irrigation" else np.ones(n)

    def w_of(explicit, t=nwt):
        """expected weights and their tolerance"""
        if explicit is not None:
            return np.asarray(explicit, dtype=float), 0.0
        if geo:
            return geo_w(t), GRID_RTOL
        return np.ones(n), 0.0

    def build(A_=None, thr_=None, nl_=None):
        if clim:
            return ClimateNetwork(grid=mk_grid(), similarity_measure=S.copy(),
                                  threshold=thr if thr_ is None else thr_,
                                  non_local=nl if nl_ is None else nl_, directed=directed,
                                  node_weight_type=nwt, silence_level=3)
        M = A if A_ is None else A_
        if geo:
            return GeoNetwork(grid=mk_grid(), adjacency=M, directed=directed,
                              node_weight_type=nwt, silence_level=3)
        return SpatialNetwork(grid=mk_grid(), adjacency=M, directed=directed, silence_level=3)

    def dress(net, w_=w, attrs_=None, nattrs_=None):
        if w_ is not None:
            net.node_weights = w_
        for name, L in (attrs if attrs_ is None else attrs_).items():
            net.set_link_attribute(name, L)
        set_node_attrs(net, nattrs if nattrs_ is None else nattrs_, rs)
        return net

    def grid_ok(check, g, want_cls, tol=GRID_RTOL, time_too=True):
        try:
            if type(g) is not want_cls:
                fails.append((check, f"grid type {type(g).__name__} expected {want_cls.__name__}"))
                return
            s0, s1 = np.asarray(g.sequence(0)), np.asarray(g.sequence(1))
            c32 = coords.astype(np.float32).astype(float)
            t32 = tseq.astype(np.float32).astype(float)
            if g.N != n or not _close(s0, c32[0], tol) or not _close(s1, c32[1], tol) or \
                    (time_too and (not _close(g.grid()["time"], t32, tol)
                                   or g.n_grid_points != n * len(tseq))):
                fails.append((check, f"grid differs: N={g.N} seq={s0.tolist()},{s1.tolist()} "
                                     f"time={np.asarray(g.grid()['time']).tolist()} expected "
                                     f"{coords.tolist()} time={tseq.tolist()}"))
            if want_cls is GeoGrid and (not _close(g.lat_sequence(), c32[0], tol)
                                        or not _close(g.lon_sequence(), c32[1], tol)):
                fails.append((check, "lat_sequence / lon_sequence differ from the input"))
        except Exception as e:   # noqa
            fails.append((check, f"raised {e!r}"))

    def prefix(loader):
        return "" if loader == "Network" else loader + "."

    def check_loaded(path, loader, net, fmt, exp, a_exp, na_exp, wtol, grid=True, natol=0.0):
        """All fields of the property on a loaded object.  gml: attribute names with '_' are not
        demanded; the loss of the weights keeps the stable name of the loading class."""
        a_fmt = {k: v for k, v in a_exp.items() if fmt != "gml" or k.isalnum()}
        na_fmt = {k: v for k, v in na_exp.items() if fmt != "gml" or k.isalnum()}
        if type(net) is not CLS[loader]:
            fails.append((f"{path}/type", f"{type(net).__name__} expected {loader}"))
        sub = []
        compare(sub, path, net, exp, a_fmt, wtol=wtol)
        if fmt == "gml":
            sub = [x for x in sub if not x[0].endswith(("total_node_weight", "mean_node_weight"))]
            sub = [(f"{prefix(loader)}save_load[gml]/node_weights", x[1])
                   if x[0].endswith("/node_weights") else x for x in sub]
        fails.extend(sub)
        check_node_attrs(fails, f"{path}/node_attribute", None, net, na_fmt,
                         max(natol, 0.0 if fmt == "pickle" else TEXT_RTOL))
        if grid and loader != "Network":
            grid_ok(f"{path}/grid", net.grid, grid_cls)
        if loader == "ClimateNetwork":
            S32 = np.abs(S.astype(np.float32)).astype(float)
            try:
                got = np.asarray(net.similarity_measure())
                if not _close(got, S32, SIM_RTOL):
                    fails.append((f"{path}/similarity", f"similarity_measure()={got.tolist()} "
                                                        f"expected {S32.tolist()}"))
            except Exception as e:   # noqa
                fails.append((f"{path}/similarity", f"raised {e!r}"))
            # grid and similarity matrix are stored: a climate network generated from the loaded
            # parts with the original settings is the original network
            try:
                for t_, f_ in ((thr, nl), (thr2, nl), (thr2, not nl)):
                    re = ClimateNetwork(grid=net.grid, similarity_measure=net.similarity_measure(),
                                        threshold=t_, non_local=f_, directed=net.directed,
                                        silence_level=3)
                    want = climate_adjacency(S, t_, f_, coords)
                    if not np.array_equal(np.asarray(re.adjacency), want):
                        fails.append((f"{path}/rethreshold",
                                      f"threshold={t_} non_local={f_}: adjacency="
                                      f"{np.asarray(re.adjacency).tolist()} expected {want.tolist()}"))
            except Exception as e:   # noqa
                fails.append((f"{path}/rethreshold", f"raised {e!r}"))

    tmp = tempfile.mkdtemp(prefix="c05p_")
    try:
        counter = [0]

        def files(fmt, grid=True, sim=True):
            counter[0] += 1
            base = os.path.join(tmp, f"f{counter[0]}")
            f = [f"{base}.{fmt}", f"{base}_grid.pkl" if grid else None]
            if clim:
                f.append(f"{base}_sim.npy" if sim else None)
            return tuple(f)

        def load_with(loader, fn, fmt, explicit):
            kwd = {"fileformat": fmt} if explicit else {}
            if loader == "Network":
                return Network.Load(fn[0], silence_level=3, **kwd)
            if loader == "ClimateNetwork":
                return ClimateNetwork.Load(tuple(fn), silence_level=3, **kwd)
            return CLS[loader].Load(tuple(fn[:2]), silence_level=3, **kwd)

        def round_trip(name, src, fmt, exp, a_exp, na_exp, wtol, loaders=None, natol=0.0):
            """save src, load it with its own class (path `name`) and with all parent classes
            (path `<cls>.save><Loader>.Load[...]`), compare."""
            explicit = bool(rs.randint(2))
            fn = files(fmt)
            src.save(fn, fileformat=fmt) if explicit else src.save(fn)
            tol = max(wtol, 0.0 if fmt == "pickle" else TEXT_RTOL)
            own = None
            for loader in ([cls] + PARENTS if loaders is None else loaders):
                path = name if loader == cls else \
                    name.replace(".save_load[", f".save>{loader}.Load[").replace(
                        ".mutate_save_load[", f".mutate_save>{loader}.Load[")
                ev(path + ":" + fmt)
                try:
                    net = load_with(loader, fn, fmt, bool(rs.randint(2)))
                except Exception as e:   # noqa
                    if loader == "ClimateNetwork":
                        fails.append(("ClimateNetwork.Load/raises", f"[{fmt}] {type(e).__name__}: {e}"))
                    else:
                        fails.append((f"{path}/raises", f"{type(e).__name__}: {e}"))
                    continue
                check_loaded(path, loader, net, fmt, exp, a_exp, na_exp, tol, natol=natol)
                if loader == cls:
                    own = net
            if clim:
                # the similarity file on its own (documented as 'the similarity measure matrix')
                ev(f"ClimateNetwork.save[{fmt}]/similarity_file")
                try:
                    M = np.load(fn[2], allow_pickle=True)
                    S32 = np.abs(S.astype(np.float32)).astype(float)
                    if not isinstance(M, np.ndarray) or not _close(M, S32, SIM_RTOL):
                        fails.append((f"ClimateNetwork.save[{fmt}]/similarity_file",
                                      f"file holds {np.asarray(M).tolist()} expected {S32.tolist()}"))
                except Exception as e:   # noqa
                    fails.append((f"ClimateNetwork.save[{fmt}]/similarity_file", f"raised {e!r}"))
            return own, fn

        w_exp, w_tol = w_of(w)
        exp = expected(A, directed, w_exp)

        # ---- the object itself (construction from the similarity matrix / adjacency)
        def p_init():
            src = dress(build())
            compare(fails, f"{cls}.init", src, exp, attrs, wtol=w_tol)
            check_node_attrs(fails, f"{cls}.init/node_attribute", None, src, nattrs, 0.0)
            grid_ok(f"{cls}.init/grid", src.grid, grid_cls)
            if clim and (bool(src.non_local()) != nl or float(src.threshold()) != thr):
                fails.append((f"{cls}.init/settings", f"threshold()={src.threshold()!r} "
                                                      f"non_local()={src.non_local()!r}"))
        guarded(f"{cls}.init", p_init)

        # ---- every format: own Load and the Load of every parent class
        for fmt in FORMATS:
            def f(fmt=fmt):
                src = dress(build())
                round_trip(f"{cls}.save_load[{fmt}]", src, fmt, exp, attrs, nattrs, w_tol)
                compare(fails, f"{cls}.save_load[{fmt}](source-after)", src, exp, attrs, wtol=w_tol)
                grid_ok(f"{cls}.save_load[{fmt}](source-after)/grid", src.grid, grid_cls)
            guarded(f"{cls}.save_load[{fmt}]", f)

        # ---- companion files left out (filename None): nothing else is written, and the network
        #      file together with a separately saved grid gives the network back
        def p_nogrid():
            fmt = FORMATS[rs.randint(3)]
            src = dress(build())
            before = set(os.listdir(tmp))
            fn = files(fmt, grid=False, sim=False)
            src.save(fn, fileformat=fmt)
            made = set(os.listdir(tmp)) - before
            if made != {os.path.basename(fn[0])}:
                fails.append((f"{cls}.save[no-grid]/files", f"files written: {sorted(made)}"))
            gfile = fn[0] + "_grid.pkl"
            mk_grid().save(gfile)
            for loader in ([cls] + PARENTS):
                if loader == "ClimateNetwork":
                    continue        # needs the similarity file that was deliberately not written
                net = load_with(loader, (fn[0], gfile), fmt, True)
                check_loaded(f"{cls}.save[no-grid]>{loader}.Load", loader, net, fmt, exp, attrs,
                             nattrs, max(w_tol, 0.0 if fmt == "pickle" else TEXT_RTOL))
        guarded(f"{cls}.save[no-grid]", p_nogrid)

        # ---- the grid classes on their own
        def p_grid():
            g = mk_grid()
            fn = os.path.join(tmp, "grid_only.pkl")
            g.save(fn)
            name = "GeoGrid" if geo else "Grid"
            grid_ok(f"{name}.save_load/grid", grid_cls.Load(fn), grid_cls)
            grid_ok(f"{name}.save_load/grid", Grid.Load(fn), grid_cls)
            grid_ok(f"{name}.save_load/grid", g, grid_cls)
        guarded(("GeoGrid" if geo else "Grid") + ".save_load", p_grid)

        if geo:
            def p_txt():
                g = mk_grid()
                base = os.path.join(tmp, "gridtxt")
                g.save_txt(base)
                for suffix in ("_lat.txt", "_lon.txt", "_time.txt"):
                    if not os.path.exists(base + suffix):
                        fails.append(("GeoGrid.save_txt_LoadTXT/grid", f"no file *{suffix}"))
                try:
                    g2 = GeoGrid.LoadTXT(base)
                except Exception as e:   # noqa
                    if len(tseq) == 1:
                        fails.append(("GeoGrid.save_txt_LoadTXT/single-time-point",
                                      f"grid with one time point: {type(e).__name__}: {e}"))
                        return
                    raise
                # text files hold the float32 values with 18 digits
                grid_ok("GeoGrid.save_txt_LoadTXT/grid", g2, GeoGrid, tol=1e-6)
                # network file + text-file grid -> GeoNetwork; its geographical weights follow
                # from the loaded latitudes
                fmt = FORMATS[rs.randint(3)]
                src = dress(build())
                fn = files(fmt, grid=False, sim=False)
                src.save(fn, fileformat=fmt)
                gfile = fn[0] + "_grid.pkl"
                g2.save(gfile)
                net = GeoNetwork.Load((fn[0], gfile), fileformat=fmt, silence_level=3)
                path = f"{cls}.save_load[txt-grid]"
                check_loaded(path, "GeoNetwork", net, fmt, exp, attrs, nattrs,
                             max(w_tol, 0.0 if fmt == "pickle" else TEXT_RTOL))
                for t_ in ("surface", "irrigation", None):
                    net.set_node_weight_type(t_)
                    compare(fails, path, net, expected(A, directed, geo_w(t_)), attrs, wtol=GRID_RTOL)
            guarded("GeoGrid.save_txt_LoadTXT", p_txt)

            # ---- save_for_cgv: coordinates as node attributes, angular distance as link attribute,
            #      all further node / link properties
            for cfmt in ("graphml", "graphmlz", "graphviz"):
                def p_cgv(cfmt=cfmt):
                    src = dress(build())
                    fn = os.path.join(tmp, f"cgv_{cfmt}." + ("dot" if cfmt == "graphviz" else cfmt))
                    src.save_for_cgv(fn, fileformat=cfmt)
                    path = f"GeoNetwork.save_for_cgv[{cfmt}]"
                    compare(fails, path + "(source-after)", src, exp, attrs, wtol=w_tol)
                    if cfmt == "graphviz":      # igraph cannot read DOT: count the statements
                        with open(fn) as fh:
                            txt = fh.read()
                        arrow = " -> " if directed else " -- "
                        if txt.count(arrow) != exp["n_links"] or \
                                (("digraph" in txt.split("{")[0]) != directed):
                            fails.append((path + "/file", f"{txt.count(arrow)} links in DOT file, "
                                                          f"expected {exp['n_links']}"))
                        return
                    net = Network.Load(fn, fileformat=cfmt, silence_level=3)
                    c32 = coords.astype(np.float32).astype(float)
                    na = dict(nattrs, lat=c32[0], lon=c32[1])
                    sub = []
                    compare(sub, path, net, exp, attrs, wtol=TEXT_RTOL, skip=("node_weights",))
                    fails.extend(sub)
                    check_node_attrs(fails, path + "/node_attribute", None, net, na, 1e-6)
                    try:
                        got = np.asarray(net.link_attribute("ang_dist"), dtype=float)
                        want = great_circle(coords)
                        m = exp["A"] > 0
                        if got.shape != want.shape or (got[~m] != 0).any() or \
                                not np.all(np.abs(np.cos(got[m]) - np.cos(want[m])) <= CGV_COS_TOL):
                            fails.append((path + "/ang_dist", f"ang_dist={got.tolist()} expected "
                                                              f"{(want * m).tolist()}"))
                    except Exception as e:   # noqa
                        fails.append((path + "/ang_dist", f"raised {e!r}"))
                guarded(f"GeoNetwork.save_for_cgv[{cfmt}]", p_cgv)

        # ---- mutate, then save
        mf = [int(rs.randint(3))]

        def next_fmt():
            mf[0] += 1
            return ("graphml", "graphmlz", "pickle")[mf[0] % 3]

        w_alt = (rs.randint(1, 33, size=n) / 8.0)

        def m_weights():
            src = dress(build())
            first, fn = round_trip(f"{cls}.mutate_save_load[node_weights_setter]", src, next_fmt(),
                                   exp, attrs, nattrs, w_tol, loaders=[cls])
            src.node_weights = w_alt
            round_trip(f"{cls}.mutate_save_load[node_weights_setter]", src, next_fmt(),
                       expected(A, directed, w_alt), attrs, nattrs, 0.0)
            src.node_weights = None
            round_trip(f"{cls}.mutate_save_load[node_weights_setter]", src, next_fmt(),
                       expected(A, directed, None), attrs, nattrs, 0.0, loaders=[cls])
            if geo:
                for t_ in ("irrigation", None, "surface"):
                    src.set_node_weight_type(t_)
                    round_trip(f"{cls}.mutate_save_load[set_node_weight_type]", src, next_fmt(),
                               expected(A, directed, geo_w(t_)), attrs, nattrs, GRID_RTOL,
                               loaders=[cls])
        guarded(f"{cls}.mutate_save_load[node_weights_setter]", m_weights)

        def m_attrs():
            src = dress(build())
            fmt = next_fmt()
            round_trip(f"{cls}.mutate_save_load[set_link_attribute]", src, fmt, exp, attrs, nattrs,
                       w_tol, loaders=[cls])
            new = {k: 3.0 * v - 0.5 for k, v in attrs.items()}
            new["extra"] = np.asarray(rand_attr(rs, n, directed, True), dtype=float)
            for name, L in new.items():
                src.set_link_attribute(name, L)
            nnew = dict(nattrs)
            nnew["score"] = [2.0 * x + 1.0 for x in nattrs.get("score", [0.0] * n)]
            nnew["added"] = (rs.randint(0, 9, size=n) / 2.0).tolist()
            set_node_attrs(src, nnew, rs)
            round_trip(f"{cls}.mutate_save_load[set_link_attribute]", src, next_fmt(), exp, new, {},
                       w_tol, loaders=[cls])
            round_trip(f"{cls}.mutate_save_load[set_node_attribute]", src, next_fmt(), exp, {}, nnew,
                       w_tol, loaders=[cls, "Network"])
            src.del_link_attribute("extra")
            src.del_node_attribute("added")
            got, _ = round_trip(f"{cls}.mutate_save_load[del_link_attribute]", src, next_fmt(), exp,
                                {k: v for k, v in new.items() if k != "extra"},
                                {k: v for k, v in nnew.items() if k != "added"}, w_tol, loaders=[cls])
            if got is not None and (got.find_link_attribute("extra")
                                    or "added" in got.graph.vs.attributes()):
                fails.append((f"{cls}.mutate_save_load[del_link_attribute]/link_attribute",
                              "deleted attribute still present after Load"))
        guarded(f"{cls}.mutate_save_load[set_link_attribute]", m_attrs)

        def m_overwrite():
            # the same file names are written twice: the files hold the later state
            fmt = next_fmt()
            src = dress(build())
            fn = files(fmt)
            src.save(fn, fileformat=fmt)
            src.node_weights = w_alt
            src.save(fn, fileformat=fmt)
            for loader in ([cls] + PARENTS[:1]):
                path = f"{cls}.mutate_save_load[overwrite]" if loader == cls else \
                    f"{cls}.mutate_save>{loader}.Load[overwrite]"
                try:
                    net = load_with(loader, fn, fmt, True)
                except Exception as e:   # noqa
                    if loader == "ClimateNetwork":
                        fails.append(("ClimateNetwork.Load/raises", f"[{fmt}] {type(e).__name__}: {e}"))
                        continue
                    raise
                check_loaded(path, loader, net, fmt, expected(A, directed, w_alt), attrs, nattrs,
                             0.0 if fmt == "pickle" else TEXT_RTOL)
        guarded(f"{cls}.mutate_save_load[overwrite]", m_overwrite)

        if not clim:
            def m_topology():
                other = 1 - A
                np.fill_diagonal(other, 0)
                if not directed:
                    other = np.triu(other, 1)
                    other = other + other.T
                src = build(A_=other)
                src.adjacency = A if rs.randint(2) else sp.csr_matrix(A)
                dress(src, w_=w_alt)
                round_trip(f"{cls}.mutate_save_load[adjacency_setter]", src, next_fmt(),
                           expected(A, directed, w_alt), attrs, nattrs, 0.0)
                src.adjacency = other
                src.set_edge_list(_edge_rows(A, directed, rs), n)
                dress(src, w_=None)
                round_trip(f"{cls}.mutate_save_load[set_edge_list]", src, next_fmt(),
                           expected(A, directed, w_alt), attrs, nattrs, 0.0, loaders=[cls])
            guarded(f"{cls}.mutate_save_load[adjacency_setter]", m_topology)
        else:
            def m_threshold():
                # another threshold / non_local setting first, the case's settings afterwards
                src = build(thr_=thr2, nl_=not nl)
                compare(fails, f"{cls}.init", src,
                        expected(climate_adjacency(S, thr2, not nl, coords), directed, geo_w(nwt)), {},
                        wtol=GRID_RTOL)
                src.set_non_local(nl)
                src.set_threshold(thr)
                dress(src)
                if bool(src.non_local()) != nl or float(src.threshold()) != thr:
                    fails.append((f"{cls}.mutate_save_load[set_threshold]/settings",
                                  f"threshold()={src.threshold()!r} non_local()={src.non_local()!r}"))
                compare(fails, f"{cls}.mutate_save_load[set_threshold](object)", src, exp, attrs,
                        wtol=w_tol)
                round_trip(f"{cls}.mutate_save_load[set_threshold]", src, next_fmt(), exp, attrs,
                           nattrs, w_tol)
                # toggle the suppression of local links on the live object and save again
                src.set_non_local(not nl)
                B = climate_adjacency(S, thr, not nl, coords) if case.get("thr_safe_both") else None
                if B is not None:
                    dress(src, attrs_={})
                    round_trip(f"{cls}.mutate_save_load[set_non_local]", src, next_fmt(),
                               expected(B, directed, w_exp), {}, nattrs, w_tol)
            guarded(f"{cls}.mutate_save_load[set_threshold]", m_threshold)

            def m_loaded():
                # only reachable when ClimateNetwork.Load works: a loaded object is mutated and saved
                src = dress(build())
                fmt = next_fmt()
                fn = files(fmt)
                src.save(fn, fileformat=fmt)
                try:
                    mid = ClimateNetwork.Load(fn, fileformat=fmt, silence_level=3)
                except Exception as e:   # noqa
                    fails.append(("ClimateNetwork.Load/raises", f"[{fmt}] {type(e).__name__}: {e}"))
                    return
                mid.node_weights = w_alt
                round_trip(f"{cls}.mutate_save_load[loaded_then_node_weights]", mid, next_fmt(),
                           expected(A, directed, w_alt), attrs, nattrs, TEXT_RTOL, natol=TEXT_RTOL)
            guarded(f"{cls}.mutate_save_load[loaded_then_node_weights]", m_loaded)
    finally:
        shutil.rmtree(tmp, ignore_errors=True)
    return {"evals": evals, "fails": fails}


def run_large_edge_list(case):
    """Edge-list construction of a sparse network with tens of thousands of nodes and links leaving high-numbered nodes
    (node index * N exceeds 2^31): the stored links are the given ones."""
    from pyunicorn.core.network import Network
    N, directed = int(case["N"]), bool(case["directed"])
    el = np.array(case["edges"], dtype=case.get("dtype", "int64"))
    fails, evals = [], [(("large_edge_list", N, directed, el.tobytes()), True)]
    try:
        with quiet():
            net = Network(edge_list=el, n_nodes=N, directed=directed, silence_level=3)
        want = set((int(a), int(b)) for a, b in el.tolist())
        if not directed:
            want |= set((b, a) for a, b in want)
        coo = net.sp_A.tocoo()
        got = set((int(a), int(b)) for a, b, v in zip(coo.row, coo.col, coo.data) if v)
        n_links = len(want) if directed else len(want) // 2
        if int(net.N) != N or got != want or int(net.n_links) != n_links or int(net.graph.ecount()) != n_links:
            fails.append(("init_edge_list/large-network-links", "N=%r n_links=%r graph edges=%r; links missing %s, spurious %s" % (
                net.N, net.n_links, net.graph.ecount(), sorted(want - got)[:4], sorted(got - want)[:4])))
    except Exception as e:   # noqa
        fails.append(("init_edge_list/large-network-links/raises", f"{type(e).__name__}: {e}"))
    return {"evals": evals, "fails": fails}


def run_any(case):
    if case.get("kind", "network") == "large_edge_list":
        return run_large_edge_list(case)
    if case.get("kind", "network") == "network":
        return run_case(case)
    if case["kind"].startswith("p_"):
        return run_persist_case(case)
    return run_spatial_case(case)


# ------------------------------------------------------------------ scope

def rand_weights(rs, n, style):
    if style == 0:
        return None
    if style == 1:                       # dyadic, may contain zeros
        return (rs.randint(0, 33, size=n) / 8.0).tolist()
    return (rs.random_sample(n) * 10 ** rs.uniform(-3, 3)).tolist()


def rand_attr(rs, n, directed, dyadic):
    L = rs.randint(1, 64, size=(n, n)) / 16.0 if dyadic else rs.standard_normal((n, n)) * 3 + 0.1
    if not directed:
        L = np.triu(L, 1)
        L = L + L.T
    return L.tolist()


def make_cases(tier, seed):
    rs = np.random.RandomState(seed)
    cases = []

    def add(A, directed, k):
        n = A.shape[0]
        style = k % 3
        attrs = {}
        if k % 2 == 0:
            attrs["lw"] = rand_attr(rs, n, directed, dyadic=True)
        if k % 4 == 1:
            attrs["link_weights"] = rand_attr(rs, n, directed, dyadic=False)
        cases.append({"kind": "network", "A": A.tolist(), "directed": directed,
                      "w": rand_weights(rs, n, style), "attrs": attrs,
                      "rs": int(rs.randint(2 ** 31 - 1)), "known29": False})

    k = 0
    n_und = 4 if tier == "quick" else 5
    n_dir = 3 if tier == "quick" else 4
    for n in range(1, n_und + 1):
        for A in all_undirected_graphs(n):
            add(A, False, k)
            k += 1
    for n in range(2, n_dir + 1):
        for A in all_directed_graphs(n):
            add(A, True, k)
            k += 1
    # symmetric matrices declared directed (each link in both directions)
    for A in all_undirected_graphs(3):
        add(A, True, k)
        k += 1
    # larger seeded random graphs incl. extreme densities, isolated nodes, stars, single link
    n_rand = 40 if tier == "quick" else 400
    max_n = 12 if tier == "quick" else 40
    for _ in range(n_rand):
        n = int(rs.randint(5, max_n + 1))
        directed = bool(rs.randint(2))
        p = [0.0, 0.05, 0.2, 0.5, 0.9, 1.0][rs.randint(6)]
        A = random_graph(rs, n, p, directed)
        if rs.randint(3) == 0:                       # isolate some nodes (incl. the last one)
            iso = rs.choice(n, size=max(1, n // 3), replace=False).tolist() + [n - 1]
            A[iso, :] = 0
            A[:, iso] = 0
        add(A, directed, k)
        k += 1
    for n in (5, 9):
        S = np.zeros((n, n), dtype=np.int8)          # star (local_vulnerability consumer)
        S[0, 1:] = S[1:, 0] = 1
        add(S, False, k)
        k += 1
        one = np.zeros((n, n), dtype=np.int8)        # single link, last node isolated
        one[1, 2] = one[2, 1] = 1
        add(one, False, k)
        k += 1
        one = np.zeros((n, n), dtype=np.int8)
        one[2, 1] = 1
        add(one, True, k)
        k += 1
    # finding #29 is exercised on three fixed cases only
    for c in [c for c in cases if len(c["A"]) >= 3 and c["w"] is not None][:3]:
        c2 = dict(c)
        c2["known29"] = True
        cases.append(c2)

    # spatial / geo
    n_sp = 24 if tier == "quick" else 200
    for i in range(n_sp):
        kind = "geo" if i % 2 else "spatial"
        n = int(rs.randint(2, 9 if tier == "quick" else 16))
        directed = bool(i % 4 >= 2)
        p = [0.0, 0.3, 0.6, 1.0][rs.randint(4)]
        A = random_graph(rs, n, p, directed)
        if i % 7 == 0:
            A[:] = 0
            if n > 2:
                A[0, 1] = 1
                A[1, 0] = 0 if directed else 1
        if kind == "geo":
            coords = np.vstack([rs.uniform(-85, 85, n), rs.uniform(-180, 180, n)])
        else:
            coords = rs.uniform(-10, 10, (2, n))
        cases.append({"kind": kind, "A": A.tolist(), "directed": directed,
                      "coords": np.round(coords, 3).tolist(), "T": int(rs.randint(1, 5)),
                      "w": None if i % 3 else (rs.randint(0, 33, size=n) / 8.0).tolist(),
                      "nwt": [None, "surface", "irrigation"][i % 3],
                      "attrs": {"lw": rand_attr(rs, n, directed, True)} if i % 2 == 0 else
                               {"link_weights": rand_attr(rs, n, directed, False)},
                      "rs": int(rs.randint(2 ** 31 - 1))})
    cases.extend(make_persist_cases(tier, seed))
    for N_, dt_ in ((50000, "int64"), (70000, "int32"), (70000, "int64")):
        for directed_ in (False, True):
            cases.append({"kind": "large_edge_list", "N": N_, "directed": directed_, "dtype": dt_,
                          "edges": [[N_ - 1, 12], [5, 7], [N_ - 2, N_ - 3], [46342, 46341], [3, N_ - 1]]})
    return cases


def rand_coords(rs, n, geo):
    """Irregular (non-gridded) positions; geo: clusters a few degrees apart next to far-away
    stations, pairwise separation > 0.02 rad so that float32 angular distances are well defined."""
    if not geo:
        return np.round(rs.uniform(-10, 10, (2, n)) * 10 ** rs.randint(-1, 3), 3)
    while True:
        lat, lon = [], []
        for i in range(n):
            if i == 0 or rs.randint(2):
                lat.append(rs.uniform(-85, 85))
                lon.append(rs.uniform(-180, 180))
            else:
                j = rs.randint(i)
                la = float(np.clip(lat[j] + rs.uniform(-6, 6), -88, 88))
                lo = lon[j] + rs.uniform(-6, 6) / max(np.cos(np.deg2rad(la)), 0.2)
                lat.append(la)
                lon.append(float((lo + 180) % 360 - 180))
        c = np.round(np.array([lat, lon]), 3)
        d = great_circle(c) + 10 * np.eye(n)
        if n == 1 or d.min() > 0.02:
            return c


def climate_case(rs, n, directed, mode, nl):
    """Similarity matrix with signs (the class keeps |S| as float32), thresholds that stay
    THR_MARGIN away from every similarity value (plain and distance weighted)."""
    off = ~np.eye(n, dtype=bool)
    for _ in range(200):
        coords = rand_coords(rs, n, True)
        S = np.round(rs.uniform(-1, 1, (n, n)), 3)
        if not directed:
            S = np.triu(S, 1)
            S = S + S.T
        np.fill_diagonal(S, 1.0)
        Ms = [weighted_similarity(S, f, coords) for f in (False, True)]

        def safe(t, M):
            return n == 1 or float(np.min(np.abs(M[off] - t))) >= THR_MARGIN
        own = Ms[1] if nl else Ms[0]
        vals = np.unique(own[off]) if n > 1 else np.array([0.5])
        if mode == "edgeless":
            thr = float(vals[-1]) + 0.05
        elif mode == "full":
            thr = float(vals[0]) - 0.05
        elif mode == "single":
            if len(vals) < 2:
                thr = float(vals[-1]) - 0.05
            elif vals[-1] - vals[-2] < 4 * THR_MARGIN:
                continue
            else:
                thr = float(vals[-1] + vals[-2]) / 2
        else:
            thr = None
            for _ in range(100):
                t = float(rs.uniform(vals[0] - 0.05, vals[-1] + 0.05))
                if safe(t, own):
                    thr = round(t, 4) if safe(round(t, 4), own) else t
                    break
            if thr is None:
                continue
        thr2 = None
        for _ in range(200):
            t = round(float(rs.uniform(0.05, 0.95)), 4)
            if safe(t, Ms[0]) and safe(t, Ms[1]) and abs(t - thr) > 0.02:
                thr2 = t
                break
        if thr2 is None:
            continue
        return {"S": S.tolist(), "coords": coords.tolist(), "thr": thr, "thr2": thr2,
                "non_local": bool(nl), "thr_safe_both": bool(safe(thr, Ms[0]) and safe(thr, Ms[1]))}
    raise RuntimeError("harness: no safe threshold found")


def make_persist_cases(tier, seed):
    rs = np.random.RandomState(((seed + 1) * 100003) % (2 ** 31 - 1))
    quick = tier == "quick"
    cases = []
    nmax = 8 if quick else 14

    def common(i, n, directed, geo):
        return {"directed": directed, "T": int(rs.randint(2, 6)),
                "dt": [1.0, 0.25, 365.25][i % 3],
                "w": None if i % 3 else ((rs.randint(0, 33, size=n) / 8.0).tolist() if i % 2 else
                                         (rs.random_sample(n) * 10 ** rs.uniform(-3, 3)).tolist()),
                "nwt": [None, "surface", "irrigation"][i % 3] if geo else None,
                "attrs": {"lw": rand_attr(rs, n, directed, True),
                          "link_weights": rand_attr(rs, n, directed, False)},
                "nattrs": rand_node_attrs(rs, n),
                "rs": int(rs.randint(2 ** 31 - 1))}

    def shaped(i, n, directed):
        """edgeless / single link / isolated nodes / complete / random"""
        m = i % 5
        if m == 0:
            A = np.zeros((n, n), dtype=np.int8)
        elif m == 1:
            A = np.zeros((n, n), dtype=np.int8)
            if n > 1:
                a, b = rs.choice(n, 2, replace=False)
                A[a, b] = 1
                A[b, a] = 0 if directed else 1
        elif m == 2:
            A = random_graph(rs, n, 0.5, directed)
            iso = rs.choice(n, size=max(1, n // 3), replace=False).tolist() + [n - 1]
            A[iso, :] = 0
            A[:, iso] = 0
        elif m == 3:
            A = random_graph(rs, n, 1.0, directed)
        else:
            A = random_graph(rs, n, [0.2, 0.5, 0.8][rs.randint(3)], directed)
        return A

    for kind, count in (("p_spatial", 10 if quick else 60), ("p_geo", 12 if quick else 60)):
        geo = kind == "p_geo"
        for i in range(count):
            n = 1 if i == 5 else int(rs.randint(2, nmax + 1))
            directed = bool(i % 4 >= 2)
            c = {"kind": kind, "A": shaped(i, n, directed).tolist(),
                 "coords": rand_coords(rs, n, geo).tolist()}
            c.update(common(i, n, directed, geo))
            if geo and i in (3, 8):
                c["T"] = 1          # GeoGrid text files with a single time point
            cases.append(c)
    for i in range(16 if quick else 80):
        n = 1 if i == 9 else int(rs.randint(2, nmax + 1))
        directed = bool(i % 4 >= 2)
        mode = ["random", "edgeless", "single", "random", "full", "random"][i % 6]
        c = {"kind": "p_climate"}
        c.update(climate_case(rs, n, directed, mode, nl=bool(i % 2)))
        c.update(common(i, n, directed, True))
        c["A"] = climate_adjacency(c["S"], c["thr"], c["non_local"], c["coords"]).tolist()
        cases.append(c)
    return cases


SCOPE = ("all labelled undirected graphs n<=4 (quick) / n<=5 (thorough) incl. n=1, all directed "
         "graphs n<=3 / n<=4, symmetric-declared-directed n=3, 40 / 400 seeded random graphs "
         "n<=12 / n<=40 (densities 0..1, isolated nodes incl. last node, stars, single link), "
         "node weights None / dyadic incl. 0 / random float over 6 decades, link attributes "
         "(dyadic 'lw', float 'link_weights'); paths: dense list+5 dtypes, 5 scipy sparse formats, "
         "edge list (list/array, with/without n_nodes, library-style both orientations), igraph, "
         "scipy csc/csr/coo inputs with explicitly stored zeros / duplicate coo entries / edited sp_A copies, "
         "copy, undirected_copy, permuted_copy, adjacency.setter, set_edge_list, node_weights.setter, "
         "save->Load (graphml/graphmlz/pickle rotating) after each public mutator, copy, Load and randomly_rewire, "
         "save->Load graphml/graphmlz/pickle/gml (+ twice), 24 / 200 SpatialNetwork/GeoNetwork "
         "cases with grids (init, edge list, set_node_weight_type, save->Load x4). Tolerances: "
         "exact for in-memory paths and pickle; rtol 1e-12 for text formats (15 significant "
         "digits written); 1e-5 for float32 grid quantities (cos lat weights, coordinates). "
         "Persistence block: node attributes (float / int / name with '_') of every Network case through "
         "all four formats (+ del_node_attribute); 10+12+16 (quick) / 60+60+80 (thorough) SpatialNetwork / "
         "GeoNetwork / ClimateNetwork cases, n<=8 / n<=14 incl. n=1, edgeless, single link, isolated nodes, "
         "complete, directed, irregular clustered coordinates, irregular time axes, explicit or geographic "
         "node weights, two link attributes, three node attributes; ClimateNetwork from signed (a)symmetric "
         "similarity matrices with non-default thresholds (kept 5e-4 away from every plain or distance-"
         "weighted similarity value) and non_local on/off; each saved in graphml/graphmlz/pickle/gml with "
         "grid pickle and similarity dump and read with its own Load and the Load of every parent class; "
         "companion file names None; Grid/GeoGrid.save->Load, GeoGrid.save_txt->LoadTXT (+ GeoNetwork on the "
         "text-file grid, geographic weights recomputed); save_for_cgv graphml/graphmlz read back (lat, lon, "
         "ang_dist vs. an independent great-circle formula, |cos| error <= 2e-6), graphviz statement count; "
         "save after node_weights / set_node_weight_type / link and node attribute changes / overwrite of the "
         "same files / adjacency.setter / set_edge_list / set_threshold / set_non_local; similarity matrices "
         "rtol 1e-6 (float32).")
SKIPPED = (
    "ClimateNetwork.threshold(), non_local() and node_weight_type are written to none of the three files "
    "that save() documents (network file, GeoGrid, similarity matrix), so they are not compared after Load; "
    "instead a ClimateNetwork generated from the loaded grid and similarity matrix with the original "
    "threshold / non_local settings must be the original network (check .../rethreshold)",
    "ClimateNetwork.Load raises on every input in the current tree (ClimateNetwork.Load/raises); the files "
    "written by ClimateNetwork.save are therefore additionally read with GeoNetwork.Load / "
    "SpatialNetwork.Load / Network.Load and numpy",
    "gml: igraph strips '_' from attribute names, link / node attributes named with '_' are not demanded "
    "for gml; the loss of node_weight_nsi keeps the names *save_load[gml]/node_weights",
    "fileformat='pickle' pickles the igraph object only (not the pyunicorn object); Grid pickles hold the "
    "grid object: boundaries() and silence_level of a loaded grid are not compared",
    "save_for_cgv: node weights are not documented to be stored and are not compared; the graphviz output "
    "cannot be read by igraph, only the number of link statements and the graph type are checked",
    "GeoGrid.save_txt -> LoadTXT of a grid with one time point is reported under its own name "
    "(GeoGrid.save_txt_LoadTXT/single-time-point) and exercised by two cases per run only",
)
RULE = ("one evaluation = one construction path of one case compared on all observables with the "
        "input-only oracle; distinct key = (path, N, directed, adjacency, weights); non-trivial = "
        "graph has a link or explicit node weights (spatial cases always); in the persistence block one "
        "evaluation = one (saving class, loading class, format or mutator) round trip of one case.")


def main():
    args = parse_args()
    rep = Report("C05", args, SCOPE, RULE)
    for text in SKIPPED:
        rep.skip(text)
    try:
        import pyunicorn.core.network   # noqa
        import igraph                   # noqa
    except Exception as e:   # noqa
        print("cannot import pyunicorn:", e, file=sys.stderr)
        sys.exit(3)

    if args.replay:
        with open(args.replay) as f:
            wit = json.load(f)
        wit = wit.get("witness", wit)
        cases = [wit]
    else:
        cases = make_cases(args.tier, args.seed)

    nproc = 1 if args.replay else min(4 if args.tier == "quick" else 8, os.cpu_count() or 1)
    if nproc > 1:
        with mp.get_context("fork").Pool(nproc) as pool:
            results = pool.imap(run_any, cases, chunksize=8)
            results = list(results)
    else:
        results = map(run_any, cases)
    for case, res in zip(cases, results):
        for key, nt in res["evals"]:
            rep.case(key, nontrivial=nt)
        if len(rep.samples) < 8 and (len(case["A"]) in (2, 3, 6)):
            rep.samples.append(jsonable({k: case[k] for k in ("kind", "A", "directed", "w")}))
        for check, detail in res["fails"]:
            rep.fail(check, case, detail)
    rep.finish()
    sys.exit(0)


if __name__ == "__main__":
    main()
