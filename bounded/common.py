"""Shared helpers for the bounded stand-ins (B-layer).

A bounded harness is a stand-alone script  bounded/cNN.py  run by the driver as

    python bounded/cNN.py --tier quick|thorough --seed INT --out PATH [--replay FILE]

with PYTHONPATH = <scratch build of /repo's working tree>/src : /verif, so that
`import pyunicorn` is the freshly built code under check and `from bounded.common import *`,
`from specs import ...` resolve.  It evaluates the property's contract (an independent,
definition-level spec function) on the real code over a stated finite scope and writes one
JSON report.  It never decides the exit status of the check itself; the driver does.

Report JSON:
  property, tier, seed, scope (text), rule (text: how cases are generated and what makes a
  case distinct and non-trivial), evaluations (int), distinct_nontrivial (int),
  samples (list of <=8 actual cases), failures (list of {check, witness, detail}; capped),
  skipped (list of text), wall_s
A failure's `check` is a short stable name of the contract clause (e.g. "nsi_degree/split-global");
`witness` is a JSON-able description of the input sufficient to re-run it (adjacency as list of
lists, weights, arguments, seed ...).
"""
import argparse
import itertools
import json
import os
import sys
import time
import warnings

import numpy as np

warnings.filterwarnings("ignore")


def parse_args(argv=None):
    ap = argparse.ArgumentParser()
    ap.add_argument("--tier", default=os.environ.get("VERIF_TIER", "quick"), choices=["quick", "thorough"])
    ap.add_argument("--seed", type=int, default=int(os.environ.get("VERIF_SEED", "0")))
    ap.add_argument("--out", default=None)
    ap.add_argument("--replay", default=None)
    return ap.parse_args(argv)


def jsonable(x):
    if isinstance(x, np.ndarray):
        return x.tolist()
    if isinstance(x, (np.integer,)):
        return int(x)
    if isinstance(x, (np.floating,)):
        return float(x)
    if isinstance(x, (np.bool_,)):
        return bool(x)
    if isinstance(x, complex):
        return [x.real, x.imag]
    if isinstance(x, dict):
        return {str(k): jsonable(v) for k, v in x.items()}
    if isinstance(x, (list, tuple, set, frozenset)):
        return [jsonable(v) for v in x]
    if isinstance(x, (str, int, float, bool)) or x is None:
        return x
    return repr(x)


class Report:
    MAX_FAIL = 25

    def __init__(self, prop, args, scope, rule):
        self.prop, self.args = prop, args
        self.scope, self.rule = scope, rule
        self.evaluations = 0
        self.nontrivial = set()
        self.samples = []
        self.failures = []
        self.nfail = 0
        self.skipped = []
        self.t0 = time.time()
        self.by_check = {}

    def case(self, key=None, nontrivial=True, sample=None):
        """Count one evaluated case.  `key` (hashable/str) identifies the case for the distinct
        count; it is only counted when `nontrivial` is true."""
        self.evaluations += 1
        if nontrivial and key is not None:
            self.nontrivial.add(key if isinstance(key, (str, int, tuple)) else repr(key))
        if sample is not None and len(self.samples) < 8:
            self.samples.append(jsonable(sample))

    def fail(self, check, witness, detail):
        self.nfail += 1
        c = self.by_check.get(check, 0)
        self.by_check[check] = c + 1
        if c < 3 and len(self.failures) < self.MAX_FAIL:
            self.failures.append({"check": check, "witness": jsonable(witness), "detail": str(detail)[:600]})

    def skip(self, text):
        if text not in self.skipped:
            self.skipped.append(text)

    def elapsed(self):
        return time.time() - self.t0

    def finish(self):
        out = {
            "property": self.prop, "tier": self.args.tier, "seed": self.args.seed,
            "scope": self.scope, "rule": self.rule,
            "evaluations": self.evaluations, "distinct_nontrivial": len(self.nontrivial),
            "samples": self.samples, "failures": self.failures, "n_failures": self.nfail,
            "failures_by_check": self.by_check, "skipped": self.skipped,
            "wall_s": round(self.elapsed(), 2),
        }
        txt = json.dumps(out, indent=1)
        if self.args.out:
            with open(self.args.out, "w") as f:
                f.write(txt)
        else:
            print(txt)
        return out


# ---------------------------------------------------------------- graph enumeration helpers

def all_undirected_graphs(n):
    """All labelled simple undirected graphs on n nodes as int8 adjacency matrices."""
    pairs = list(itertools.combinations(range(n), 2))
    for bits in range(1 << len(pairs)):
        A = np.zeros((n, n), dtype=np.int8)
        for b, (i, j) in enumerate(pairs):
            if bits >> b & 1:
                A[i, j] = A[j, i] = 1
        yield A


def all_directed_graphs(n):
    pairs = [(i, j) for i in range(n) for j in range(n) if i != j]
    for bits in range(1 << len(pairs)):
        A = np.zeros((n, n), dtype=np.int8)
        for b, (i, j) in enumerate(pairs):
            if bits >> b & 1:
                A[i, j] = 1
        yield A


def random_graph(rng, n, p, directed=False):
    A = (rng.random_sample((n, n)) < p).astype(np.int8)
    np.fill_diagonal(A, 0)
    if not directed:
        A = np.triu(A, 1)
        A = A + A.T
    return A.astype(np.int8)


def close(a, b, rtol=1e-9, atol=1e-12):
    a = np.asarray(a, dtype=float)
    b = np.asarray(b, dtype=float)
    if a.shape != b.shape:
        return False
    return bool(np.allclose(a, b, rtol=rtol, atol=atol, equal_nan=True))


def quiet():
    """Silence pyunicorn's progress printing."""
    import io
    import contextlib
    return contextlib.redirect_stdout(io.StringIO())
