"""Bounded stand-in for C14: visibility graphs realise the geometric visibility criterion.

Code under check: pyunicorn.timeseries.VisibilityGraph (natural and horizontal graph, with
timings and missing values) and its time-directed measures (retarded_/advanced_ degree, local
clustering, closeness, betweenness).

Oracle (independent, definition level, exact): for i < j, both samples present,
  natural    : linked  <=>  for all i<k<j: sample k present and
                            x_k < x_i + (x_j - x_i) (t_k - t_i) / (t_j - t_i)
  horizontal : linked  <=>  for all i<k<j: sample k present and x_k < min(x_i, x_j)
evaluated in fractions.Fraction.  A missing sample (NaN, missing_values=True) is linked to nothing.

Exactness of the comparison (why `==` on the adjacency is justified although the kernels work in
float32): every generated series has dyadic values and times m * 2^-s whose pairwise differences
are integers (times 2^-s) of magnitude <= 2^11 and which are exactly representable in float32.
Differences are therefore exact; each slope quotient p/q (|p|,|q| <= 2^11) is rounded once; two
unequal quotients differ relatively by >= 1/(|p||q|) >= 2^-22, which exceeds the float32 spacing
2^-23, and rounding is monotone, so unequal quotients keep their order and equal quotients
(collinear triples) round to the same float.  This is inside the assumption stated in DESIGN
(|values|,|times| < 2^11).  Affine maps are restricted to those that keep this bound (scales and
shifts by powers of two, and small integer scales), so the mapped series is decided exactly too.
Closeness/betweenness exchange compares float64 results, tolerance 1e-9.
"""
import itertools
import json
import sys
from fractions import Fraction as F

import numpy as np

from bounded.common import parse_args, Report, quiet, jsonable

PROP = "C14"
DIFF_BOUND = 2 ** 11

SCOPE = (
    "VisibilityGraph natural+horizontal vs exact Fraction oracle. Exhaustive: all series of "
    "length 2..L over alphabet {0..a-1} (quick L=5,a=4; thorough L=6,a=5 for L<=5 / a=4 for L=6) "
    "with default timings and with every gap vector over {1,2,3} for length<=4 and two "
    "non-uniform gap patterns otherwise; all missing-value masks of all series of length<=M "
    "over {0,1,2} (quick M=4, thorough M=5). Seeded random series length 3..40 (plateaus, monotone "
    "runs, piecewise collinear, random walk, dyadic fractions; random increasing timings; random "
    "masks). Values/times dyadic with pairwise differences <= 2^11 so float32 slopes compare exactly "
    "as rationals. Relations on every case: degree split, retarded/advanced degree and local "
    "clustering vs direct counting, time reversal (mirror + exchange of retarded/advanced degree, "
    "clustering; closeness/betweenness on a subset, tol 1e-9), positive affine maps of values and "
    "of times (powers of two and small integers, bound-preserving; one value map and one time map "
    "per exhaustive case in rotation, all twelve on random cases).")
RULE = (
    "A case = (graph type, values, timings, mask). Counted distinct+nontrivial when the series has "
    ">= 3 present samples in a row somewhere, i.e. at least one non-adjacent pair whose visibility "
    "is decided by an intermediate sample. evaluations counts every contract clause evaluated "
    "(adjacency vs oracle, each relation, each affine map).")

# deterministic affine maps (scale, shift); applied only if the mapped series keeps the bound
VALUE_MAPS = [(F(2), F(0)), (F(1, 4), F(0)), (F(1), F(64)), (F(4), F(-32)), (F(3), F(7)),
              (F(1, 2), F(-1, 2))]
TIME_MAPS = [(F(2), F(0)), (F(1, 2), F(0)), (F(1), F(128)), (F(8), F(-16)), (F(3), F(5)),
             (F(1, 4), F(3, 4))]


# ------------------------------------------------------------------ oracle

def spec_adjacency(x, t, horizontal):
    """x: list of Fraction or None (missing); t: list of Fraction, strictly increasing."""
    n = len(x)
    A = np.zeros((n, n), dtype=int)
    for i in range(n):
        for j in range(i + 1, n):
            if x[i] is None or x[j] is None:
                continue
            vis = True
            for k in range(i + 1, j):
                if x[k] is None:
                    vis = False
                    break
                if horizontal:
                    below = x[k] < min(x[i], x[j])
                else:
                    line = x[i] + (x[j] - x[i]) * (t[k] - t[i]) / (t[j] - t[i])
                    below = x[k] < line
                if not below:
                    vis = False
                    break
            if vis:
                A[i, j] = A[j, i] = 1
    return A


def spec_directed_clustering(A, past):
    """Fraction of connected pairs among the past (future) neighbours of each node; 0 if < 2."""
    n = A.shape[0]
    out = []
    for i in range(n):
        nb = [j for j in (range(i) if past else range(i + 1, n)) if A[i, j]]
        k = len(nb)
        if k < 2:
            out.append(0.0)
            continue
        c = sum(1 for a, b in itertools.combinations(nb, 2) if A[a, b])
        out.append(float(F(c, k * (k - 1) // 2)))
    return np.array(out)


# ------------------------------------------------------------------ helpers

def exact_ok(vals):
    """vals: list of Fraction (dyadic). True iff float32-representable and all pairwise
    differences, in units of the common dyadic step, are <= DIFF_BOUND."""
    vals = [v for v in vals if v is not None]
    if not vals:
        return True
    den = max(v.denominator for v in vals)
    if den & (den - 1):
        return False
    ms = [int(v * den) for v in vals]
    if max(abs(m) for m in ms) >= 2 ** 24 or den > 2 ** 20:
        return False
    return max(ms) - min(ms) <= DIFF_BOUND


def to_arr(v):
    return np.array([np.nan if a is None else float(a) for a in v], dtype=float)


def build(x, t, horizontal, mv):
    from pyunicorn.timeseries import VisibilityGraph
    with quiet():
        return VisibilityGraph(to_arr(x), timings=None if t is None else to_arr(t),
                               missing_values=mv, horizontal=horizontal, silence_level=3)


def wit(x, t, horizontal, mv, **extra):
    w = {"x": [None if a is None else [a.numerator, a.denominator] for a in x],
         "t": None if t is None else [[a.numerator, a.denominator] for a in t],
         "horizontal": bool(horizontal), "missing_values": bool(mv)}
    w.update(extra)
    return w


def unwit(w):
    x = [None if a is None else F(a[0], a[1]) for a in w["x"]]
    t = None if w["t"] is None else [F(a[0], a[1]) for a in w["t"]]
    return x, t, w["horizontal"], w["missing_values"]


def is_nontrivial(x):
    run = 0
    for a in x:
        run = run + 1 if a is not None else 0
        if run >= 3:
            return True
    return False


# ------------------------------------------------------------------ the contract

def check_case(rep, x, t, horizontal, mv, deep=False, tag="", maps=None):
    """Evaluate all clauses of C14 on one series.  x: Fractions/None, t: Fractions or None.
    maps: None = every affine map, else an int selecting one value map and one time map."""
    n = len(x)
    tt = t if t is not None else [F(i) for i in range(n)]
    if not (exact_ok(x) and exact_ok(tt)):
        rep.skip("generator produced a series outside the exactness bound (harness bug)")
        return
    pre = "hvg" if horizontal else "nvg"
    has_missing = any(a is None for a in x)
    W = lambda **e: wit(x, t, horizontal, mv, tag=tag, **e)  # noqa: E731
    key = (pre, tuple(x), None if t is None else tuple(t), mv)
    rep.case(key, nontrivial=is_nontrivial(x),
             sample={"type": pre, "x": [None if a is None else float(a) for a in x],
                     "t": None if t is None else [float(a) for a in t], "tag": tag})
    try:
        g = build(x, t, horizontal, mv)
        A = np.array(g.adjacency).astype(int)
    except Exception as e:  # noqa: BLE001
        rep.fail(pre + "/construct", W(), "raised %r" % (e,))
        return
    S = spec_adjacency(x, tt, horizontal)

    # --- criterion
    if not np.array_equal(A, S):
        if has_missing:
            # separate the clauses: links of missing samples vs. links among present samples
            miss = [i for i in range(n) if x[i] is None]
            if A[miss, :].any() or A[:, miss].any():
                rep.fail(pre + "/missing-isolated", W(),
                         "missing samples %s have links: rows %s" % (miss, A[miss, :].tolist()))
                # the object is not a visibility graph of the present samples; the relation
                # clauses below would only repeat this root cause under other names
                return
            pres = [i for i in range(n) if x[i] is not None]
            if not np.array_equal(A[np.ix_(pres, pres)], S[np.ix_(pres, pres)]):
                rep.fail(pre + "/missing-blocks", W(),
                         "present samples: got %s expected %s" % (A[np.ix_(pres, pres)].tolist(),
                                                                  S[np.ix_(pres, pres)].tolist()))
        else:
            bad = np.argwhere(A != S)
            rep.fail(pre + "/criterion", W(),
                     "adjacency differs at %s: got %s expected %s" % (bad[:4].tolist(), A.tolist(),
                                                                     S.tolist()))
    if not (np.array_equal(A, A.T) and not A.diagonal().any()):
        rep.fail(pre + "/simple-undirected", W(), "adjacency not symmetric/loop-free: %s" % A.tolist())
    # visibility() accessor agrees with the adjacency
    rep.case()
    for (i, j) in [(0, n - 1), (0, min(2, n - 1))]:
        if int(g.visibility(i, j)) != A[i, j]:
            rep.fail(pre + "/visibility-accessor", W(i=i, j=j), "visibility(i,j) != adjacency[i,j]")

    # --- time-directed degrees
    rep.case()
    rd, ad, deg = np.array(g.retarded_degree()), np.array(g.advanced_degree()), np.array(g.degree())
    if not np.array_equal(rd + ad, deg):
        rep.fail(pre + "/degree-split", W(), "ret %s + adv %s != deg %s" % (rd.tolist(), ad.tolist(),
                                                                          deg.tolist()))
    rd_s = np.array([A[i, :i].sum() for i in range(n)])
    ad_s = np.array([sum(A[i, j] for j in range(i + 1, n)) for i in range(n)])
    if not (np.array_equal(rd, rd_s) and np.array_equal(ad, ad_s)):
        rep.fail(pre + "/directed-degree", W(), "ret %s adv %s expected %s %s"
                 % (rd.tolist(), ad.tolist(), rd_s.tolist(), ad_s.tolist()))

    # --- time-directed clustering vs direct pair counting (on the library's own adjacency)
    rep.case()
    rc, ac = np.array(g.retarded_local_clustering()), np.array(g.advanced_local_clustering())
    rc_s, ac_s = spec_directed_clustering(A, True), spec_directed_clustering(A, False)
    if not np.allclose(rc, rc_s, rtol=1e-12, atol=1e-12):
        rep.fail(pre + "/retarded-clustering", W(), "got %s expected %s" % (rc.tolist(), rc_s.tolist()))
    if not np.allclose(ac, ac_s, rtol=1e-12, atol=1e-12):
        rep.fail(pre + "/advanced-clustering", W(), "got %s expected %s" % (ac.tolist(), ac_s.tolist()))

    # --- time reversal
    rep.case()
    xr = x[::-1]
    tr = [-a for a in tt[::-1]]
    try:
        gr = build(xr, tr, horizontal, mv)
        Ar = np.array(gr.adjacency).astype(int)
    except Exception as e:  # noqa: BLE001
        rep.fail(pre + "/reversal-mirror", W(), "reversed series raised %r" % (e,))
        gr = None
    if gr is not None:
        if not np.array_equal(Ar, A[::-1, ::-1]):
            rep.fail(pre + "/reversal-mirror", W(), "reversed graph %s is not the mirror of %s"
                     % (Ar.tolist(), A.tolist()))
        pairs = [("degree", "retarded_degree", "advanced_degree"),
                 ("clustering", "retarded_local_clustering", "advanced_local_clustering")]
        if deep:
            pairs += [("closeness", "retarded_closeness", "advanced_closeness"),
                      ("betweenness", "retarded_betweenness", "advanced_betweenness")]
        for name, mr, ma in pairs:
            rep.case()
            try:
                with quiet():
                    r0, a0 = np.array(getattr(g, mr)(), dtype=float), np.array(getattr(g, ma)(), dtype=float)
                    r1, a1 = np.array(getattr(gr, mr)(), dtype=float), np.array(getattr(gr, ma)(), dtype=float)
            except Exception as e:  # noqa: BLE001
                rep.fail(pre + "/reversal-exchange-" + name, W(), "raised %r" % (e,))
                continue
            ok = (np.allclose(r1, a0[::-1], rtol=1e-9, atol=1e-12, equal_nan=True)
                  and np.allclose(a1, r0[::-1], rtol=1e-9, atol=1e-12, equal_nan=True))
            if not ok:
                rep.fail(pre + "/reversal-exchange-" + name, W(),
                         "orig ret %s adv %s ; reversed ret %s adv %s"
                         % (r0.tolist(), a0.tolist(), r1.tolist(), a1.tolist()))

    # --- affine invariance
    for which, allmaps in (("values", VALUE_MAPS), ("times", TIME_MAPS)):
        sel = allmaps if maps is None else [allmaps[maps % len(allmaps)]]
        for (a, b) in sel:
            if which == "values":
                x2 = [None if v is None else a * v + b for v in x]
                t2 = t
                if not exact_ok(x2):
                    continue
            else:
                x2 = x
                t2 = [a * v + b for v in tt]
                if not exact_ok(t2):
                    continue
            rep.case()
            try:
                A2 = np.array(build(x2, t2, horizontal, mv).adjacency).astype(int)
            except Exception as e:  # noqa: BLE001
                rep.fail(pre + "/affine-" + which, W(scale=str(a), shift=str(b)), "raised %r" % (e,))
                continue
            if not np.array_equal(A2, A):
                rep.fail(pre + "/affine-" + which, W(scale=str(a), shift=str(b)),
                         "graph changed under %s -> %s*v+%s: %s vs %s" % (which, a, b, A2.tolist(),
                                                                        A.tolist()))


    # --- pure rescaling of BOTH axes by powers of two far from 1 (exact in float32: every sample, difference and slope stays
    #     a normal float32 number; only products of a value difference and a time difference would leave the range)
    if not horizontal:
        for ea, eb in (((70, 60), (-80, -80)) if (maps is None or maps % 3 == 0) else ((64, 63),) if maps % 3 == 1 else ((-100, -60), (50, 80))):
            rep.case()
            try:
                xs = np.array([np.nan if v is None else float(v) for v in x]) * 2.0 ** ea
                ts = np.array([float(v) for v in tt]) * 2.0 ** eb
                from pyunicorn.timeseries import VisibilityGraph
                with quiet():
                    g2 = VisibilityGraph(xs, timings=ts, missing_values=mv, horizontal=False, silence_level=3)
                A2 = np.array(g2.adjacency).astype(int)
            except Exception as e:  # noqa: BLE001
                rep.fail(pre + "/affine-power-of-two-scaling", W(value_exp=ea, time_exp=eb), "raised %r" % (e,))
                continue
            if not np.array_equal(A2, A):
                rep.fail(pre + "/affine-power-of-two-scaling", W(value_exp=ea, time_exp=eb),
                         "graph changed under values*2^%d, times*2^%d: %d links instead of %d" % (ea, eb, A2.sum() // 2, A.sum() // 2))


# ------------------------------------------------------------------ case generation

def gaps_to_times(gaps, start=F(0)):
    t = [start]
    for g in gaps:
        t.append(t[-1] + g)
    return t


def exhaustive_cases(tier):
    """(x, t, mv, deep, tag) without graph type."""
    if tier == "quick":
        plan = [(L, 4) for L in range(2, 6)]
        M = 4
    else:
        plan = [(L, 5) for L in range(2, 6)] + [(6, 4)]
        M = 5
    idx = 0
    for L, a in plan:
        for vals in itertools.product(range(a), repeat=L):
            x = [F(v) for v in vals]
            idx += 1
            deep = (idx % 16 == 0)
            yield x, None, False, deep, "exh-default-t"
            if L >= 3:
                if L <= 4:
                    for gaps in itertools.product((1, 2, 3), repeat=L - 1):
                        if all(g == 1 for g in gaps):
                            continue
                        yield x, gaps_to_times([F(g) for g in gaps]), False, False, "exh-all-gaps"
                else:
                    pats = [[F(1 + (k % 2) * 2) for k in range(L - 1)],
                            [F([3, 1, 1, 2, 1][k % 5], 2) for k in range(L - 1)]]
                    for p in pats:
                        yield x, gaps_to_times(p, F(-3)), False, False, "exh-nonuniform-t"
    # all masks
    for L in range(2, M + 1):
        for vals in itertools.product(range(3), repeat=L):
            for mask in itertools.product((0, 1), repeat=L):
                x = [None if m else F(v) for v, m in zip(vals, mask)]
                # masked positions carry no value: visit each masked pattern once
                if any(m and v for v, m in zip(vals, mask)):
                    continue
                idx += 1
                yield x, None, True, (idx % 64 == 0), "exh-masks"
                if L >= 3 and idx % 4 == 0:
                    yield x, gaps_to_times([F(1 + (k * 2) % 3) for k in range(L - 1)]), True, False, \
                        "exh-masks-nonuniform-t"


def random_series(rng, n, kind):
    if kind == "plateau":
        lev = rng.randint(2, 4)
        return [F(int(v)) for v in rng.randint(0, lev, size=n)]
    if kind == "runs":
        out, v = [], int(rng.randint(-20, 20))
        d = 1
        for _ in range(n):
            if rng.rand() < 0.25:
                d = -d
            v += d * int(rng.randint(0, 3))
            out.append(F(v))
        return out
    if kind == "walk":
        return [F(int(v)) for v in np.clip(np.cumsum(rng.randint(-6, 7, size=n)), -500, 500)]
    if kind == "wide":
        return [F(int(v)) for v in rng.randint(-1024, 1025, size=n)]
    if kind == "dyadic":
        return [F(int(v), 8) for v in rng.randint(-200, 201, size=n)]
    raise ValueError(kind)


def random_cases(rng, count):
    kinds = ["plateau", "runs", "walk", "wide", "dyadic", "collinear"]
    for c in range(count):
        kind = kinds[c % len(kinds)]
        n = int(rng.randint(3, 41)) if c % 3 else int(rng.randint(3, 13))
        # timings
        tmode = c % 4
        if tmode == 0:
            t = None
        else:
            maxgap = max(1, min(8, DIFF_BOUND // (2 * n)))
            gaps = [F(int(g)) for g in rng.randint(1, maxgap + 1, size=n - 1)]
            if tmode == 3:
                gaps = [g / 4 for g in gaps]
            t = gaps_to_times(gaps, F(int(rng.randint(-50, 50))))
        tt = t if t is not None else [F(i) for i in range(n)]
        if kind == "collinear":
            # piecewise linear in t with integer slopes -> many exactly collinear triples,
            # a few samples nudged by one unit up or down
            x, v, s = [], F(int(rng.randint(-5, 5))), F(int(rng.randint(-2, 3)))
            for i in range(n):
                if i:
                    v = v + s * (tt[i] - tt[i - 1])
                if rng.rand() < 0.2:
                    s = F(int(rng.randint(-2, 3)))
                x.append(v)
            x = [a + (int(rng.randint(-1, 2)) if rng.rand() < 0.15 else 0) for a in x]
            if not exact_ok(x):
                x = random_series(rng, n, "walk")
        else:
            x = random_series(rng, n, kind)
        mv = (c % 5 == 0)
        if mv:
            x = [None if rng.rand() < 0.2 else a for a in x]
        deep = n <= 12
        yield x, t, mv, deep, "rand-" + kind


def check_hub(rep, x, horizontal, tag):
    """Long series with hubs (a node seen by hundreds of samples): the clauses that do not need the exact-rational
    adjacency oracle - degree split, time-directed clustering against pair counting on the library's own adjacency,
    exchange of retarded / advanced under time reversal.  Integer-valued series, unit time steps."""
    pre = "hvg" if horizontal else "nvg"
    W = {"kind": "hub", "tag": tag, "horizontal": horizontal, "n": len(x), "x": [int(v) for v in x]}
    rep.case((pre, "hub", tag, len(x)), nontrivial=True)
    try:
        xs = [F(int(v)) for v in x]
        g = build(xs, None, horizontal, False)
        gr = build(xs[::-1], None, horizontal, False)
        A = np.array(g.adjacency).astype(np.int64)
        n = A.shape[0]
        deg = np.array(g.degree(), dtype=float)
        ret, adv = np.array(g.retarded_degree(), dtype=float), np.array(g.advanced_degree(), dtype=float)
        low = np.tril(A, -1)
        if not (np.array_equal(ret, low.sum(axis=1)) and np.array_equal(ret + adv, deg)):
            rep.fail(pre + "/degree-split", W, "hub series: retarded + advanced != degree or retarded != past row sum")
        for past, meth, other in ((True, "retarded_local_clustering", "advanced_local_clustering"),
                                  (False, "advanced_local_clustering", "retarded_local_clustering")):
            M = low if past else np.triu(A, 1)          # M[i, j] = 1 iff j is a past (future) neighbour of i
            k = M.sum(axis=1).astype(float)
            closed = np.einsum("ij,jk,ik->i", M, A, M) / 2.0
            exp = np.where(k >= 2, closed / np.maximum(k * (k - 1) / 2.0, 1.0), 0.0)
            got = np.array(getattr(g, meth)(), dtype=float)
            bad = np.flatnonzero(~(np.abs(got - exp) <= 1e-9))
            if bad.size:
                i = int(bad[0])
                rep.fail(pre + "/" + meth.split("_")[0] + "-clustering", W,
                         "hub series: node %d (k=%d) got %r expected %r" % (i, int(k[i]), float(got[i]), float(exp[i])))
            mir = np.array(getattr(gr, other)(), dtype=float)[::-1]
            if not np.all(np.abs(got - mir) <= 1e-9):
                rep.fail(pre + "/reversal-exchange-clustering", W, "hub series: %s differs from the mirrored %s of the reversed series" % (meth, other))
    except Exception as e:                                          # noqa: BLE001
        rep.fail(pre + "/hub-exception", W, "%s: %s" % (type(e).__name__, e))


def hub_cases(rng, tier):
    for n in ((190, 260) if tier == "quick" else (190, 260, 400, 700)):
        noise = rng.randint(0, 50, size=n)
        a = noise.copy(); a[n - 1] = 5000                     # noqa: E702   peak at the end: seen by (almost) all
        b = noise.copy(); b[n // 2] = 5000                    # noqa: E702   peak in the middle
        c = np.zeros(n, dtype=int); c[n - 1] = 1              # noqa: E702   zeros then one peak
        d = (np.arange(n) - n // 3) ** 2 // 16                       # convex: (nearly) every pair sees each other
        for tag, x in (("peak-end", a), ("peak-mid", b), ("zeros-peak", c), ("convex", d)):
            yield tag, x


# ------------------------------------------------------------------ main

def main():
    args = parse_args()
    rep = Report(PROP, args, SCOPE, RULE)
    try:
        import pyunicorn.timeseries  # noqa: F401
    except Exception as e:  # noqa: BLE001
        print("cannot import pyunicorn: %r" % (e,), file=sys.stderr)
        sys.exit(3)

    if args.replay:
        with open(args.replay) as f:
            w = json.load(f)["witness"]
        if w.get("kind") == "hub":
            check_hub(rep, np.array(w["x"], dtype=int), bool(w["horizontal"]), w.get("tag", "replay"))
            rep.finish()
            return
        x, t, hor, mv = unwit(w)
        check_case(rep, x, t, hor, mv, deep=True, tag="replay")
        rep.finish()
        return

    rng = np.random.RandomState(args.seed)
    rep.skip("series of length 1: Network construction with a single node raises "
             "ZeroDivisionError (link density) - not a statement about visibility, not asserted")
    for c, (x, t, mv, deep, tag) in enumerate(exhaustive_cases(args.tier)):
        for hor in (False, True):
            if hor and t is not None and tag == "exh-all-gaps":
                continue   # the horizontal criterion does not involve the timings
            check_case(rep, x, t, hor, mv, deep=deep, tag=tag, maps=c + args.seed)
    nrand = 600 if args.tier == "quick" else 6000
    for x, t, mv, deep, tag in random_cases(rng, nrand):
        for hor in (False, True):
            check_case(rep, x, t, hor, mv, deep=deep, tag=tag)
    for tag, x in hub_cases(np.random.RandomState(args.seed + 77), args.tier):
        for hor in (False, True):
            check_hub(rep, x, hor, tag)
    rep.finish()


if __name__ == "__main__":
    main()
