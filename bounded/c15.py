"""Bounded stand-in for C15: surrogates preserve exactly what each method promises.

Contract clauses (stable `check` names):

  white_noise_surrogates/row-permutation
  correlated_noise_surrogates/amplitude-spectrum
  AAFT_surrogates/row-permutation
  refined_AAFT_surrogates/true-amplitudes-permutation
  refined_AAFT_surrogates/true-spectrum          (finite output, wrong amplitude somewhere)
  refined_AAFT_surrogates/true-spectrum-nan      (output contains NaN/inf)
  Surrogates.twins/exact
  Surrogates.twin_surrogates/original-states
  Surrogates.twin_surrogates/transitions
  RecurrencePlot.twins/exact
  RecurrencePlot.twin_surrogates/original-states
  RecurrencePlot.twin_surrogates/transitions
  <method>/no-exception                          (the call raised)

Oracles are in specs/surrogates.py (pure NumPy, definition level).  Every check is made for
every call of a *history* of calls on one object, so that guarantees that degrade with
repeated use (stale caches, buffers edited in place) are seen.
"""
import hashlib
import itertools
import json
import random as pyrandom
import sys
import traceback

import numpy as np

from bounded.common import parse_args, Report, quiet
from specs import surrogates as S

PROP = "C15"
RTOL = 1e-9


# =============================================================================== helpers

def f32(x):
    """Nearest float32-representable double (Surrogates' twin kernel takes a C float)."""
    return float(np.float32(x))


def digest(*parts):
    h = hashlib.sha1()
    for p in parts:
        if isinstance(p, np.ndarray):
            h.update(np.ascontiguousarray(p).tobytes())
            h.update(repr(p.shape).encode())
        else:
            h.update(repr(p).encode())
    return h.hexdigest()[:16]


def seed_all(seed):
    np.random.seed(seed % (2 ** 32))
    pyrandom.seed(seed)


def has_two_values(a):
    a = np.asarray(a)
    return bool(np.any(a != a[..., :1]))


# =============================================================================== Surrogates

def check_surrogates_history(rep, wit):
    """Run one history of method calls on one Surrogates object, checking every call."""
    from pyunicorn.timeseries import Surrogates

    data = np.array(wit["data"], dtype=float)
    if data.ndim != 2:
        data = data.reshape(len(wit["data"]), -1)
    N, n = data.shape
    with quiet():
        obj = Surrogates(original_data=data.copy(), silence_level=3)
    seed_all(int(wit["rng"]))
    dkey = digest(data)
    bins = S.interior_bins(n)

    for pos, op in enumerate(wit["ops"]):
        name = op[0]
        snap = np.array(obj.original_data, dtype=float, copy=True)
        key = (dkey, pos, json.dumps(op), wit["rng"])
        w = dict(wit, failed_at=pos)

        def call(label, fn):
            try:
                with quiet():
                    return True, fn()
            except Exception as e:      # noqa
                rep.fail(label + "/no-exception", w,
                         "%s: %s | %s" % (type(e).__name__, e,
                                          traceback.format_exc().strip().splitlines()[-3:]))
                return False, None

        if name == "norm":
            ok, _ = call("normalize_original_data", obj.normalize_original_data)
            continue

        if name == "set_emb":
            # the user assigns an embedding of re-scaled data through the public setter
            dim, tau, scale = int(op[1]), int(op[2]), float(op[3])
            n_emb = n - (dim - 1) * tau
            new_emb = np.array([S.embed(scale * snap[i], dim, tau) for i in range(N)],
                               dtype=float).reshape(N, n_emb, dim)

            def assign():
                obj.embedding = new_emb
            call("Surrogates.embedding", assign)
            continue

        if name == "twins_keep":
            # twins() of whatever embedding the object holds NOW (no re-assignment)
            thr, md = float(op[1]), int(op[2])
            cur = obj.embedding
            if cur is None:
                continue
            cur = np.array(cur, dtype=float)
            Tk = [S.twins_from_R(S.recurrence_matrix(cur[i], thr, strict=False), md)
                  for i in range(cur.shape[0])]
            rep.case(key, nontrivial=any(len(t) for T in Tk for t in T))
            ok, tw = call("Surrogates.twins", lambda: obj.twins(thr, md))
            if ok:
                if len(tw) != cur.shape[0]:
                    rep.fail("Surrogates.twins/exact", w,
                             "%d twin lists for %d series" % (len(tw), cur.shape[0]))
                else:
                    for i in range(cur.shape[0]):
                        d = S.twins_defect(tw[i], Tk[i])
                        if d:
                            rep.fail("Surrogates.twins/exact", w,
                                     "series %d (current embedding): %s" % (i, d))
                            break
            continue

        if name == "wn":
            ok, out = call("white_noise_surrogates", obj.white_noise_surrogates)
            rep.case(key, nontrivial=has_two_values(snap),
                     sample={"method": name, "shape": [N, n], "call": pos})
            if ok:
                d = S.row_permutation_defect(snap, out)
                if d:
                    rep.fail("white_noise_surrogates/row-permutation", w, d)

        elif name == "cn":
            ok, out = call("correlated_noise_surrogates", obj.correlated_noise_surrogates)
            rep.case(key, nontrivial=len(bins) > 0 and has_two_values(snap),
                     sample={"method": name, "shape": [N, n], "call": pos})
            if ok:
                d = S.spectrum_defect(snap, out, bins, RTOL)
                if d:
                    rep.fail("correlated_noise_surrogates/amplitude-spectrum", w, d)

        elif name == "aaft":
            ok, out = call("AAFT_surrogates", obj.AAFT_surrogates)
            rep.case(key, nontrivial=has_two_values(snap))
            if ok:
                d = S.row_permutation_defect(snap, out)
                if d:
                    rep.fail("AAFT_surrogates/row-permutation", w, d)

        elif name == "raaft":
            n_it, output = int(op[1]), op[2]
            ok, out = call("refined_AAFT_surrogates",
                           lambda: obj.refined_AAFT_surrogates(n_it, output))
            rep.case(key, nontrivial=has_two_values(snap),
                     sample={"method": name, "n_iterations": n_it, "output": output,
                             "shape": [N, n], "call": pos})
            if ok:
                R = s = None
                if output == "true_amplitudes":
                    R = out
                elif output == "true_spectrum":
                    s = out
                else:
                    R, s = out
                if R is not None:
                    d = S.row_permutation_defect(snap, R)
                    if d:
                        rep.fail("refined_AAFT_surrogates/true-amplitudes-permutation", w, d)
                if s is not None:
                    s = np.asarray(s, dtype=float)
                    if s.shape == snap.shape and not np.all(np.isfinite(s)):
                        rows = np.nonzero(~np.isfinite(s).all(axis=1))[0]
                        rep.fail("refined_AAFT_surrogates/true-spectrum-nan", w,
                                 "rows %r of the 'true spectrum' output are not finite "
                                 "(row sums of the data: %r)" % (
                                     rows[:6].tolist(),
                                     snap[rows[:6]].sum(axis=1).tolist()))
                    else:
                        # the whole one-sided spectrum incl. f=0 and Nyquist is promised
                        d = S.spectrum_defect(snap, s, np.arange(n // 2 + 1), RTOL)
                        if d:
                            rep.fail("refined_AAFT_surrogates/true-spectrum", w, d)

        elif name in ("twin", "twins"):
            dim, tau, thr, md = int(op[1]), int(op[2]), float(op[3]), int(op[4])
            n_emb = n - (dim - 1) * tau
            embs = [S.embed(snap[i], dim, tau) for i in range(N)]
            Ts = [S.twins_from_R(S.recurrence_matrix(e, thr, strict=False), md) for e in embs]
            any_twin = any(len(t) for T in Ts for t in T)
            if name == "twins":
                def direct():
                    obj.embedding = np.array(embs, dtype=float).reshape(N, n_emb, dim)
                    return obj.twins(thr, md)
                ok, tw = call("Surrogates.twins", direct)
                rep.case(key, nontrivial=any_twin)
            else:
                ok, out = call("Surrogates.twin_surrogates",
                               lambda: obj.twin_surrogates(dim, tau, thr, md))
                rep.case(key, nontrivial=any_twin,
                         sample={"method": "twin_surrogates", "dim": dim, "tau": tau,
                                 "threshold": thr, "min_dist": md, "shape": [N, n],
                                 "twin_pairs": sum(len(t) for T in Ts for t in T) // 2})
                tw = None
                if ok:
                    ok2, tw = call("Surrogates.twins", lambda: obj.twins(thr, md))
                    out = np.asarray(out)
                    if out.shape != (N, n_emb):
                        rep.fail("Surrogates.twin_surrogates/original-states", w,
                                 "shape %r, expected %r" % (out.shape, (N, n_emb)))
                    else:
                        for i in range(N):
                            d = S.walk_defect(out[i].reshape(-1, 1),
                                              snap[i, :n_emb].reshape(-1, 1), Ts[i])
                            if d:
                                rep.fail("Surrogates.twin_surrogates/" + (
                                    "original-states" if d[0] == "states" else "transitions"),
                                    w, "series %d: %s" % (i, d[1]))
                                break
            if tw is not None:
                if len(tw) != N:
                    rep.fail("Surrogates.twins/exact", w,
                             "%d twin lists for %d series" % (len(tw), N))
                else:
                    for i in range(N):
                        d = S.twins_defect(tw[i], Ts[i])
                        if d:
                            rep.fail("Surrogates.twins/exact", w, "series %d: %s" % (i, d))
                            break
        else:
            raise ValueError("unknown op %r" % (op,))


# =============================================================================== RecurrencePlot

def rp_distance(emb, metric):
    d = emb[:, None, :] - emb[None, :, :]
    if metric == "supremum":
        return np.abs(d).max(axis=2)
    if metric == "manhattan":
        return np.abs(d).sum(axis=2)
    return np.sqrt((d * d).sum(axis=2))


def rp_embedding(series, dim, tau):
    """The states RecurrencePlot works on: the series is stored in single precision; scalar
    series are delay-embedded when dim and tau are given."""
    x = np.array(series, dtype=float)
    x = x.astype(np.float32).astype(float)
    if x.ndim == 1:
        x = x.reshape(-1, 1)
    if dim is not None and tau is not None:
        return S.embed(x[:, 0], dim, tau)
    return x


def check_rp_history(rep, wit):
    from pyunicorn.timeseries import RecurrencePlot

    series = np.array(wit["series"], dtype=float)
    c = wit["ctor"]
    metric, dim, tau, thr = c["metric"], c.get("dim"), c.get("tau"), float(c["threshold"])
    emb = rp_embedding(series, dim, tau)
    n = emb.shape[0]
    D = rp_distance(emb, metric)
    margin = float(np.abs(D - thr).min())
    R = (D < thr).astype(np.int8)
    seed_all(int(wit["rng"]))
    kw = dict(metric=metric, threshold=thr, silence_level=3)
    if dim is not None and tau is not None:
        kw.update(dim=dim, tau=tau)
    try:
        with quiet():
            rp = RecurrencePlot(series.copy(), **kw)
    except Exception as e:      # noqa
        rep.fail("RecurrencePlot/no-exception", wit, "%s: %s" % (type(e).__name__, e))
        return
    if margin <= 1e-6 * max(1.0, thr):
        # a distance sits on the threshold: the </<= and rounding conventions are not part of
        # this property; take the object's own recurrence matrix as the neighbourhood relation
        R = np.array(rp.recurrence_matrix())
    dkey = digest(series, json.dumps(c))

    for pos, op in enumerate(wit["ops"]):
        name = op[0]
        key = (dkey, pos, json.dumps(op), wit["rng"])
        w = dict(wit, failed_at=pos)
        if name == "twins":
            md = int(op[1])
            T = S.twins_from_R(R, md)
            rep.case(key, nontrivial=any(len(t) for t in T))
            try:
                with quiet():
                    tw = rp.twins(md)
            except Exception as e:      # noqa
                rep.fail("RecurrencePlot.twins/no-exception", w, "%s: %s" % (type(e).__name__, e))
                continue
            d = S.twins_defect(tw, T)
            if d:
                rep.fail("RecurrencePlot.twins/exact", w, d)
        elif name == "twin_surr":
            ns, md = int(op[1]), int(op[2])
            T = S.twins_from_R(R, md)
            rep.case(key, nontrivial=any(len(t) for t in T),
                     sample={"method": "RecurrencePlot.twin_surrogates", "n": n,
                             "ctor": c, "n_surrogates": ns, "min_dist": md,
                             "twin_pairs": sum(len(t) for t in T) // 2})
            try:
                with quiet():
                    out = np.asarray(rp.twin_surrogates(n_surrogates=ns, min_dist=md))
            except Exception as e:      # noqa
                rep.fail("RecurrencePlot.twin_surrogates/no-exception", w,
                         "%s: %s" % (type(e).__name__, e))
                continue
            if out.shape != (ns, n, emb.shape[1]):
                rep.fail("RecurrencePlot.twin_surrogates/original-states", w,
                         "shape %r, expected %r" % (out.shape, (ns, n, emb.shape[1])))
                continue
            for i in range(ns):
                d = S.walk_defect(out[i], emb, T)
                if d:
                    rep.fail("RecurrencePlot.twin_surrogates/" + (
                        "original-states" if d[0] == "states" else "transitions"),
                        w, "surrogate %d: %s" % (i, d[1]))
                    break
        else:
            raise ValueError("unknown op %r" % (op,))


def run_witness(rep, wit):
    if wit["kind"] == "surrogates":
        check_surrogates_history(rep, wit)
    elif wit["kind"] == "rp":
        check_rp_history(rep, wit)
    else:
        raise ValueError("unknown witness kind %r" % wit.get("kind"))


# =============================================================================== generators

def make_series(rs, kind, n):
    """One scalar series of length n."""
    k = np.arange(n)
    if kind == "gauss":
        return rs.randn(n)
    if kind == "ties":
        return rs.randint(0, 4, size=n).astype(float)
    if kind == "periodic":        # periodic integer pattern + tiny unique ramp: many twins,
        p = rs.randint(2, 6)      # all values distinct, distances far from x.5 thresholds
        base = rs.permutation(6)[:p].astype(float)
        return base[k % p] + k * 2.0 ** -16
    if kind == "periodic-ties":   # exactly periodic: twins and repeated values
        p = rs.randint(2, 6)
        base = rs.randint(0, 3, size=p).astype(float)
        return base[k % p]
    if kind == "logistic":
        x = np.empty(n)
        x[0] = rs.uniform(0.1, 0.9)
        for i in range(1, n):
            x[i] = 3.99 * x[i - 1] * (1 - x[i - 1])
        return x
    if kind == "sine":
        p = rs.uniform(4, 9)
        return np.sin(2 * np.pi * k / p) + 0.01 * rs.randn(n)
    if kind == "const":
        return np.full(n, float(rs.randint(-2, 3)))
    if kind == "zero-sum-int":
        h = rs.randint(1, 5, size=n // 2).astype(float)
        x = np.concatenate([h, -h, np.zeros(n - 2 * (n // 2))])
        return x[rs.permutation(n)]
    raise ValueError(kind)


def pick_threshold(rs, emb, kind, metric="supremum"):
    """A recurrence threshold that is float32-representable and clear of every distance."""
    if kind in ("ties", "periodic", "periodic-ties", "const", "zero-sum-int"):
        return float(rs.choice([0.5, 1.5, 2.5]))
    D = rp_distance(emb, metric)
    iu = D[np.triu_indices(D.shape[0], 1)]
    if iu.size == 0:
        return 0.5
    q = rs.uniform(0.2, 0.95)
    thr = f32(np.quantile(iu, q) + 1e-3)
    while np.abs(D - thr).min() <= 1e-5 * max(1.0, thr):
        thr = f32(thr * 1.01 + 1e-3)
    return thr


def surrogate_ops(rs, n, kind, length, with_norm):
    ops = []
    for _ in range(length):
        r = rs.randint(0, 8 if with_norm else 7)
        if r == 0:
            ops.append(["wn"])
        elif r == 1:
            ops.append(["cn"])
        elif r == 2:
            ops.append(["aaft"])
        elif r in (3, 4):
            out = ["true_amplitudes", "true_spectrum", "both"][rs.randint(0, 3)]
            nit = int(rs.choice([1, 2, 5])) if out != "true_amplitudes" \
                else int(rs.choice([0, 1, 3]))
            ops.append(["raaft", nit, out])
        elif r in (5, 6):
            ops.append(None)        # twin op, filled by caller (needs the data)
        else:
            ops.append(["norm"])
    return ops


def fill_twin_ops(rs, data, kind, ops):
    N, n = data.shape
    out = []
    for op in ops:
        if op is not None:
            out.append(op)
            if op[0] == "norm":
                # thresholds below were chosen for the un-normalised data; keep it simple:
                # after a normalisation only threshold-free methods and twins with a freshly
                # chosen threshold on normalised data follow
                m = data.mean(axis=1, keepdims=True)
                s = data.std(axis=1, keepdims=True)
                s[s == 0] = 1
                data = (data - m) / s
                kind = "gauss"
            continue
        dim = int(rs.randint(1, 4))
        tau = int(rs.randint(1, 4))
        while n - (dim - 1) * tau < 1:
            dim -= 1
        emb = S.embed(data[rs.randint(0, N)], dim, tau)
        thr = pick_threshold(rs, emb, kind)
        # the threshold must be clear of the distances of *every* row
        for _ in range(50):
            if all(S.threshold_margin(S.embed(data[i], dim, tau), thr) > 1e-5 * max(1.0, thr)
                   for i in range(N)):
                break
            thr = f32(thr * 1.013 + 1e-3)
        md = int(rs.choice([0, 1, 2, 3, 7, 10]))
        out.append([["twin", "twins"][rs.randint(0, 4) == 0], dim, tau, thr, md])
    return out


def gen_surrogate_histories(rs, tier):
    """Yield witnesses (kind 'surrogates')."""
    quick = tier == "quick"
    # (a) systematic sweep over shapes: every length 1..L (odd and even), 1..3 series,
    #     every threshold-free method called three times in a row plus interleavings
    base_ops = [["wn"], ["cn"], ["cn"], ["aaft"], ["raaft", 1, "both"], ["cn"],
                ["raaft", 3, "both"], ["raaft", 0, "true_amplitudes"], ["wn"], ["aaft"],
                ["raaft", 2, "true_spectrum"], ["cn"]]
    lengths = list(range(1, 14 if quick else 26)) + ([31, 32, 64, 65] if quick else
                                                     [31, 32, 33, 63, 64, 65, 127, 128, 200, 255, 256])
    for n in lengths:
        for N in (1, 2, 3):
            for kind in ("gauss", "ties") + (() if quick else ("logistic", "sine")):
                data = np.array([make_series(rs, kind, n) for _ in range(N)])
                yield {"kind": "surrogates", "data": data.tolist(), "ops": base_ops,
                       "rng": int(rs.randint(0, 2 ** 31))}
    # (a2) every method before and after normalize_original_data on the same object
    norm_ops = [["cn"], ["raaft", 2, "both"], ["wn"], ["aaft"], ["norm"], ["cn"],
                ["raaft", 2, "both"], ["wn"], ["aaft"], ["norm"], ["cn"], ["raaft", 1, "true_spectrum"]]
    for n in ([5, 8, 13, 32] if quick else [3, 4, 5, 8, 13, 21, 32, 50, 101]):
        for N in (1, 3):
            for kind in ("gauss", "logistic"):
                data = np.array([3.0 + 2.5 * make_series(rs, kind, n) for _ in range(N)])
                yield {"kind": "surrogates", "data": data.tolist(), "ops": norm_ops,
                       "rng": int(rs.randint(0, 2 ** 31))}
    # (b) random histories incl. twin surrogates and normalisation
    kinds = ["gauss", "ties", "periodic", "periodic-ties", "logistic", "sine"]
    for it in range(240 if quick else 1500):
        kind = kinds[it % len(kinds)]
        n = int(rs.randint(2, 28 if quick else 60))
        N = int(rs.randint(1, 4))
        data = np.array([make_series(rs, kind, n) for _ in range(N)])
        ops = surrogate_ops(rs, n, kind, int(rs.randint(3, 7 if quick else 11)),
                            with_norm=(it % 3 == 0))
        ops = fill_twin_ops(rs, data.copy(), kind, ops)
        yield {"kind": "surrogates", "data": data.tolist(), "ops": ops,
               "rng": int(rs.randint(0, 2 ** 31))}
    # (c) twin surrogates on data built to have many twins, repeated calls, several seeds
    for it in range(160 if quick else 1000):
        kind = ["periodic", "periodic-ties", "sine", "logistic"][it % 4]
        n = int(rs.randint(6, 40 if quick else 90))
        N = int(rs.randint(1, 4))
        data = np.array([make_series(rs, kind, n) for _ in range(N)])
        ops = fill_twin_ops(rs, data.copy(), kind, [None] * int(rs.randint(2, 6)))
        # repeat the first call at the end (cache hit path of twins())
        ops.append(list(ops[0]))
        yield {"kind": "surrogates", "data": data.tolist(), "ops": ops,
               "rng": int(rs.randint(0, 2 ** 31))}


def _standardise(data):
    m = data.mean(axis=1, keepdims=True)
    sd = data.std(axis=1, keepdims=True)
    sd[sd == 0] = 1
    return (data - m) / sd


def gen_rescaling_histories(rs, tier):
    """Histories in which the data scale changes between two twin computations that use the SAME
    embedding parameters and threshold: normalize_original_data() in between, or an embedding of
    re-scaled data assigned through the setter in between.  The data are built so that the raw
    and the standardised series have different recurrence structure at the chosen threshold
    (e.g. two levels 0 / 0.3 with threshold 0.5: everything recurs before, only equal levels
    after).  Every twin list and surrogate is checked against the object's current data."""
    quick = tier == "quick"
    grid = [(1, 1), (2, 1), (2, 2), (3, 1), (3, 2)]
    mds = [0, 3, 7]
    cases = []
    for it in range(12 if quick else 60):
        n = int(rs.randint(12, 40 if quick else 70))
        N = int(rs.randint(1, 4))
        flavour = it % 4
        rows = []
        for _ in range(N):
            k = np.arange(n)
            if flavour == 0:        # two levels, random pattern
                rows.append(0.3 * rs.randint(0, 2, size=n).astype(float))
            elif flavour == 1:      # two/three levels, periodic (many twins after rescaling)
                p = int(rs.randint(2, 6))
                base = 0.15 * rs.randint(0, 3, size=p).astype(float)
                if base.max() == base.min():
                    base[0] += 0.15
                rows.append(base[k % p])
            elif flavour == 2:      # small-amplitude sine with offset
                rows.append(5.0 + 0.1 * np.sin(2 * np.pi * k / rs.uniform(4, 9)) +
                            0.002 * rs.randn(n))
            else:                   # large-amplitude periodic pattern (structure collapses when
                p = int(rs.randint(2, 6))       # standardised: all distances fall below 2.5)
                base = 20.0 * rs.permutation(6)[:p].astype(float)
                rows.append(base[k % p] + k * 2.0 ** -10)
        data = np.array(rows)
        if any(r.max() == r.min() for r in data):
            data[:, 0] += 0.3
        cases.append((data, 0.5 if flavour < 3 else 2.5))
    for data, thr in cases:
        N, n = data.shape
        std = _standardise(data.copy())
        dim, tau = grid[int(rs.randint(0, len(grid)))]
        dim2, tau2 = grid[int(rs.randint(0, len(grid)))]
        md = int(mds[int(rs.randint(0, len(mds)))])
        scale = float(rs.choice([0.01, 7.0, 40.0]))
        # the threshold has to be clear of every distance at every scale that occurs
        ok = True
        for d_, t_ in ((dim, tau), (dim2, tau2)):
            for arr in (data, std, scale * data, scale * std):
                for i in range(N):
                    if S.threshold_margin(S.embed(arr[i], d_, t_), thr) <= 1e-5:
                        ok = False
        if not ok:
            continue
        tw = ["twin", dim, tau, thr, md]
        tw2 = ["twin", dim2, tau2, thr, md]
        td = ["twins", dim, tau, thr, md]
        keep = ["twins_keep", thr, md]
        hists = [
            [tw, ["norm"], tw, keep, tw],
            [tw, keep, ["set_emb", dim, tau, scale], keep, tw, keep],
            [td, ["norm"], td, keep],
            [td, keep, ["norm"], keep, tw, keep],
            [tw, tw2, tw, ["norm"], tw, tw2, tw],
            [tw, ["set_emb", dim2, tau2, scale], keep, tw, ["norm"], ["set_emb", dim, tau, 1.0],
             keep, tw],
            [["wn"], tw, ["cn"], ["norm"], ["raaft", 1, "both"], tw, ["norm"], tw],
        ]
        for h in hists:
            yield {"kind": "surrogates", "data": data.tolist(), "ops": h,
                   "rng": int(rs.randint(0, 2 ** 31))}


def gen_unit_histories(rs, tier):
    """Ordinary data in very small / very large units: the surrogate definitions are scale free (amplitudes are compared
    relative to the largest amplitude of the row)."""
    for unit in (1e-200, 1e-170, 1e170, 1e200) if tier == "quick" else (1e-250, 1e-200, 1e-170, 1e-160, 1e160, 1e170, 1e200, 1e250):
        for n in (16, 21):
            data = (rs.randn(2, n) * unit).tolist()
            yield {"kind": "surrogates", "data": data, "rng": int(rs.randint(1, 10 ** 6)),
                   "ops": [["raaft", 2, "true_spectrum"], ["cn"], ["raaft", 1, "both"], ["aaft"]]}


def gen_degenerate_histories():
    """Deterministic inputs on which a Fourier coefficient of a permuted row is exactly zero
    (integer rows summing to zero, constant rows, standardised rows)."""
    rows = [
        [[1., -1., 2., -2., 3., -3., 0., 0.]],
        [[2., 2., 2., 2., 2., 2.]],
        [[1., 2., 3., 4., 5., 6., 7., 8.], [3., -3., 1., -1., 0., 2., -2., 0.]],
        [[-1., 1.]],
        [[0., 0., 0., 0., 0.]],
    ]
    for r in rows:
        yield {"kind": "surrogates", "data": r,
               "ops": [["raaft", 2, "both"], ["cn"], ["aaft"], ["wn"], ["raaft", 1, "true_spectrum"]],
               "rng": 7}


def gen_exhaustive_twins(tier):
    """All series over the alphabet {0,1,2} up to length L, as Surrogates (twins and one twin
    surrogate) and as RecurrencePlot histories, for a grid of embedding / threshold / min_dist."""
    L = 5 if tier == "quick" else 7
    grid = [(1, 1), (2, 1), (2, 2), (3, 1)]
    for n in range(1, L + 1):
        for x in itertools.product((0.0, 1.0, 2.0), repeat=n):
            ops = []
            rops = {}
            for dim, tau in grid:
                if n - (dim - 1) * tau < 1:
                    continue
                for thr in (0.5, 1.5):
                    for md in (0, 1, 2):
                        ops.append(["twins", dim, tau, thr, md])
                    ops.append(["twin", dim, tau, thr, 0])
                    rops.setdefault((dim, tau, thr), []).extend(
                        [["twins", 0], ["twins", 1], ["twins", 2], ["twin_surr", 2, 0],
                         ["twins", 0]])
                # threshold 0 (Surrogates uses the closed neighbourhood d <= threshold: a state recurs with its exact repeats
                # only - the natural setting for symbolic data)
                for md in (0, 1, 2):
                    ops.append(["twins", dim, tau, 0.0, md])
                ops.append(["twin", dim, tau, 0.0, 1])
            yield {"kind": "surrogates", "data": [list(x)], "ops": ops, "rng": n}
            for (dim, tau, thr), o in rops.items():
                yield {"kind": "rp", "series": list(x),
                       "ctor": {"metric": "supremum", "dim": dim, "tau": tau, "threshold": thr},
                       "ops": o, "rng": n}


def gen_rp_histories(rs, tier):
    quick = tier == "quick"
    kinds = ["periodic", "periodic-ties", "sine", "logistic", "gauss", "ties"]
    for it in range(400 if quick else 3000):
        kind = kinds[it % len(kinds)]
        n = int(rs.randint(1, 36 if quick else 80))
        metric = ["supremum", "manhattan", "euclidean"][rs.randint(0, 3)]
        multi = (it % 5 == 4)
        if multi:       # multi-dimensional series, no embedding
            d = int(rs.randint(2, 4))
            series = np.array([make_series(rs, kind, n) for _ in range(d)]).T
            dim = tau = None
        else:
            series = make_series(rs, kind, n)
            dim = int(rs.randint(1, 4))
            tau = int(rs.randint(1, 4))
            while n - (dim - 1) * tau < 1:
                dim -= 1
        emb = rp_embedding(series, dim, tau)
        thr = pick_threshold(rs, emb, kind, metric)
        ops = []
        for _ in range(int(rs.randint(2, 6))):
            md = int(rs.choice([0, 1, 2, 3, 7, 10, 12]))
            if rs.randint(0, 2):
                ops.append(["twins", md])
            else:
                ops.append(["twin_surr", int(rs.randint(1, 4)), md])
        yield {"kind": "rp", "series": np.asarray(series).tolist(),
               "ctor": {"metric": metric, "dim": dim, "tau": tau, "threshold": thr},
               "ops": ops, "rng": int(rs.randint(0, 2 ** 31))}


# =============================================================================== main

SCOPE = (
    "Surrogates: lengths n=1..13 (quick) / 1..25 (thorough) plus 31,32,64,65 (/ up to 256), "
    "1..3 series, Gaussian / tied-integer / logistic / sine / (exactly) periodic data; every "
    "method called repeatedly and interleaved on ONE object (histories of 3..12 calls, optionally "
    "with normalize_original_data in between), NumPy and Python RNG seeded per history; "
    "refined AAFT with 0..5 iterations and all three outputs; twin surrogates with dim 1..3, "
    "delay 1..3, min_dist in {0,1,2,3,7,10,12}, thresholds float32-representable and clear of every "
    "pairwise distance.  Exhaustive: all series over {0,1,2} up to length 5 (quick) / 7 (thorough) "
    "x (dim,tau) in {(1,1),(2,1),(2,2),(3,1)} x threshold {0.5,1.5} x min_dist {0,1,2} for "
    "Surrogates.twins / twin_surrogates and RecurrencePlot.twins / twin_surrogates; random "
    "RecurrencePlot histories (three metrics, scalar+embedding or multi-dimensional series, "
    "n=1..35 / 1..79).  Spectra: all one-sided bins 1..ceil(n/2)-1 of every row for Fourier "
    "surrogates, all bins incl. 0 and Nyquist for the refined-AAFT 'true spectrum'; tolerance "
    "1e-9 x largest amplitude of the row (double-precision FFT round trip).  Permutations are "
    "compared bit-exactly as multisets.  Degenerate family: integer rows summing to 0, constant "
    "and all-zero rows, the standardised pair [-1,1].")
RULE = (
    "one evaluation = one checked method call inside a history; key = (data digest, position in "
    "history, call, RNG seed).  Non-trivial: permutation clauses - the data have at least two "
    "distinct values; spectrum clauses - additionally n >= 3 (an interior frequency exists); "
    "twin clauses - at least one twin pair exists under the definition for the chosen parameters.")


def main():
    args = parse_args()
    rep = Report(PROP, args, SCOPE, RULE)
    try:
        import pyunicorn.timeseries  # noqa
    except Exception as e:      # noqa
        print("cannot import pyunicorn: %r" % (e,), file=sys.stderr)
        sys.exit(3)

    if args.replay:
        with open(args.replay) as f:
            doc = json.load(f)
        wit = doc["witness"] if "witness" in doc else doc
        wit = {k: v for k, v in wit.items() if k != "failed_at"}
        run_witness(rep, wit)
        rep.finish()
        return

    rs = np.random.RandomState(args.seed)
    budget = 55 if args.tier == "quick" else 540
    gens = [gen_degenerate_histories(), gen_unit_histories(np.random.RandomState(args.seed + 31), args.tier),
            gen_rescaling_histories(rs, args.tier),
            gen_exhaustive_twins(args.tier),
            gen_surrogate_histories(rs, args.tier), gen_rp_histories(rs, args.tier)]
    for g in gens:
        for wit in g:
            if rep.elapsed() > budget:
                rep.skip("time budget reached; remaining generated histories not run")
                break
            try:
                run_witness(rep, wit)
            except Exception as e:      # noqa   harness-side problem: make it visible
                rep.fail("harness/internal-error", wit,
                         "%s: %s" % (type(e).__name__, traceback.format_exc()[-400:]))
    rep.finish()


if __name__ == "__main__":
    main()
