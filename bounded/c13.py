"""Bounded stand-in for C13 - data windows select exactly the requested samples; anomalies sum.

Real code under check: pyunicorn.core.Data and pyunicorn.climate.ClimateData
(set_window, set_global_window, observable, grid, window, phase_indices, phase_mean, anomaly,
indices_selected_phases, indices_selected_months, anomaly_selected_months).
Oracle: specs/data_window.py (explicit loops over samples, math.fsum), independent of the library.

A *case* is a JSON-able dict
  {cls: "Data"|"ClimateData", times, lats, lons, X, dtype, cycle, anomalies, init_window,
   ops: [window-dict | "global", ...], months}
and is evaluated by `run_case`: build the object, check the full state, apply every op and check
the full state after each (the derived series are requested at every step, so stale caches of the
previous window show up).  `--replay` re-runs exactly one such dict.
"""
import itertools
import math
import sys
import traceback

import numpy as np

from bounded.common import parse_args, Report, quiet, jsonable
from specs import data_window as spec

try:
    from pyunicorn.core import Data, GeoGrid
    from pyunicorn.climate import ClimateData
except Exception:                                     # harness cannot run
    traceback.print_exc()
    sys.exit(3)

WKEYS = ("time_min", "time_max", "lat_min", "lat_max", "lon_min", "lon_max")


def W(t0, t1, la0, la1, lo0, lo1):
    return dict(zip(WKEYS, (t0, t1, la0, la1, lo0, lo1)))


def tol_for(dtype, X):
    scale = max(1.0, float(np.max(np.abs(np.asarray(X, dtype=float)))) if np.size(X) else 1.0)
    # float64 / integer observables: phase means and anomalies are float64 sums of <= T terms
    # (1e-12 relative to the data scale); float32 observables: the library's means are float32
    # reductions (1e-5 relative to the data scale).
    return (1e-5 if dtype == "float32" else 1e-12) * scale


def build(case):
    X = np.array(case["X"], dtype=case["dtype"])
    if X.ndim != 2:
        X = X.reshape(len(case["times"]), len(case["lats"]))
    grid = GeoGrid(np.array(case["times"], dtype=float), np.array(case["lats"], dtype=float),
                   np.array(case["lons"], dtype=float), 3)
    iw = case.get("init_window")
    if case["cls"] == "Data":
        obj = Data(observable=X, grid=grid, window=iw, silence_level=3)
    else:
        obj = ClimateData(observable=X, grid=grid, time_cycle=int(case["cycle"]),
                          anomalies=bool(case["anomalies"]), window=iw, silence_level=3)
    return X, obj


def nonempty(case, window):
    tm, sm = spec.window_masks(case["times"], case["lats"], case["lons"], window)
    return any(tm) and any(sm)


def check_state(rep, case, X, obj, tmask, smask, step):
    """Evaluate every clause of the contract on the current state.  Returns number of failures."""
    wit = dict(case, failed_step=step)
    n0 = rep.nfail

    def fail(check, detail):
        rep.fail(check, wit, "step %s: %s" % (step, detail))

    Xw = spec.select(X, tmask, smask)
    times = [t for t, m in zip(case["times"], tmask) if m]
    lats = [v for v, m in zip(case["lats"], smask) if m]
    lons = [v for v, m in zip(case["lons"], smask) if m]
    Tw, Nw = Xw.shape

    # ---- window: exactly the requested samples
    obs = obj.observable()
    if obs.shape != Xw.shape:
        fail("set_window/observable-shape", "expected %s got %s" % (Xw.shape, obs.shape))
        return rep.nfail - n0
    if not np.array_equal(obs, Xw):
        fail("set_window/observable-values", "expected %s got %s" % (Xw.tolist(), obs.tolist()))
    g = obj.grid.grid()
    gs = obj.grid.grid_size()
    if (gs["time"], gs["space"]) != (Tw, Nw) or obj.grid.N != Nw:
        fail("set_window/grid-size", "grid_size %s N %s vs observable %s" % (gs, obj.grid.N, obs.shape))
    f32 = lambda v: np.array(v, dtype=float).astype(np.float32)
    for name, want in (("time", times), ("lat", lats), ("lon", lons)):
        got = np.asarray(g[name])
        if got.shape != (len(want),) or not np.array_equal(got.astype(np.float32), f32(want)):
            fail("set_window/grid-" + name, "expected %s got %s" % (want, got.tolist()))
    b = obj.window()
    wantb = W(min(times), max(times), min(lats), max(lats), min(lons), max(lons))
    for k in WKEYS:
        if np.float32(b[k]) != np.float32(wantb[k]):
            fail("window/boundaries", "%s expected %s got %s" % (k, wantb[k], b[k]))
            break
    if all(tmask) and all(smask):
        if obs.shape != X.shape or not np.array_equal(obs, X):
            fail("set_window/full-view", "all samples selected but observable differs from the original")

    if case["cls"] != "ClimateData":
        return rep.nfail - n0

    # ---- derived series
    c = int(case["cycle"])
    tol = tol_for(case["dtype"], X)
    pi = np.asarray(obj.phase_indices())
    want_pi = np.array(spec.phase_indices(Tw, c), dtype=int).reshape(c, Tw // c)
    if pi.shape != want_pi.shape or not np.array_equal(pi, want_pi):
        fail("phase_indices/spec", "expected %s got %s" % (want_pi.tolist(), pi.tolist()))
    pm = np.asarray(obj.phase_mean())
    want_pm = spec.phase_mean(Xw, c)
    if pm.shape != (c, Nw):
        fail("phase_mean/shape", "expected %s got %s" % ((c, Nw), pm.shape))
        pm = None
    elif not np.allclose(pm, want_pm, rtol=0, atol=tol, equal_nan=True):
        fail("phase_mean/spec", "max dev %s (tol %g)" % (np.nanmax(np.abs(pm - want_pm)), tol))
    an = np.asarray(obj.anomaly())
    if an.shape != obs.shape:
        fail("anomaly/shape", "anomaly %s vs observable %s" % (an.shape, obs.shape))
        an = None
    elif case["anomalies"]:
        if not np.array_equal(an, Xw):
            fail("anomaly/flag-set-returns-window", "data flagged as anomalies: anomaly() must be the windowed observable")
    else:
        want_an = spec.anomaly(Xw, c)
        if not np.allclose(an, want_an, rtol=0, atol=2 * tol):
            fail("anomaly/spec", "max dev %s (tol %g)" % (np.max(np.abs(an - want_an)), 2 * tol))
        if pm is not None:
            rec = np.array([[an[t, n] + pm[t % c, n] for n in range(Nw)] for t in range(Tw)]).reshape(Tw, Nw)
            if not np.allclose(rec, Xw.astype(float), rtol=0, atol=4 * tol):
                fail("anomaly/plus-phase-mean-is-observable", "max dev %s" % np.max(np.abs(rec - Xw)))
        for p in range(min(c, Tw)):
            ts = [t for t in range(Tw) if t % c == p]
            for n in range(Nw):
                m = math.fsum(an[t, n] for t in ts) / len(ts)
                if not abs(m) <= 2 * tol:
                    fail("anomaly/zero-mean-per-phase", "phase %d node %d mean %g (tol %g)" % (p, n, m, 2 * tol))
                    break
            else:
                continue
            break

    # ---- index helpers
    if an is not None:
        phases = case.get("phases")
        if phases:
            phases = [p for p in phases if p < c]
            got = np.asarray(obj.indices_selected_phases(phases))
            want = spec.indices_selected_phases(Tw, c, phases)
            if got.tolist() != want:
                fail("indices_selected_phases/spec", "phases %s expected %s got %s" % (phases, want, got.tolist()))
        months = case.get("months")
        if months is not None and c in (12, 360):
            want = spec.indices_selected_phases(Tw, c, spec.month_phases(c, months))
            got = np.asarray(obj.indices_selected_months(months))
            if got.tolist() != want:
                fail("indices_selected_months/spec", "months %s expected %s got %s" % (months, want, got.tolist()))
            with quiet():
                asm = np.asarray(obj.anomaly_selected_months(months))
            base = Xw.astype(float) if case["anomalies"] else spec.anomaly(Xw, c)
            want_asm = base[want, :] if want else np.empty((0, Nw))
            if asm.shape != want_asm.shape:
                fail("anomaly_selected_months/shape", "expected %s got %s" % (want_asm.shape, asm.shape))
            elif not np.allclose(asm, want_asm, rtol=0, atol=2 * tol):
                fail("anomaly_selected_months/spec", "max dev %s" % np.max(np.abs(asm - want_asm)))
    return rep.nfail - n0


def case_key(case):
    return repr((case["cls"], case["times"], case["lats"], case["lons"], case["dtype"], case.get("cycle"),
                 case.get("anomalies"), case.get("init_window"), case["ops"], case.get("months"),
                 hash(str(case["X"]))))


def run_case(rep, case, sample=False):
    """Returns False if the case was not evaluable (empty selection somewhere)."""
    times, lats, lons = case["times"], case["lats"], case["lons"]
    iw = case.get("init_window")
    wins = ([iw] if iw else []) + [op for op in case["ops"] if op != "global"]
    if not all(nonempty(case, w) for w in wins):
        # a window that contains no time sample or no node: refused (GeoGrid raises on an empty axis), or answered with an
        # empty view - never with samples / nodes outside the requested bounds
        bad = next(w for w in wins if not nonempty(case, w))
        if not iw or nonempty(case, iw):
            try:
                with quiet():
                    X, obj = build(dict(case, ops=[]))
                    try:
                        obj.set_window(dict(bad))
                        raised = False
                    except Exception:                               # noqa: BLE001
                        raised = True
                    if not raised:
                        tm, sm = spec.window_masks(times, lats, lons, bad)
                        shp = np.shape(obj.observable())
                        rep.case()
                        if tuple(shp) != (sum(tm), sum(sm)):
                            rep.fail("set_window/window-without-samples-refused-or-empty", dict(case, ops=[bad]),
                                     "observable of shape %r for a window that contains %d time samples and %d nodes"
                                     % (shp, sum(tm), sum(sm)))
            except Exception as e:                                  # noqa: BLE001
                rep.fail("exception/" + type(e).__name__, case, traceback.format_exc()[-500:])
        rep.skip("windows selecting no time sample or no node: only 'refused or empty' is asserted (GeoGrid raises "
                 "ValueError on an empty axis; the property does not speak about empty selections)")
        return False
    nontrivial = False
    try:
        with quiet():
            X, obj = build(case)
        full = ([True] * len(times), [True] * len(lats))
        tmask, smask = spec.window_masks(times, lats, lons, iw) if iw else full
        check_state(rep, case, X, obj, tmask, smask, 0)
        for k, op in enumerate(case["ops"], 1):
            with quiet():
                if op == "global":
                    obj.set_global_window()
                    tmask, smask = full
                else:
                    obj.set_window(dict(op))
                    tmask, smask = spec.window_masks(times, lats, lons, op)
            check_state(rep, case, X, obj, tmask, smask, k)
            if not (all(tmask) and all(smask)) or (op != "global" and (
                    op["time_min"] == op["time_max"] or op["lat_min"] == op["lat_max"]
                    or op["lon_min"] == op["lon_max"])):
                nontrivial = True
        if case["cls"] == "ClimateData":
            # anomalies are non-trivial when some phase holds >= 2 samples of the final view
            nontrivial = nontrivial or (sum(tmask) > int(case["cycle"]))
    except Exception as e:                                            # library raised
        rep.fail("exception/" + type(e).__name__, case, traceback.format_exc()[-500:])
    rep.case(case_key(case), nontrivial=nontrivial,
             sample=dict(case, X="<%s values>" % np.size(case["X"])) if sample else None)
    return True


# ------------------------------------------------------------------------------- generators

D0 = dict(times=[0., 1., 2., 4., 5., 7.], lats=[0., 10., 10., -20.], lons=[5., 5., 30., 170.])
T_CAND = [-1., 0., 0.5, 1., 2., 3., 4., 5., 6., 7., 8.]
LAT_CAND = [-25., -20., -10., 0., 5., 10., 15.]
LON_CAND = [0., 5., 20., 30., 100., 170., 175.]


def d0_values(rng, dtype="float64"):
    X = rng.randint(-40, 41, size=(6, 4)) / 4.0
    if dtype == "int64":
        X = (X * 4).astype(int)
    return X.tolist()


def pairs(c, equal=True):
    return [(a, b) for a in c for b in c if a < b or (equal and a == b)]


def gen_exhaustive_data(rng, tier):
    X = d0_values(rng)
    tp, lap, lop = pairs(T_CAND), pairs(LAT_CAND), pairs(LON_CAND)
    k = 0
    for (t0, t1) in tp:
        for (a0, a1) in lap:
            for (o0, o1) in lop:
                k += 1
                if tier == "quick" and k % 2 != 0:
                    continue
                yield dict(D0, cls="Data", X=X, dtype="float64", ops=[W(t0, t1, a0, a1, o0, o1)])


def gen_beyond(rng, tier):
    """non-degenerate windows that lie entirely beyond the data along one axis"""
    X = d0_values(rng)
    for w in (W(9., 12., 0., 0., 0., 0.), W(-5., -2., 0., 0., 0., 0.), W(0., 0., 20., 40., 0., 0.), W(0., 0., -60., -30., 0., 0.),
              W(0., 0., 0., 0., 171., 179.), W(0., 0., 0., 0., -10., 2.), W(2.5, 3.5, -20., 10., 5., 170.)):
        yield dict(D0, cls="Data", X=X, dtype="float64", ops=[w])
        yield dict(D0, cls="ClimateData", X=X, dtype="float64", ops=[w], cycle=2, anomalies=False)


SPATIAL_FEW = [(0., 0., 0., 0.), (0., 10., 5., 30.), (-20., 10., 5., 5.), (-25., 5., 0., 175.), (10., 10., 20., 100.),
               (5., 15., 0., 20.)]


def gen_exhaustive_climate(rng, tier):
    tp = pairs(T_CAND)
    for dtype in ("float64", "float32", "int64"):
        X = d0_values(rng, dtype)
        for c in (1, 2, 3, 4, 5, 6, 7, 9):
            for flag in (False, True):
                for (t0, t1) in tp:
                    for sp in (SPATIAL_FEW if tier == "thorough" else SPATIAL_FEW[:3]):
                        if dtype != "float64" and tier == "quick" and sp != SPATIAL_FEW[1]:
                            continue
                        yield dict(D0, cls="ClimateData", X=X, dtype=dtype, cycle=c, anomalies=flag,
                                   phases=[0, c - 1], ops=[W(t0, t1, *sp)])


SEQ_ALPHABET = ["global",
                W(1., 5., 0., 10., 5., 30.),        # bounds on samples, proper subset both axes
                W(0.5, 6., -25., 15., 0., 175.),    # bounds between samples, all nodes by range
                W(2., 2., 0., 10., 0., 20.),        # equal time bounds -> full time axis
                W(0., 4., 10., 10., 20., 100.),     # equal lat bounds -> all nodes
                W(4., 8., -20., 0., 5., 170.),      # late times, nodes 0 and 3
                W(0., 1., -20., 10., 5., 5.),       # equal lon bounds -> all nodes
                W(5., 7., 5., 15., 0., 20.)]        # single node, 2 samples


def gen_sequences(rng, tier):
    configs = [("Data", None, None, "float64"), ("ClimateData", 2, False, "float64"),
               ("ClimateData", 4, False, "float64"), ("ClimateData", 3, True, "float64")]
    if tier == "thorough":
        configs += [("ClimateData", 5, False, "float32"), ("ClimateData", 1, False, "int64"),
                    ("ClimateData", 7, True, "float32"), ("ClimateData", 3, False, "float64")]
    for cls, c, flag, dtype in configs:
        X = d0_values(rng, dtype)
        for L in (1, 2, 3):
            for ops in itertools.product(SEQ_ALPHABET, repeat=L):
                for iw in ((None, SEQ_ALPHABET[1]) if L <= 2 else (None,)):
                    case = dict(D0, cls=cls, X=X, dtype=dtype, ops=list(ops), init_window=iw)
                    if cls == "ClimateData":
                        case.update(cycle=c, anomalies=flag, phases=[0])
                    yield case


def random_case(rng, big):
    T = int(rng.randint(1, 41 if big else 13))
    N = int(rng.randint(1, 13 if big else 6))
    decimal = rng.rand() < 0.2
    step = 0.1 if decimal else 0.25
    times = np.cumsum(rng.randint(1, 6, size=T)) * step          # increasing, irregular
    lats = rng.randint(-360, 361, size=N) * step                 # unordered, duplicates possible
    lons = rng.randint(-720, 1441, size=N) * step
    if decimal:
        lats, lons = np.clip(lats, -90, 90) * 1.0, lons * 1.0
    if N > 2 and rng.rand() < 0.3:
        lats[1], lons[1] = lats[0], lons[0]                      # coincident nodes
    times, lats, lons = times.tolist(), lats.tolist(), lons.tolist()
    dtype = ["float64", "float64", "float32", "int64"][rng.randint(4)]
    if dtype == "int64":
        X = rng.randint(-50, 51, size=(T, N))
    else:
        X = rng.randn(T, N) * 10 ** rng.randint(-2, 4) + rng.randint(-3, 4)
        X = X.astype(dtype)
    case = dict(times=times, lats=lats, lons=lons, X=X.tolist(), dtype=dtype)

    def rnd_window():
        def bound(vals, pad):
            vals = sorted(set(vals))
            cand = [vals[0] - pad]                                 # outside, samples, mid-points, outside
            for i, v in enumerate(vals):
                cand.append(v)
                cand.append((v + vals[i + 1]) / 2 if i + 1 < len(vals) else v + pad)
            pool = vals if rng.rand() < 0.4 else cand              # 40 %: both bounds on samples
            a, b = sorted(rng.randint(len(pool), size=2))          # a == b: equal-bounds convention
            return pool[a], pool[b]
        t = bound(times, 1.0)
        la = bound(lats, 2.0)
        lo = bound(lons, 2.0)
        return W(t[0], t[1], la[0], la[1], lo[0], lo[1])

    ops = []
    for _ in range(rng.randint(1, 4)):
        if rng.rand() < 0.2:
            ops.append("global")
            continue
        for _try in range(20):
            w = rnd_window()
            if nonempty(case, w):
                ops.append(w)
                break
    if rng.rand() < 0.5:
        case.update(cls="Data")
    else:
        c = int(rng.randint(1, T + 3))
        case.update(cls="ClimateData", cycle=c, anomalies=bool(rng.rand() < 0.35),
                    phases=sorted(set(int(p) for p in rng.randint(0, c, size=2))))
    iw = None
    if rng.rand() < 0.25:
        w = rnd_window()
        iw = w if nonempty(case, w) else None
    case.update(ops=ops, init_window=iw)
    return case


def gen_months(rng, tier):
    month_sets = [[0, 1, 11], [5], [3, 4, 5, 6, 7, 8], list(range(12)), []]
    for T in ((12, 25, 30, 47) if tier == "quick" else (11, 12, 13, 24, 25, 30, 36, 47, 61)):
        times = list(map(float, range(T)))
        lats, lons = [0., 2.5, -40.], [10., 12.5, 300.]
        X = (rng.randn(T, 3) * 5).tolist()
        for months in month_sets:
            for flag in (False, True):
                for ops in ([], [W(2., float(T - 3), 0., 0., 0., 0.)] if T > 14 else [W(0., float(T), -1., 5., 0., 50.)],
                            [W(1., float(T - 1), -50., 1., 0., 400.), "global"]):
                    yield dict(cls="ClimateData", times=times, lats=lats, lons=lons, X=X, dtype="float64",
                               cycle=12, anomalies=flag, months=months, phases=[0, 11], ops=ops, init_window=None)
    for T in ((725,) if tier == "quick" else (360, 725, 800, 1081)):
        times = list(map(float, range(T)))
        X = (rng.randn(T, 2)).tolist()
        for months in ([0, 1, 11], [6]):
            for flag in (False, True):
                yield dict(cls="ClimateData", times=times, lats=[0., 30.], lons=[0., 60.], X=X, dtype="float64",
                           cycle=360, anomalies=flag, months=months, ops=[W(3., float(T - 2), 0., 0., 0., 0.)],
                           init_window=None)


def main():
    args = parse_args()
    scope = ("Data and ClimateData on (a) a fixed irregular 6-sample x 4-node set: every window whose bounds are "
             "drawn from sample coordinates, mid-points and outside values (time 11, lat 7, lon 7 candidates; all "
             "ordered pairs incl. equal bounds; quick tier every 2nd), (b) ClimateData with cycle lengths "
             "1..7,9 (most do not divide the record), both 'anomalies' flags, float64/float32/int64 observables, all "
             "66 time windows x 3-6 spatial windows, (c) every sequence of <=3 operations over 7 windows + "
             "set_global_window, with and without a constructor window, (d) seeded random irregular sets (T<=40, "
             "N<=12, unordered/duplicate coordinates, dyadic or decimal coordinates with bounds on samples as "
             "Python floats, cycle 1..T+2), (e) time_cycle 12 and 360 for the month selectors.  Windows selecting "
             "nothing are excluded.  Selection, grid and window() are compared exactly; float64/int observables at "
             "1e-12 x max(1,|data|), float32 observables at 1e-5 x max(1,|data|) (float32 reductions).")
    rule = ("One evaluation = one case (object + operation list) with all clauses checked after construction and "
            "after every operation.  A case is distinct by (class, grid, data, cycle, flag, windows) and counts as "
            "non-trivial if some step selects a proper subset or uses an equal-bounds convention, or (ClimateData) "
            "the final view has more samples than the cycle length so that a phase mean averages >= 2 samples.")
    rep = Report("C13", args, scope, rule)
    rng = np.random.RandomState(args.seed)
    if args.replay:
        import json
        with open(args.replay) as f:
            wit = json.load(f)["witness"]
        wit.pop("failed_step", None)
        run_case(rep, wit, sample=True)
        rep.finish()
        return
    budget = 50 if args.tier == "quick" else 520
    gens = [gen_beyond(np.random.RandomState(args.seed + 5), args.tier),
            gen_months(rng, args.tier), gen_sequences(rng, args.tier), gen_exhaustive_climate(rng, args.tier),
            gen_exhaustive_data(rng, args.tier)]
    nrand = 3000 if args.tier == "quick" else 80000
    for i in range(nrand):
        run_case(rep, random_case(rng, big=(i % 3 == 0)), sample=(i < 2))
    for gi, g in enumerate(gens):
        first = True
        for case in g:
            run_case(rep, case, sample=first)
            first = False
            if rep.elapsed() > budget:
                rep.skip("time budget reached in generator %d; remaining cases of it not evaluated" % gi)
                break
    rep.finish()


if __name__ == "__main__":
    main()
