"""C06 - queries are pure: no interference, inputs are never modified.

Bounded stand-in.  For every class of specs/stateful_registry.py (all `Cached` subclasses plus
`Data`) and every public query q (discovered by introspection, argument patterns by parameter
name, RNG re-seeded before every call so that surrogate / shuffling methods are deterministic):

  alone      q on a fresh object gives the reference value ref[q]; repeated it gives an equal
             value; it leaves its argument arrays, the caller-owned constructor inputs (arrays,
             shared ClimateData / Grid objects incl. their memoised values) and all arrays
             reachable from the object untouched (lazy initialisation None -> value is allowed).
  pairs      fresh object; q1; snapshot (fields, inputs, the very object q1 returned); q2;
             q2's value must equal ref[q2]; nothing in the snapshot changed; q1 again equals
             ref[q1].   quick: seeded sample of ordered pairs; thorough: larger sample of cold
             pairs + for every q1 a chain "q1, then every other query" (all ordered pairs in
             context, every value compared with its reference).
  sequences  seeded random query sequences of length 3..6, every value compared with ref.
  ctor       constructors of all classes leave caller arrays / shared data objects untouched;
             building network B from a ClimateData object after network A was built from it
             gives the same B as from pristine data.
  statics    static / helper functions leave their array arguments untouched.

Variants built for this harness only (registry attribute harness="C06"): networks whose link
attribute 'w' is 0 on existing links and full of ties (Network un/directed, InteractingNetworks;
GeoNetwork on a grid with two polar and two coinciding points, where 'w' = the angular distance
and the lazily installed 'distance' attribute are 0 on links) - all ordered pairs among the
weighted queries (path_lengths, average_path_length, closeness, global_efficiency,
local_vulnerability, betweenness / link_betweenness / interregional / cross measures with 'w',
distance-weighted measures) are run as cold pairs on top of the sample; series with NaN samples
and missing_values=True: VisibilityGraph (natural and horizontal; all ordered pairs among the
visibility queries), RecurrencePlot (plain and delay-embedded), RecurrenceNetwork.  Snapshots of
all object fields (time_series, missing_value_indices, timings, embedding, R, adjacency, ...) are
compared bit for bit with NaN == NaN.

Oracle: the property itself (value of a query on an object without history; bit-identical
snapshots) - no measure is re-implemented.  Comparison of values: exact for integers, rtol 1e-9
(float64) / 1e-5 (float32); snapshots are compared bit for bit.

check names: "<Class>.<method>/repeat-equal", "/no-interference", "/argument-unchanged",
"/inputs-unchanged", "/object-arrays-unchanged", "/returned-value-unchanged",
"<Class>.__init__/inputs-unchanged", "<Class>.__init__/shared-data-no-interference",
"<Class>.<static>/argument-unchanged".
"""
import os

for _v in ("OMP_NUM_THREADS", "OPENBLAS_NUM_THREADS", "MKL_NUM_THREADS"):
    os.environ.setdefault(_v, "1")

import copy                    # noqa: E402
import json                    # noqa: E402
import multiprocessing as mp   # noqa: E402
import shutil                  # noqa: E402
import sys                     # noqa: E402
import tempfile                # noqa: E402
import time                    # noqa: E402
import traceback               # noqa: E402

import numpy as np             # noqa: E402

sys.path.insert(0, os.path.dirname(os.path.dirname(os.path.abspath(__file__))))
from bounded.common import parse_args, Report, jsonable           # noqa: E402
from specs import stateful as S                                      # noqa: E402
from specs import stateful_registry as REG                           # noqa: E402

WORKERS = 8

#: fields that hold bookkeeping, not data (compared nowhere)
IGNORE_FIELDS = ("silence_level",)


# --------------------------------------------------------------------------- watching inputs

def is_lib(x):
    return hasattr(x, "__dict__") and type(x).__module__.startswith("pyunicorn")


def probe_queries(obj):
    """no-argument public queries of a shared library object (memoised values included)"""
    qs, _ = S.discover(obj, {"N": getattr(obj, "N", 6)}, exclude=("shuffled_anomaly",))
    return [q for q in qs if not q.args and not q.kwargs]


class Watch:
    """Caller-owned inputs: bit-exact copies of arrays; for library objects a frozen view of
    all fields plus a pristine deep copy whose query values serve as reference."""

    def __init__(self, inputs, probes=True, live=False):
        """live=False: the reference values of a shared object's queries come from a pristine
        deep copy taken now (used around constructors: the shared object may be cold);
        live=True: they are the values the shared object itself reports now (used around
        queries: a query is blamed only for what changes while it runs)."""
        self.items = {}
        for k, v in inputs.items():
            if is_lib(v):
                ref = None
                if probes and live:
                    ref = {q.label: S.freeze(S.call(v, q)) for q in probe_queries(v)}
                elif probes:
                    ref = copy.deepcopy(v)
                self.items[k] = (v, S.freeze(v), ref)
            else:
                self.items[k] = (v, copy.deepcopy(v), None)

    def diff(self, probes=False):
        out = []
        for k, (v, frozen, pristine) in self.items.items():
            if is_lib(v):
                for path, msg in S.changed_paths(frozen, S.view(v), ignore=IGNORE_FIELDS):
                    out.append((f"{k}{path}", msg))
                if probes and pristine is not None:
                    clean = None if isinstance(pristine, dict) else copy.deepcopy(pristine)
                    for q in probe_queries(v):
                        a = S.call(v, q)
                        b = pristine[q.label] if clean is None else S.call(clean, q)
                        m = S.deep_diff(a, b)
                        if m:
                            out.append((f"{k}.{q.label}", f"shared object now reports {a.brief()}, "
                                                          f"reference {b.brief()}: {m}"))
            else:
                m = S.deep_diff(frozen, v, exact=True)
                if m:
                    out.append((k, m))
        return out


# --------------------------------------------------------------------------- engine

class Engine:
    def __init__(self, spec, out, light=False):
        self.spec, self.out = spec, out
        self.cls = spec.clsname
        if light:
            self.prepare_light()
        else:
            self.prepare()

    def prepare_light(self):
        """reference values only (the single-query checks are done by the task with part 0)"""
        spec = self.spec
        run = spec.start()
        qs, self.skipped_methods = S.discover(run.obj, spec.ctx(run), exclude=spec.exclude)
        qs += list(spec.extra_queries)
        self.qs, self.ref, self.dropped, self.unstable = [], {}, [], set()
        for q in qs:
            a = S.call(self.start().obj, q)
            b = S.call(self.start().obj, q)
            if S.deep_diff(a, b):
                self.dropped.append(q.label)
                continue
            self.qs.append(q)
            self.ref[q.label] = S.freeze(a)
            run = self.start()
            S.call(run.obj, q)
            if S.deep_diff(S.call(run.obj, q), self.ref[q.label]):
                self.unstable.add(q.label)

    # ---- helpers
    def fail(self, check, witness, detail):
        self.out["fail"].append((check, witness, detail))

    def wit(self, **kw):
        d = {"spec": self.spec.name, "seed": self.spec.seed}
        d.update(kw)
        return d

    def fresh(self, watch=False, probes=False):
        """fresh object (+ watch of the caller-owned inputs).  watch='ctor': the watch is taken
        right before the constructor runs (constructor purity); watch=True: right after
        construction, so that a query is only blamed for what it changes itself"""
        holder = {}
        if watch == "ctor":
            self.spec.on_inputs = lambda inp: holder.setdefault("w", Watch(inp, probes))
        try:
            run = self.spec.start()
        finally:
            self.spec.on_inputs = None
        self.dress(run)
        if watch is True:
            holder["w"] = Watch(run.inputs, probes, live=True)
        return run, holder.get("w")

    def dress(self, run):
        """network objects get a link attribute 'w' so that the weighted variants of the
        measures (key='w' / link_attribute='w') return values instead of raising"""
        for m in self.spec.mutators:
            if m.name == "set_la":
                m.fn(run, 0)
        return run

    def start(self):
        return self.dress(self.spec.start())

    def method_of(self, q):
        return q.name.split(".")[-1] if q.kind != "attr" else q.name

    # ---- alone values + single-query purity
    def prepare(self):
        spec = self.spec
        #  constructor purity
        run, w = self.fresh(watch="ctor", probes=True)
        self.out["eval"] += 1
        for path, msg in w.diff(probes=True):
            self.fail(f"{self.cls}.__init__/inputs-unchanged", self.wit(input=path), f"{path}: {msg}")
        qs, skipped = S.discover(run.obj, spec.ctx(run), exclude=spec.exclude)
        qs += list(spec.extra_queries)
        self.skipped_methods = skipped
        self.qs, self.ref, self.dropped, self.unstable = [], {}, [], set()
        for q in qs:
            run, w = self.fresh(watch=True, probes=True)
            before = S.freeze(run.obj)
            argdiff = []
            a = S.call(run.obj, q, check_args=argdiff)
            self.out["eval"] += 1
            run2, _ = self.fresh()
            b = S.call(run2.obj, q)
            if S.deep_diff(a, b):
                #  not a deterministic function of (state, arguments, RNG seed): not a subject
                #  of "repeating a deterministic query"
                self.dropped.append(q.label)
                continue
            frozen = S.freeze(a)
            name = self.method_of(q)
            for k, m in argdiff:
                self.fail(f"{self.cls}.{name}/argument-unchanged", self.wit(query=q.label, argument=k),
                          f"{q.label}: argument {k} modified: {m}")
            for path, msg in S.changed_paths(before, S.view(run.obj), ignore=IGNORE_FIELDS):
                self.fail(f"{self.cls}.{name}/object-arrays-unchanged", self.wit(query=q.label, field=path),
                          f"{q.label} changed field {path}: {msg}")
            for path, msg in w.diff(probes=True):
                self.fail(f"{self.cls}.{name}/inputs-unchanged", self.wit(query=q.label, input=path),
                          f"{q.label} changed caller-owned {path}: {msg}")
            a2 = S.call(run.obj, q)
            m = S.deep_diff(frozen, a2)
            if m:
                self.unstable.add(q.label)
                self.fail(f"{self.cls}.{name}/repeat-equal", self.wit(query=q.label),
                          f"{q.label}: first {S.Outcome(frozen.kind, frozen.value).brief()} | "
                          f"repeated {a2.brief()} | {m}")
            self.qs.append(q)
            self.ref[q.label] = frozen
            self.out["cases"].append((f"{spec.name}:alone:{q.label}", a.kind == "ok"))

    # ---- one cold ordered pair
    def pair(self, q1, q2):
        run, w = self.fresh(watch=True)
        r1 = S.call(run.obj, q1)
        m = S.deep_diff(r1, self.ref[q1.label])
        if m:      # cannot happen for deterministic queries; keep the evidence
            self.fail(f"{self.cls}.{self.method_of(q1)}/repeat-equal", self.wit(query=q1.label),
                      f"{q1.label} on a fresh object differs from its reference: {m}")
            return
        r1_frozen = S.freeze(r1)
        before = S.freeze(run.obj)
        r2 = S.call(run.obj, q2)
        self.out["eval"] += 1
        n1, n2 = self.method_of(q1), self.method_of(q2)
        wit = self.wit(pair=[q1.label, q2.label])
        m = S.deep_diff(r2, self.ref[q2.label])
        if m:
            self.fail(f"{self.cls}.{n1}/no-interference", wit,
                      f"{q2.label} after {q1.label}: {r2.brief()} | alone: {self.ref[q2.label].brief()} | {m}")
        for path, msg in S.changed_paths(before, S.view(run.obj), ignore=IGNORE_FIELDS):
            self.fail(f"{self.cls}.{n2}/object-arrays-unchanged", dict(wit, field=path),
                      f"{q2.label} (after {q1.label}) changed field {path}: {msg}")
        m = S.deep_diff(r1_frozen, S.view(r1), exact=True) if not isinstance(S.view(r1), S.Opaque) else None
        if m:
            self.fail(f"{self.cls}.{n2}/returned-value-unchanged", wit,
                      f"the value returned by {q1.label} was modified by {q2.label}: {m}")
        for path, msg in w.diff():
            self.fail(f"{self.cls}.{n2}/inputs-unchanged", dict(wit, input=path),
                      f"{q2.label} (after {q1.label}) changed caller-owned {path}: {msg}")
        r1b = S.call(run.obj, q1)
        m = S.deep_diff(r1b, self.ref[q1.label])
        if m and q1.label not in self.unstable:     # (self-instability is reported as repeat-equal)
            self.fail(f"{self.cls}.{n2}/no-interference", wit,
                      f"{q1.label} after {q2.label}: {r1b.brief()} | before: {self.ref[q1.label].brief()} | {m}")
        self.out["cases"].append((f"{self.spec.name}:pair:{q1.label}>{q2.label}",
                                  r1.kind == "ok" and r2.kind == "ok" and q1.label != q2.label))

    def culprit(self, earlier, victim):
        """name the earlier query that alone (cold pair) already changes the victim's value;
        if no single one does, the name says that only the sequence does"""
        seen = set()
        if victim.label in self.unstable and any(p.label == victim.label for p in earlier):
            return self.method_of(victim)
        for p in earlier:
            if p.label in seen:
                continue
            seen.add(p.label)
            run = self.start()
            S.call(run.obj, p)
            if S.deep_diff(S.call(run.obj, victim), self.ref[victim.label]):
                return self.method_of(p)
        return self.method_of(victim) + "-in-sequence"

    # ---- a sequence on one object, every value compared with its reference
    def chain(self, seq, tag):
        run, w0 = self.fresh(watch=True, probes=True)
        w = Watch(run.inputs, probes=False)
        held = []
        for i, q in enumerate(seq):
            r = S.call(run.obj, q)
            self.out["eval"] += 1
            m = S.deep_diff(r, self.ref[q.label])
            if m:
                prev = [p.label for p in seq[max(0, i - 4):i]]
                culprit = self.culprit(seq[:i], q)
                self.fail(f"{self.cls}.{culprit}/no-interference",
                          self.wit(sequence=[p.label for p in seq[:i + 1]]),
                          f"{q.label} after ...{prev}: {r.brief()} | alone: {self.ref[q.label].brief()} | {m}")
                break
            held.append((q, r, S.freeze(r)))
            for path, msg in w.diff():          # arrays / fields of the caller's inputs, cheap
                self.fail(f"{self.cls}.{self.method_of(q)}/inputs-unchanged",
                          self.wit(sequence=[p.label for p in seq[:i + 1]], input=path),
                          f"{q.label} changed caller-owned {path}: {msg}")
                w = Watch(run.inputs, probes=False)
                break
        for q, r, fr in held:
            v = S.view(r)
            if isinstance(v, S.Opaque):
                continue
            m = S.deep_diff(fr, v, exact=True)
            if m:
                self.fail(f"{self.cls}.{self.method_of(q)}/returned-value-unchanged",
                          self.wit(sequence=[p.label for p in seq]),
                          f"the value returned by {q.label} was modified later in the sequence: {m}")
        for path, msg in w0.diff(probes=True):
            if "(" not in path:
                continue                        # plain arrays / fields were attributed above
            self.fail(f"{self.cls}.{self.method_of(seq[-1])}-in-sequence/inputs-unchanged",
                      self.wit(sequence=[p.label for p in seq], input=path),
                      f"sequence changed caller-owned {path}: {msg}")
        self.out["cases"].append((f"{self.spec.name}:{tag}:{'>'.join(p.label for p in seq[:6])}:{len(seq)}", True))


# --------------------------------------------------------------------------- extra checks

def shared_data_chains(out, seed):
    """network B built from a ClimateData object that network A was built from before must
    equal B built from pristine data (similarity, adjacency, anomaly of the data)."""
    names = ["TsonisClimateNetwork", "SpearmanClimateNetwork", "PartialCorrelationClimateNetwork",
             "MutualInfoClimateNetwork", "HavlinClimateNetwork", "HilbertClimateNetwork",
             "RainfallClimateNetwork"]
    specs = {n: REG.spec_by_name(n, seed) for n in names}

    def build(spec, data):
        m = spec.base_model(extra=dict(spec.ctor_extra))
        return spec.construct(data, m)

    def facts(net, data):
        return {"similarity": np.asarray(net.similarity_measure()).copy(),
                "adjacency": np.asarray(net.adjacency).copy(),
                "anomaly": np.asarray(data.anomaly()).copy(),
                "observable": np.asarray(data.observable()).copy()}
    refs = {}
    for n, sp in specs.items():
        d = REG._long_data()
        refs[n] = facts(build(sp, d), d)
    for a in names:
        for b in names:
            d = REG._long_data()
            net_a = build(specs[a], d)
            for meth in ("similarity_measure", "correlation_distance"):
                getattr(net_a, meth)()
            got = facts(build(specs[b], d), d)
            out["eval"] += 1
            out["cases"].append((f"shared:{a}>{b}", True))
            m = S.deep_diff(got, refs[b])
            if m:
                out["fail"].append((f"{a}.__init__/shared-data-no-interference",
                                    {"first": a, "then": b, "data": "registry._long_data()"},
                                    f"{b} built from data already used by {a} differs from {b} on pristine data: {m}"))


def statics(out, seed):
    """static / helper functions: array arguments unchanged (bit for bit)."""
    from pyunicorn.core import Data, GeoNetwork, GeoGrid, Grid, Network
    from pyunicorn.timeseries import RecurrencePlot, Surrogates
    from pyunicorn.eventseries import EventSeries
    from pyunicorn.climate import RainfallClimateNetwork, SpearmanClimateNetwork
    rng = np.random.RandomState(300 + seed)
    x = rng.randn(12, 3)
    D = np.abs(rng.randn(9, 9))
    D = D + D.T
    ts = rng.randn(3, 30)
    ev = (rng.random_sample((30, 2)) < 0.3).astype(float)
    lat, lon = np.array([10.0, -20.0, 45.0]), np.array([5.0, 100.0, -60.0])
    table = [
        ("Data", "rescale", Data.rescale, (rng.randn(5, 4) * 3 + 1, "int16")),
        ("Data", "rescale", Data.rescale, (rng.randn(5, 4) * 3 + 1, "uint8")),
        ("Data", "rescale", Data.rescale, (rng.randn(5, 4) * 3 + 1, "int32")),
        ("Data", "rescale", Data.rescale, (rng.randn(5, 4) * 3 + 1, "float32")),
        ("Data", "zero_pad_data", Data.zero_pad_data, (rng.randn(10, 3),)),
        ("Data", "cos_window", Data.cos_window, (rng.randn(10, 3), 0.2)),
        ("GeoNetwork", "latlon2cartesian", GeoNetwork.latlon2cartesian, (lat, lon)),
        ("GeoNetwork", "cartesian2latlon", GeoNetwork.cartesian2latlon, (np.array([0.3, 0.4, 0.5]),)),
        ("GeoGrid", "coord_sequence_from_rect_grid", GeoGrid.coord_sequence_from_rect_grid,
         (np.array([0., 5., 10.]), np.array([1., 2.]))),
        ("Grid", "coord_sequence_from_rect_grid", Grid.coord_sequence_from_rect_grid,
         ([np.array([0., 5.]), np.array([1., 2.])],)),
        ("Network", "weighted_local_clustering", Network.weighted_local_clustering, (D[:6, :6] / D.max(),)),
        ("RecurrencePlot", "threshold_from_recurrence_rate", RecurrencePlot.threshold_from_recurrence_rate, (D, 0.3)),
        ("RecurrencePlot", "threshold_from_recurrence_rate_fast",
         RecurrencePlot.threshold_from_recurrence_rate_fast, (D, 0.3, 0.5)),
        ("RecurrencePlot", "embed_time_series", RecurrencePlot.embed_time_series, (x[:, :1].copy(), 2, 1)),
        ("RecurrencePlot", "bootstrap_distance_matrix", RecurrencePlot.bootstrap_distance_matrix,
         (x.copy(), "supremum", 5)),
        ("RecurrencePlot", "rejection_sampling", RecurrencePlot.rejection_sampling,
         (np.array([3., 2., 1., 0., 1.]), 6)),
        ("Surrogates", "embed_time_series_array", Surrogates.embed_time_series_array, (ts, 2, 1)),
        ("Surrogates", "test_pearson_correlation", Surrogates.test_pearson_correlation, (ts, ts[:, ::-1].copy())),
        ("Surrogates", "test_mutual_information", Surrogates.test_mutual_information, (ts, ts[:, ::-1].copy(), 4)),
        ("EventSeries", "event_synchronization", EventSeries.event_synchronization, (ev[:, 0], ev[:, 1])),
        ("EventSeries", "event_coincidence_analysis", EventSeries.event_coincidence_analysis,
         (ev[:, 0], ev[:, 1], 3.0)),
        ("EventSeries", "make_event_matrix", EventSeries.make_event_matrix, (rng.randn(30, 2), "quantile", 0.8, "above")),
        ("RainfallClimateNetwork", "calculate_rainfall", RainfallClimateNetwork.calculate_rainfall,
         (np.abs(rng.randn(10, 4)), 2.0, 0.1)),
        ("RainfallClimateNetwork", "rank_time_series", RainfallClimateNetwork.rank_time_series, (rng.randn(10, 4),)),
        ("SpearmanClimateNetwork", "rank_time_series", SpearmanClimateNetwork.rank_time_series, (rng.randn(10, 4),)),
    ]
    for cls, name, fn, args in table:
        mine = [copy.deepcopy(a) for a in args]
        np.random.seed(S.QSEED)
        try:
            fn(*mine)
        except Exception as e:                                      # noqa
            out["skip"].append(f"static {cls}.{name}{tuple(type(a).__name__ for a in args)} raised "
                               f"{type(e).__name__}: {e}")
            continue
        out["eval"] += 1
        out["cases"].append((f"static:{cls}.{name}:{args[-1] if isinstance(args[-1], str) else ''}", True))
        for i, (a0, a1) in enumerate(zip(args, mine)):
            m = S.deep_diff(a0, a1, exact=True)
            if m:
                out["fail"].append((f"{cls}.{name}/argument-unchanged",
                                    {"static": f"{cls}.{name}", "args": jsonable(args), "argument": i},
                                    f"argument {i} modified: {m}"))


def surrogates_retention(out, seed):
    """#11: Surrogates keeps the caller's array and the significance test normalises it."""
    from pyunicorn.timeseries import Surrogates
    rng = np.random.RandomState(400 + seed)
    for meth in ("test_threshold_significance", "original_distribution"):
        data = rng.randn(3, 40) * 2.0 + 1.5
        keep = data.copy()
        s = Surrogates(data, silence_level=3)
        np.random.seed(S.QSEED)
        if meth == "test_threshold_significance":
            s.test_threshold_significance(Surrogates.white_noise_surrogates, Surrogates.test_pearson_correlation,
                                          realizations=2, n_bins=5)
        else:
            s.original_distribution(Surrogates.test_pearson_correlation, n_bins=5)
        out["eval"] += 1
        out["cases"].append((f"surrogates:{meth}", True))
        m = S.deep_diff(keep, data, exact=True)
        if m:
            out["fail"].append(("Surrogates.test_threshold_significance/caller-array-unchanged",
                                {"method": meth, "data": "RandomState(400+seed).randn(3,40)*2+1.5", "seed": seed},
                                f"{meth} normalised the array passed to Surrogates(...): {m}"))


def twin_lists_untouched(out, seed):
    """A surrogate request does not edit the twin lists the object reports (Surrogates.twins() is memoised and hands out
    the stored nested list; the compiled walk receives that very list)."""
    import random as _random
    from pyunicorn.timeseries import Surrogates, RecurrencePlot
    rng = np.random.RandomState(900 + seed)
    for case in range(4):
        n = 60 + 20 * case
        t = np.arange(n)
        x = np.round(np.sin(2 * np.pi * t / (8.0 + case)) * 2) / 2 + (0.01 * rng.randn(n) if case % 2 else 0.0)
        dim, delay, thr, md = 2, 1, 0.3, (0, 3, 7, 1)[case]
        wit = {"n": n, "case": case, "dimension": dim, "delay": delay, "threshold": thr, "min_dist": md, "seed": seed}
        try:
            s = Surrogates(np.array([x, x[::-1].copy()]), silence_level=3)
            s.embedding = s.embed_time_series_array(s.original_data, dim, delay)
            ref = copy.deepcopy(s.twins(thr, md))
            for rep in range(2):
                np.random.seed(S.QSEED); _random.seed(S.QSEED)                       # noqa: E702
                s.twin_surrogates(dim, delay, thr, md)
                now = s.twins(thr, md)
                out["eval"] += 1
                if [[list(map(int, b)) for b in a] for a in now] != [[list(map(int, b)) for b in a] for a in ref]:
                    nd = sum(1 for a, b in zip(now, ref) for u, v in zip(a, b) if list(u) != list(v))
                    out["fail"].append(("Surrogates.twin_surrogates/twins-unchanged", wit,
                                        f"twins() differs at {nd} states after {rep + 1} surrogate request(s)"))
                    break
            out["cases"].append((f"twins-untouched:{case}", any(len(b) for a in ref for b in a)))
        except Exception as e:                                      # noqa
            out["fail"].append(("Surrogates.twin_surrogates/twins-unchanged", wit, f"raised {type(e).__name__}: {e}"))
        # a surrogate request, the (public, lazily called) normalisation, the same request again: the second answer is the
        # one a new object gives for "normalise, then request" - the first request leaves nothing behind that changes it
        try:
            data = np.array([3.0 * x + 1.0, 0.5 * x[::-1] - 2.0])
            s1, s2 = Surrogates(data.copy(), silence_level=3), Surrogates(data.copy(), silence_level=3)
            np.random.seed(S.QSEED); _random.seed(S.QSEED)                           # noqa: E702
            s1.twin_surrogates(dim, delay, thr, md)
            s1.normalize_original_data()
            np.random.seed(S.QSEED); _random.seed(S.QSEED)                           # noqa: E702
            a1 = np.asarray(s1.twin_surrogates(dim, delay, thr, md))
            s2.normalize_original_data()
            np.random.seed(S.QSEED); _random.seed(S.QSEED)                           # noqa: E702
            a2 = np.asarray(s2.twin_surrogates(dim, delay, thr, md))
            out["eval"] += 1
            t1, t2 = s1.twins(thr, md), s2.twins(thr, md)
            same_tw = [[list(map(int, b)) for b in a] for a in t1] == [[list(map(int, b)) for b in a] for a in t2]
            if a1.shape != a2.shape or not np.array_equal(a1, a2) or not same_tw or \
                    not np.array_equal(np.asarray(s1.embedding), np.asarray(s2.embedding)):
                out["fail"].append(("Surrogates.twin_surrogates/after-earlier-request-and-normalisation", wit,
                                    "embedding / twins / seeded surrogates differ from a new object's 'normalise, then request'"))
        except Exception as e:                                      # noqa
            out["fail"].append(("Surrogates.twin_surrogates/after-earlier-request-and-normalisation", wit,
                                f"raised {type(e).__name__}: {e}"))
        try:
            rp = RecurrencePlot(x, threshold=thr, dim=dim, tau=delay, silence_level=3)
            before = S.freeze(rp)
            np.random.seed(S.QSEED); _random.seed(S.QSEED)                           # noqa: E702
            rp.twin_surrogates(n_surrogates=1, min_dist=md)
            out["eval"] += 1
            for path, msg in S.changed_paths(before, S.view(rp), ignore=IGNORE_FIELDS):
                out["fail"].append(("RecurrencePlot.twin_surrogates/object-unchanged", wit, f"{path}: {msg}"))
        except Exception as e:                                      # noqa
            out["fail"].append(("RecurrencePlot.twin_surrogates/object-unchanged", wit, f"raised {type(e).__name__}: {e}"))


def caller_dicts_and_sources_untouched(out, seed):
    """(a) The window dictionary a caller hands to Data / ClimateData (constructor and set_window) is the caller's: it has the
    same keys and values afterwards (the equal-bounds shorthand stays the shorthand).  (b) Building a derived object - a
    coupled climate network - from two ClimateData objects does not re-window or otherwise change those objects."""
    from pyunicorn.core import Data, GeoGrid
    from pyunicorn.climate import ClimateData
    rng = np.random.RandomState(77 + seed)
    T, N = 12, 5
    grid = GeoGrid(time_seq=np.arange(T, dtype=float), lat_seq=np.linspace(-20., 20., N), lon_seq=np.linspace(10., 90., N), silence_level=3)
    obs = rng.randn(T, N)
    for label, win in (("all-degenerate", {"time_min": 0., "time_max": 0., "lat_min": 0., "lon_min": 0., "lat_max": 0., "lon_max": 0.}),
                       ("time-degenerate", {"time_min": 3., "time_max": 3., "lat_min": -15., "lon_min": 0., "lat_max": 15., "lon_max": 100.}),
                       ("space-degenerate", {"time_min": 2., "time_max": 8., "lat_min": 5., "lon_min": 7., "lat_max": 5., "lon_max": 7.})):
        for cls_name, make in (("Data", lambda w: Data(obs.copy(), grid, window=w, silence_level=3)),
                               ("ClimateData", lambda w: ClimateData(obs.copy(), grid, time_cycle=3, window=w, silence_level=3))):
            w = dict(win)
            keep = dict(win)
            wit = {"class": cls_name, "window": label, "seed": seed}
            try:
                obj = make(w)
                out["eval"] += 1
                if w != keep or any(type(w[k]) is not type(keep[k]) for k in keep):
                    out["fail"].append((cls_name + ".__init__/caller-window-dict-unchanged", wit, f"{keep} -> {w}"))
                w2 = dict(win)
                obj.set_window(w2)
                out["eval"] += 1
                if w2 != keep or any(type(w2[k]) is not type(keep[k]) for k in keep):
                    out["fail"].append((cls_name + ".set_window/caller-window-dict-unchanged", wit, f"{keep} -> {w2}"))
            except Exception as e:                                  # noqa
                out["fail"].append((cls_name + "/caller-window-dict-unchanged", wit, f"raised {type(e).__name__}: {e}"))
    out["cases"].append(("caller-window-dicts", True))
    # (b) source objects of a coupled network, equal and unequal record lengths
    try:
        from pyunicorn.climate import CoupledTsonisClimateNetwork
        for T2 in (T, T - 4):
            g2 = GeoGrid(time_seq=np.arange(T2, dtype=float), lat_seq=np.linspace(-20., 20., N), lon_seq=np.linspace(10., 90., N), silence_level=3)
            d1 = ClimateData(rng.randn(T, N), grid, time_cycle=1, silence_level=3)
            d2 = ClimateData(rng.randn(T2, N), g2, time_cycle=1, silence_level=3)
            before = [S.freeze(d1), S.freeze(d2), dict(d1.window()), dict(d2.window()), np.array(d1.observable()), np.array(d2.observable())]
            try:
                CoupledTsonisClimateNetwork(d1, d2, threshold=0.5, silence_level=3)
            except Exception:                                       # noqa  (unequal lengths may be refused)
                pass
            out["eval"] += 1
            wit = {"T1": T, "T2": T2, "seed": seed}
            if dict(d1.window()) != before[2] or dict(d2.window()) != before[3] or \
                    np.shape(d1.observable()) != before[4].shape or np.shape(d2.observable()) != before[5].shape or \
                    not np.array_equal(np.array(d1.observable()), before[4]) or not np.array_equal(np.array(d2.observable()), before[5]):
                out["fail"].append(("CoupledTsonisClimateNetwork.__init__/source-data-unchanged", wit,
                                    f"windows {before[2]} / {before[3]} -> {dict(d1.window())} / {dict(d2.window())}"))
        out["cases"].append(("coupled-sources", True))
    except Exception as e:                                          # noqa
        out["fail"].append(("CoupledTsonisClimateNetwork.__init__/source-data-unchanged", {"seed": seed}, f"raised {type(e).__name__}: {e}"))


# --------------------------------------------------------------------------- tasks

def plan_pairs(nq, tier, rng, primary):
    if tier == "quick":
        n = 900 if primary else 450
    else:
        n = 8000 if primary else 3000
    total = nq * nq
    if total <= n:
        return [(i, j) for i in range(nq) for j in range(nq)]
    seen = set()
    while len(seen) < n:
        seen.add((int(rng.randint(nq)), int(rng.randint(nq))))
    return sorted(seen)


PRIMARY = {"Network/undirected", "Network/directed", "GeoNetwork", "ClimateNetwork", "TsonisClimateNetwork",
           "ResNetwork", "RecurrenceNetwork", "JointRecurrenceNetwork", "InterSystemRecurrenceNetwork",
           "InteractingNetworks/undirected", "HavlinClimateNetwork", "MutualInfoClimateNetwork",
           "HilbertClimateNetwork", "Network/disconnected", "InteractingNetworks/disconnected"}


def work(task):
    kind = task[0]
    out = {"eval": 0, "fail": [], "skip": [], "cases": [], "samples": [], "name": str(task[:2]), "t": 0.0}
    t0 = time.process_time()
    try:
        with S.Silence():
            if kind == "extra":
                seed = task[1]
                statics(out, seed)
                surrogates_retention(out, seed)
                twin_lists_untouched(out, seed)
                caller_dicts_and_sources_untouched(out, seed)
                shared_data_chains(out, seed)
            elif kind == "replay":
                _, name, seed, wit = task
                eng = Engine(REG.spec_by_name(name, seed), out)
                byl = {q.label: q for q in eng.qs}
                if "pair" in wit:
                    eng.pair(byl[wit["pair"][0]], byl[wit["pair"][1]])
                elif "sequence" in wit:
                    eng.chain([byl[x] for x in wit["sequence"]], "replay")
            else:
                _, name, seed, tier, part, nparts = task
                spec = REG.spec_by_name(name, seed)
                eng = Engine(spec, out, light=(part != 0))
                rng = np.random.RandomState(seed * 104729 + sum(map(ord, name)))
                qs = eng.qs
                nq = len(qs)
                primary = name in PRIMARY
                pairs = plan_pairs(nq, tier, rng, primary)
                #  focus queries of the spec (weighted measures on zero / tied link weights, the
                #  visibility relations of series with missing samples): every ordered pair
                foc = [i for i, q in enumerate(qs) if any(f in q.label for f in spec.focus)]
                have = set(pairs)
                focus_pairs = [(i, j) for i in foc for j in foc if (i, j) not in have]
                pairs = pairs + focus_pairs
                for (i, j) in pairs[part::nparts]:
                    eng.pair(qs[i], qs[j])
                #  chains "q1 then everything else" (rotated so that every query comes early once)
                if tier == "quick":
                    heads = sorted(set(int(v) for v in rng.randint(nq, size=min(nq, 30 if primary else 15))))
                else:
                    heads = list(range(nq))
                for h in heads[part::nparts]:
                    order = [qs[h]] + [qs[(h + 1 + k) % nq] for k in range(nq - 1)]
                    eng.chain(order, "chain")
                #  random sequences
                nseq = (60 if primary else 30) if tier == "quick" else (400 if primary else 150)
                seqs = [[qs[int(v)] for v in rng.randint(nq, size=int(rng.randint(3, 7)))] for _ in range(nseq)]
                for sq in seqs[part::nparts]:
                    eng.chain(sq, "seq")
                if part == 0:
                    if eng.dropped:
                        out["skip"].append(f"{name}: not deterministic under RNG seeding, not compared: "
                                           f"{sorted(eng.dropped)}")
                    if eng.skipped_methods:
                        out["skip"].append(f"{name}: methods without an argument pattern: {eng.skipped_methods}")
                    out["samples"].append({"spec": name, "queries": nq, "cold_pairs": len(pairs),
                                           "focus_queries": len(foc),
                                           "chains": len(heads), "sequences": nseq,
                                           "example_pair": [qs[pairs[0][0]].label, qs[pairs[0][1]].label] if pairs else None})
    except Exception as e:                                          # noqa
        out["skip"].append(f"{task[:2]}: HARNESS ERROR {type(e).__name__}: {e} :: " + traceback.format_exc()[-700:])
    out["t"] = time.process_time() - t0
    return out


def main():
    args = parse_args()
    if args.out:
        args.out = os.path.abspath(args.out)
    replay, replay_check = None, None
    if args.replay:
        with open(os.path.abspath(args.replay)) as f:
            replay = json.load(f)
        replay_check = replay.get("check")
        replay = replay.get("witness", replay)
    scope = ("all classes of specs/stateful_registry.py (Network un/directed, InteractingNetworks, Spatial/Geo/"
             "Res networks, VisibilityGraph, ClimateNetwork + 8 data-derived subclasses incl. coupled and event "
             "series networks, ClimateData, Data, Grid, GeoGrid, Recurrence/Cross/JointRecurrence plots, "
             "Recurrence/JointRecurrence/InterSystem networks, Surrogates, EventSeries; 5-14 nodes / samples; "
             "plus Network un/directed, InteractingNetworks with link attribute 'w' in {0,1,2,3,4} (0 on two "
             "existing links, ties), GeoNetwork with 2 polar + 2 coinciding grid points ('w' = angular distance, "
             "0 on two links), VisibilityGraph natural / horizontal on 12 samples with 3 NaN (missing_values=True), "
             "RecurrencePlot (also dim 2, tau 2) and RecurrenceNetwork on 14 samples with 1-3 NaN: for these all "
             "ordered pairs among the weighted / visibility queries are run in addition); "
             "every public query with name-based argument patterns (incl. link attribute 'w' present via "
             "a set_link_attribute call, typical_weight=2.0, node lists).  quick: all single queries, 450-900 seeded cold "
             "ordered pairs, 15-30 'q1 then all' chains and 30-60 random sequences (length 3-6) per class; "
             "thorough: 3000-8000 cold pairs, a chain for every q1 (all ordered pairs in context) and 150-400 "
             "sequences per class.  Plus: constructor purity for every class, 7x7 shared-ClimateData "
             "constructor orders, 25 static helpers, Surrogates significance tests (#11).  Values: exact for "
             "integers, rtol 1e-9 float64 / 1e-5 float32; snapshots bit-exact.")
    rule = ("case = (class, single query | ordered pair | sequence); evaluations counts query evaluations that "
            "were compared with a reference; an alone/pair case is non-trivial when the queries return values "
            "(not exceptions) and, for pairs, differ; RNG re-seeded before every call; queries that differ "
            "between two fresh objects under seeding are listed in `skipped`")
    rep = Report("C06", args, scope, rule)
    workdir = tempfile.mkdtemp(prefix="c06_")
    os.chdir(workdir)
    try:
        tasks = []
        if replay is not None:
            if "spec" in replay:
                tasks.append(("replay", replay["spec"], replay.get("seed", args.seed), replay))
            else:
                tasks.append(("extra", replay.get("seed", args.seed)))
        else:
            tasks.append(("extra", args.seed))
            for spec in REG.specs_for(args.tier, args.seed, "C06"):
                heavy = spec.name.split("/")[0].endswith("Network") or spec.name in ("VisibilityGraph",)
                nparts = (2 if heavy else 1) if args.tier == "quick" else (8 if heavy else 1)
                for p in range(nparts):
                    tasks.append(("spec", spec.name, args.seed, args.tier, p, nparts))
        if len(tasks) == 1:
            results = [work(tasks[0])]
        else:
            with mp.get_context("fork").Pool(WORKERS) as pool:
                results = pool.map(work, tasks, chunksize=1)
        for out in results:
            rep.evaluations += out["eval"]
            for key, nt in out["cases"]:
                if nt:
                    rep.nontrivial.add(key)
            for smp in out["samples"]:
                if len(rep.samples) < 8:
                    rep.samples.append(jsonable(smp))
            for check, wit, detail in out["fail"]:
                if replay is not None and replay_check and "spec" not in replay and check != replay_check:
                    continue                # the helper group is re-run as a whole; keep the case asked for
                rep.fail(check, wit, detail)
            for s in out["skip"]:
                rep.skip(s)
        if os.environ.get("C06_TIMING"):
            agg = {}
            for out in results:
                agg[out["name"]] = agg.get(out["name"], 0) + out["t"]
            sys.stderr.write(json.dumps({k: round(v, 1) for k, v in sorted(agg.items(), key=lambda kv: -kv[1])}) + "\n")
    finally:
        os.chdir("/")
        shutil.rmtree(workdir, ignore_errors=True)
    rep.finish()
    return 0


if __name__ == "__main__":
    try:
        sys.exit(main())
    except SystemExit:
        raise
    except Exception:                                               # noqa
        traceback.print_exc()
        sys.exit(3)
